#!/bin/bash
# Offline setup: make sure hypothesis is importable from /venv (it normally is).
cd "$(dirname "$(readlink -f "$0")")" || exit 2
if ! /venv/bin/python -c "import hypothesis" 2>/dev/null; then
    /venv/bin/pip install --no-index --find-links /opt/veriftools/wheels hypothesis || exit 1
fi
# optional: atheris for the extra campaigns tools/atheris_c02.py / tools/atheris_c15.py
# (not needed by any registered check; failure to install is not an error)
if [ ! -d .deps/atheris ]; then
    /venv/bin/pip install -q --no-index --find-links /opt/veriftools/wheels --target .deps atheris >/dev/null 2>&1 || true
fi
/venv/bin/python -c "import hypothesis, numpy, typhon; print('setup ok: hypothesis', hypothesis.__version__)"
