#!/bin/bash
# Offline setup: make sure hypothesis is importable from /venv (it normally is).
cd "$(dirname "$(readlink -f "$0")")" || exit 2
if ! /venv/bin/python -c "import hypothesis" 2>/dev/null; then
    /venv/bin/pip install --no-index --find-links /opt/veriftools/wheels hypothesis || exit 1
fi
/venv/bin/python -c "import hypothesis, numpy, typhon; print('setup ok: hypothesis', hypothesis.__version__)"
