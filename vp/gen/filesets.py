"""Path templates, file populations and their ground truth (C01 C02 C03 C10 C11
C15 C16).

Everything here is harness code that is independent of typhon: names are
formatted and their coverage is modelled with datetime/timedelta arithmetic
only.  A *template* and a *population* are plain data.

template = {
  "dirs":  [chunk, ...]          directory levels below the root
  "file":  chunk                 file name pattern
  "user":  {name: {"kind": "default"|"regex"|"list", "regex": str, "values": [..]}}
  "coverage_s": None | number    FileSet(time_coverage=...) in seconds
}
chunk = [token, ...];  token = ["lit", text] | ["ph", name] | ["wild"]
file  = {"s": datetime, "e": datetime, "attrs": {name: value}, "wild": str}
"""
import datetime as dt
import os
import shutil
import tempfile
import zipfile

from hypothesis import strategies as st

US = dt.timedelta(microseconds=1)

START_FIELDS = ["year", "year2", "month", "day", "doy", "hour", "minute",
                "second", "millisecond"]
RES_ORDER = ["day", "hour", "minute", "second", "millisecond"]
RES_DELTA = {
    "day": dt.timedelta(days=1), "hour": dt.timedelta(hours=1),
    "minute": dt.timedelta(minutes=1), "second": dt.timedelta(seconds=1),
    "millisecond": dt.timedelta(milliseconds=1),
}


# --------------------------------------------------------------------------
# sandbox
# --------------------------------------------------------------------------
class Sandbox:
    def __init__(self):
        self.root = None

    def __enter__(self):
        self.root = tempfile.mkdtemp(prefix="vpfs-")
        return self

    def __exit__(self, *exc):
        shutil.rmtree(self.root, ignore_errors=True)
        return False

    def mkdir(self, name):
        path = os.path.join(self.root, name)
        os.makedirs(path, exist_ok=True)
        return path


# --------------------------------------------------------------------------
# templates
# --------------------------------------------------------------------------
def chunk_str(chunk):
    out = []
    for tok in chunk:
        if tok[0] == "lit":
            out.append(tok[1])
        elif tok[0] == "ph":
            out.append("{" + tok[1] + "}")
        else:
            out.append("*")
    return "".join(out)


def template_str(template, root=None):
    parts = [chunk_str(c) for c in template["dirs"]]
    parts.append(chunk_str(template["file"]))
    rel = "/".join(parts)
    return rel if root is None else root.rstrip("/") + "/" + rel


def placeholders_of(template):
    names = []
    for chunk in list(template["dirs"]) + [template["file"]]:
        for tok in chunk:
            if tok[0] == "ph":
                names.append(tok[1])
    return names


def user_placeholder_arg(template):
    """placeholder= argument of FileSet (None if all are default)"""
    arg = {}
    for name, spec in template["user"].items():
        if spec["kind"] == "regex":
            arg[name] = spec["regex"]
        elif spec["kind"] == "list":
            arg[name] = list(spec["values"])
    return arg or None


def resolution_of(template):
    """finest start field of the template"""
    names = set(placeholders_of(template))
    res = "day"
    for field in ("hour", "minute", "second", "millisecond"):
        if field in names:
            res = field
    return res


def truncate(t, res):
    if res == "day":
        return t.replace(hour=0, minute=0, second=0, microsecond=0)
    if res == "hour":
        return t.replace(minute=0, second=0, microsecond=0)
    if res == "minute":
        return t.replace(second=0, microsecond=0)
    if res == "second":
        return t.replace(microsecond=0)
    if res == "millisecond":
        return t.replace(microsecond=t.microsecond // 1000 * 1000)
    raise ValueError(res)


def end_fields_of(template):
    return [n[4:] for n in placeholders_of(template) if n.startswith("end_")]


def end_style(template):
    ends = set(end_fields_of(template))
    if not ends:
        return "none"
    if ends & {"year", "year2"}:
        return "full"
    return "partial"


def partial_superior(template):
    """unit by which a partial end is moved when it precedes the start"""
    ends = set(end_fields_of(template))
    for field, sup in (("day", dt.timedelta(days=31)),
                       ("hour", dt.timedelta(days=1)),
                       ("minute", dt.timedelta(hours=1)),
                       ("second", dt.timedelta(minutes=1))):
        if field in ends:
            return sup
    return None


def doy_of(t):
    return (t.date() - dt.date(t.year, 1, 1)).days + 1


def field_str(name, s, e):
    t = e if name.startswith("end_") else s
    base = name[4:] if name.startswith("end_") else name
    if base == "year":
        return "%04d" % t.year
    if base == "year2":
        return "%02d" % (t.year % 100)
    if base == "month":
        return "%02d" % t.month
    if base == "day":
        return "%02d" % t.day
    if base == "doy":
        return "%03d" % doy_of(t)
    if base == "hour":
        return "%02d" % t.hour
    if base == "minute":
        return "%02d" % t.minute
    if base == "second":
        return "%02d" % t.second
    if base == "millisecond":
        return "%03d" % (t.microsecond // 1000)
    raise KeyError(name)


def format_chunk(chunk, s, e, attrs, wild):
    out = []
    for tok in chunk:
        if tok[0] == "lit":
            out.append(tok[1])
        elif tok[0] == "wild":
            out.append(wild)
        elif tok[1] in attrs:
            out.append(attrs[tok[1]])
        else:
            out.append(field_str(tok[1], s, e))
    return "".join(out)


def format_path(template, s, e, attrs, wild="", root=None):
    parts = [format_chunk(c, s, e, attrs, wild) for c in template["dirs"]]
    parts.append(format_chunk(template["file"], s, e, attrs, wild))
    rel = "/".join(parts)
    return rel if root is None else root.rstrip("/") + "/" + rel


def field_strings(template, s, e, attrs):
    """what parse_filename must return"""
    out = {}
    for name in placeholders_of(template):
        out[name] = attrs[name] if name in attrs else field_str(name, s, e)
    return out


def model_times(template, s, e):
    """Coverage typhon must derive from a name that was formatted from (s, e).

    full end: e;  partial end: start with the given end fields replaced, moved
    by the superior unit when before the start;  none: s + coverage or s.
    """
    style = end_style(template)
    if style == "full":
        return s, e
    if style == "none":
        cov = template.get("coverage_s")
        if cov is None:
            return s, s
        return s, s + dt.timedelta(seconds=cov)
    repl = {}
    for f in end_fields_of(template):
        if f == "millisecond":
            repl["microsecond"] = e.microsecond // 1000 * 1000
        else:
            repl[f] = getattr(e, f)
    end = s.replace(**repl)
    if end < s:
        end += partial_superior(template)
    return s, end


def dir_period(template):
    """longest duration a file may have under C01's layout rule (one period of
    the finest temporal directory level, taken conservatively), or None"""
    names = set()
    for chunk in template["dirs"]:
        for tok in chunk:
            if tok[0] == "ph":
                names.add(tok[1])
    if "hour" in names:
        return dt.timedelta(hours=1)
    if names & {"day", "doy"}:
        return dt.timedelta(days=1)
    if "month" in names:
        return dt.timedelta(days=28)
    if names & {"year", "year2"}:
        return dt.timedelta(days=365)
    return None


def typhon_dir_period(template):
    """the period typhon uses for the neighbourhood of find_closest"""
    names = set()
    for chunk in template["dirs"]:
        for tok in chunk:
            if tok[0] == "ph":
                names.add(tok[1])
    if "hour" in names:
        return dt.timedelta(hours=1)
    if names & {"day", "doy"}:
        return dt.timedelta(days=1)
    if "month" in names:
        return dt.timedelta(days=31)
    if names & {"year", "year2"}:
        return dt.timedelta(days=366)
    if any(tok[0] != "lit" for chunk in template["dirs"] for tok in chunk):
        # sub-directories with placeholders but without a temporal one count
        # as a year (leading literal directories belong to the base directory)
        return dt.timedelta(days=366)
    return None


# --------------------------------------------------------------------------
# populations
# --------------------------------------------------------------------------
class File:
    __slots__ = ("path", "rel", "t0", "t1", "attrs", "s", "e", "wild")

    def __init__(self, path, rel, t0, t1, attrs, s, e, wild):
        self.path, self.rel = path, rel
        self.t0, self.t1 = t0, t1
        self.attrs = attrs
        self.s, self.e, self.wild = s, e, wild

    def __repr__(self):
        return "File(%r, %s .. %s, %r)" % (self.rel, self.t0, self.t1,
                                            self.attrs)


class Population:
    def __init__(self, root, template, files, prefix=None):
        self.root = root
        self.template = template
        self.files = files
        self.prefix = root if prefix is None else prefix
        self.path = template_str(template, self.prefix)

    def by_path(self):
        return {f.path: f for f in self.files}


def plan_population(template, files, prefix):
    """ground truth of a population (no I/O); later duplicates of a path are
    dropped"""
    seen, out = set(), []
    for spec in files:
        s, e = spec["s"], spec["e"]
        rel = format_path(template, s, e, spec["attrs"], spec.get("wild", ""))
        if rel in seen:
            continue
        seen.add(rel)
        t0, t1 = model_times(template, s, e)
        out.append(File(prefix.rstrip("/") + "/" + rel, rel, t0, t1,
                        dict(spec["attrs"]), s, e, spec.get("wild", "")))
    return out


def make_population(root, template, files, distractors=(), content=None):
    """create the files below root; returns Population"""
    planned = plan_population(template, files, root)
    for f in planned:
        os.makedirs(os.path.dirname(f.path), exist_ok=True)
        with open(f.path, "wb") as fh:
            if content is not None:
                fh.write(content(f))
    for rel in distractors:
        path = os.path.join(root, rel)
        if rel.endswith("/"):
            os.makedirs(path, exist_ok=True)
        else:
            os.makedirs(os.path.dirname(path), exist_ok=True)
            if not os.path.exists(path):
                with open(path, "wb"):
                    pass
    return Population(root, template, planned)


def zip_population(box, pop, name="archive.zip", inner="data"):
    """pack the tree of a local population into a zip; returns
    (ZipFileSystem, Population with archive-relative paths)"""
    from fsspec.implementations.zip import ZipFileSystem
    archive = os.path.join(box.root, name)
    with zipfile.ZipFile(archive, "w") as zf:
        for dirpath, dirnames, filenames in os.walk(pop.root):
            rel_dir = os.path.relpath(dirpath, pop.root)
            arc_dir = inner if rel_dir == "." else inner + "/" + rel_dir
            zf.writestr(arc_dir + "/", b"")
            for fn in filenames:
                zf.write(os.path.join(dirpath, fn), arc_dir + "/" + fn)
    files = [File(inner + "/" + f.rel, f.rel, f.t0, f.t1, dict(f.attrs),
                  f.s, f.e, f.wild) for f in pop.files]
    return ZipFileSystem(archive), Population(pop.root, pop.template, files,
                                              prefix=inner)


def in_period(f, start, end):
    """C01: t0 < end and t1 >= start"""
    return f.t0 < end and f.t1 >= start


# --------------------------------------------------------------------------
# strategies: templates
# --------------------------------------------------------------------------
SEPS = ["_", "-", ".", "_v", "~", "=", ",", "@", "%", "#"]
SUFFIXES = [".dat", ".nc", ".txt", ".h5", ".bin", ".nc.gz", ".dat.tmp",
            ".csv", ".v2.dat"]
USER_VALUES = ["A", "B", "AB", "ABC", "NOAA18", "MetopA", "a", "b2", "1",
               "07", "x1y"]


def lit(text):
    return ["lit", text]


def ph(name):
    return ["ph", name]


@st.composite
def user_placeholder(draw, name):
    kind = draw(st.sampled_from(["default", "default", "regex", "list"]))
    if kind == "regex":
        regex, values = draw(st.sampled_from([
            (r"\d{5}", ["00001", "12345", "99999", "12346"]),
            (r"[A-Z]{2}", ["AB", "AC", "ZZ", "BA"]),
            (r"[a-z]\d", ["a1", "a2", "b1", "z9"]),
            # escape classes only: no other special character than "\\"
            (r"\d\d\d\d\d", ["00001", "12345", "99999", "12346"]),
            (r"\w\d", ["a1", "B2", "_3", "99"]),
            (r"[A-Za-z0-9]+", USER_VALUES),
        ]))
        return {"kind": "regex", "regex": regex, "values": values}
    if kind == "list":
        values = draw(st.lists(st.sampled_from(USER_VALUES), min_size=1,
                               max_size=4, unique=True))
        return {"kind": "list", "regex": None, "values": values}
    return {"kind": "default", "regex": None, "values": USER_VALUES}


@st.composite
def templates(draw, max_dirs=4, end_styles=("none", "full", "partial"),
              allow_user=True, allow_wild=True, allow_ms=True,
              min_res=None, allow_dup=True, allow_dir_literal=True,
              allow_year2=True, allow_doy=True, coarse_end=False):
    """A path template of the C01/C02 grammar (see DESIGN.md C01 'D.')."""
    year = draw(st.sampled_from(["year", "year", "year2"])) \
        if allow_year2 else "year"
    use_doy = allow_doy and draw(st.integers(0, 3)) == 0
    user = {}
    # ---- temporal directory chain (coarse -> fine) -----------------------
    n_temporal = draw(st.integers(0, min(max_dirs, 4)))
    date_levels = [[year], ["doy"]] if use_doy else \
        draw(st.sampled_from([
            [[year], ["month"], ["day"]],
            [[year, "month"], ["day"]],
            [[year], ["month", "day"]],
            [[year, "month", "day"]],
        ]))
    levels = [list(l) for l in date_levels] + [["hour"]]
    levels = levels[:n_temporal]
    dirs = []
    for fields in levels:
        chunk = []
        for i, f in enumerate(fields):
            if i:
                sep = draw(st.sampled_from(["", "-", "_"]))
                if sep:
                    chunk.append(lit(sep))
            chunk.append(ph(f))
        if draw(st.integers(0, 5)) == 0:
            chunk.insert(0, lit(draw(st.sampled_from(["d", "Y", "lvl_"]))))
        dirs.append(chunk)
    # non temporal directory chunks
    n_other = draw(st.integers(0, max(0, max_dirs - len(dirs)))) \
        if max_dirs > len(dirs) else 0
    n_other = min(n_other, 2)
    for _ in range(n_other):
        pos = draw(st.integers(0, len(dirs)))
        kind = draw(st.sampled_from(["literal", "user"]))
        if kind == "literal" and allow_dir_literal:
            dirs.insert(pos, [lit(draw(st.sampled_from(["data", "l1b",
                                                        "v1.0"])))])
        elif kind == "user" and allow_user and "sat" not in user:
            user["sat"] = draw(user_placeholder("sat"))
            chunk = [ph("sat")]
            if draw(st.booleans()):
                chunk.insert(0, lit("sat-"))
            dirs.insert(pos, chunk)
    in_dirs = {tok[1] for c in dirs for tok in c if tok[0] == "ph"}
    # ---- file part -------------------------------------------------------
    res_choices = RES_ORDER if allow_ms else RES_ORDER[:-1]
    if min_res is not None:
        res_choices = res_choices[res_choices.index(min_res):]
    if "hour" in in_dirs and res_choices[0] == "day":
        res_choices = res_choices[1:]
    res = draw(st.sampled_from(res_choices))
    date_fields = [year, "doy"] if use_doy else [year, "month", "day"]
    time_fields = ["hour", "minute", "second", "millisecond"][
        :RES_ORDER.index(res)]
    needed = []
    for f in date_fields + time_fields:
        if f not in in_dirs:
            needed.append(f)
        elif allow_dup and draw(st.integers(0, 2)) == 0:
            needed.append(f)          # repeated placeholder
    chunk = []
    if draw(st.booleans()):
        chunk.append(lit(draw(st.sampled_from(["f", "data_", "NSS.", "x-"]))))
    if allow_user and "sat" not in user and draw(st.integers(0, 3)) == 0:
        # user placeholder in front of the time fields: directory order is
        # then not the time order
        user["sat"] = draw(user_placeholder("sat"))
        chunk.append(ph("sat"))
        chunk.append(lit(draw(st.sampled_from(["_", "-", "."]))))

    def add_fields(fields, prefix=""):
        for i, f in enumerate(fields):
            if i and draw(st.integers(0, 3)) == 0:
                chunk.append(lit(draw(st.sampled_from(["", "-", "_", "T",
                                                       "."]))))
            chunk.append(ph(prefix + f))

    add_fields(needed)
    style = draw(st.sampled_from(list(end_styles)))
    if res == "day" and style == "partial":
        style = "full" if "full" in end_styles else "none"
    if style != "none":
        chunk.append(lit(draw(st.sampled_from(["-", "_", "-E", ".to."]))))
        if style == "full":
            eyear = draw(st.sampled_from(["year", "year2"])) \
                if allow_year2 else "year"
            edoy = allow_doy and draw(st.integers(0, 3)) == 0
            efields = [eyear, "doy"] if edoy else [eyear, "month", "day"]
            add_fields(efields + time_fields, "end_")
        else:
            first = draw(st.integers(0, len(time_fields) - 1))
            if time_fields[first] == "millisecond":
                first -= 1
            last = len(time_fields)
            if coarse_end and draw(st.integers(0, 2)) == 0:
                # the end stops at a coarser field than the start: the finer
                # ones (seconds, milliseconds) are taken from the start
                last = draw(st.integers(first + 1, len(time_fields)))
            add_fields(time_fields[first:last], "end_")
    if not chunk or all(t[0] == "lit" for t in chunk):
        # everything is given by the directories: add one repeated field so
        # that the file pattern is not a constant
        chunk.append(ph(needed[0] if needed else date_fields[-1]))
    if allow_user and draw(st.integers(0, 2)) == 0:
        name = "sat" if "sat" not in user else "orbit"
        if name not in user:
            user[name] = draw(user_placeholder(name))
        chunk.append(lit(draw(st.sampled_from(SEPS))))
        chunk.append(ph(name))
        if name == "sat" and allow_dup and draw(st.integers(0, 4)) == 0 \
                and any(t == ["ph", "sat"] for c in dirs for t in c):
            pass
    if allow_wild and draw(st.integers(0, 4)) == 0:
        chunk.append(lit(draw(st.sampled_from(["_", "-", ".r"]))))
        chunk.append(["wild"])
    chunk.append(lit(draw(st.sampled_from(SUFFIXES))))
    tpl = {"dirs": dirs, "file": chunk, "user": user, "coverage_s": None}
    if style == "none":
        limit = dir_period(tpl)
        choices = [c for c in (1, 60, 3600, 6 * 3600, 86400, 5400, 0.5)
                   if limit is None or c <= limit.total_seconds()]
        tpl["coverage_s"] = draw(st.sampled_from([None, None] + choices))
    return tpl


# --------------------------------------------------------------------------
# strategies: instants and populations
# --------------------------------------------------------------------------
LATTICE_DATES = [
    (1999, 12, 31), (2000, 1, 1), (2000, 2, 28), (2000, 2, 29), (2000, 3, 1),
    (2016, 2, 29), (2016, 12, 31), (2017, 1, 1), (2017, 12, 31), (2018, 1, 1),
    (2018, 1, 13), (2018, 1, 14), (2018, 1, 31), (2018, 2, 1), (2018, 2, 28),
    (2018, 3, 1), (2018, 6, 15), (2018, 12, 30), (2018, 12, 31), (2019, 1, 1),
    (2064, 12, 31), (1965, 1, 1),
]


def year_ok(template, year):
    names = set(placeholders_of(template))
    if "year2" in names or "end_year2" in names:
        return 1965 <= year <= 2064
    return 1000 <= year <= 9999


@st.composite
def instants(draw, res, near=None):
    """datetime at resolution `res`, concentrated around day/hour/month/year
    ends"""
    if near is not None and draw(st.integers(0, 2)) > 0:
        base = near
    else:
        y, m, d = draw(st.sampled_from(LATTICE_DATES))
        base = dt.datetime(y, m, d)
    off = draw(st.one_of(
        st.sampled_from([0, 1, 59, 60, 3599, 3600, 3601, 43200, 86399, 86340,
                         82800, 86400, -1, -60, -3600]),
        st.integers(0, 86399),
        st.integers(-3 * 86400, 3 * 86400)))
    ms = draw(st.sampled_from([0, 0, 1, 500, 999])) if res == "millisecond" \
        else 0
    t = base + dt.timedelta(seconds=off, milliseconds=ms)
    return truncate(t, res)


@st.composite
def durations(draw, res, limit):
    """timedelta >= 0 in units of the resolution, <= limit (None = 40 days)"""
    unit = RES_DELTA[res]
    if limit is None:
        limit = dt.timedelta(days=40)
    n_max = max(0, int(limit / unit))
    n = draw(st.one_of(
        st.sampled_from([0, 1, 2]),
        st.just(n_max),
        st.integers(0, n_max),
        st.integers(0, min(n_max, 200))))
    return min(n, n_max) * unit


@st.composite
def populations(draw, template, min_files=0, max_files=25, layout_rule=True):
    """list of file specs for a template (plain data)"""
    res = resolution_of(template)
    style = end_style(template)
    limit = dir_period(template) if layout_rule else None
    if style == "partial":
        sup = partial_superior(template)
        # e - s < superior unit
        lim2 = sup - RES_DELTA[res]
        limit = lim2 if limit is None else min(limit, lim2)
    n = draw(st.integers(min_files, max_files))
    anchor = draw(instants(res))
    files = []
    user = template["user"]
    for _ in range(n):
        if files and draw(st.integers(0, 5)) == 0:
            s = files[draw(st.integers(0, len(files) - 1))]["s"]   # dup start
        elif files and draw(st.integers(0, 3)) == 0:
            s = files[-1]["e"]                                     # adjacent
        else:
            s = draw(instants(res, near=anchor))
        if not year_ok(template, s.year):
            s = s.replace(year=2018 if s.month != 2 or s.day != 29 else 2016)
        if style == "none":
            e = s
        else:
            e = s + draw(durations(res, limit))
            if not year_ok(template, e.year):
                e = s
        attrs = {name: draw(st.sampled_from(spec["values"]))
                 for name, spec in sorted(user.items())}
        wild = draw(st.sampled_from(["", "x", "r1", "001", "a_b", "v-2"]))
        files.append({"s": s, "e": e, "attrs": attrs, "wild": wild})
    return files


def distractors_for(template, files, draw):
    """relative paths of files/directories that cannot match the template"""
    out = []
    planned = plan_population(template, files, "")
    depth = len(template["dirs"])
    rels = [f.rel for f in planned]
    cands = ["README.md", "notes.txt~", ".hidden"]
    for rel in rels[:3]:
        d, _, name = rel.rpartition("/")
        pre = d + "/" if d else ""
        cands.append(pre + name + "~")
        cands.append(pre + "x" + name + ".bak")
        cands.append(pre + "unrelated.log")
        if d:
            cands.append(pre + "subdir.d/")            # dir at file level
            top = d.split("/")[0]
            cands.append("zz_other/")
            if depth >= 2:
                cands.append(top + "/zz_other/")
                cands.append(top + "/stray.file")
    k = draw(st.integers(0, min(6, len(cands))))
    idx = draw(st.lists(st.integers(0, len(cands) - 1), min_size=k,
                        max_size=k, unique=True)) if cands else []
    out = [cands[i] for i in idx]
    # a distractor must not shadow a planned file or one of its directories
    dirs = set()
    for rel in rels:
        parts = rel.split("/")
        for i in range(1, len(parts)):
            dirs.add("/".join(parts[:i]))
    return [c for c in out if c.rstrip("/") not in dirs and c not in rels]


# --------------------------------------------------------------------------
# C03: match cases
# --------------------------------------------------------------------------
@st.composite
def match_case_strategy(draw):
    sets = []
    anchor = draw(instants("second"))
    boundary = None
    if draw(st.integers(0, 2)) == 0:
        # focus on a change of the day (month, year): the files start shortly
        # before it and reach over it, the period may begin right after it -
        # typhon then has to look back into the previous directory, also for
        # files whose duration comes from time_coverage
        y, m, d = draw(st.sampled_from(LATTICE_DATES))
        boundary = dt.datetime(y, m, d)
        anchor = boundary - dt.timedelta(seconds=draw(st.sampled_from(
            [1, 30, 300, 1800, 3000])))
    for k in range(2):
        tpl = draw(templates(max_dirs=2,
                             end_styles=draw(st.sampled_from(
                                 [("full",), ("full",), ("none",)])),
                             allow_wild=False, allow_ms=False,
                             min_res="second",
                             allow_user=draw(st.booleans())))
        if tpl["coverage_s"] is not None:
            tpl["coverage_s"] = int(max(1, tpl["coverage_s"]))  # whole seconds
        limit = dir_period(tpl)
        n = draw(st.integers(1, 12))
        files = []
        t = anchor + dt.timedelta(seconds=draw(st.integers(-600, 600)))
        for _ in range(n):
            gap = draw(st.sampled_from([0, 0, 1, 30, 300, 1800, -60, -600]))
            s = t + dt.timedelta(seconds=gap)
            dur = draw(st.sampled_from([0, 1, 60, 600, 1800, 3599, 3600, 7200,
                                        40000]))
            if limit is not None:
                dur = min(dur, int(limit.total_seconds()))
            e = s + dt.timedelta(seconds=dur)
            if end_style(tpl) == "none":
                e = s               # duration comes from time_coverage
            if not (year_ok(tpl, s.year) and year_ok(tpl, e.year)):
                continue
            files.append({"s": s, "e": e, "attrs": {
                name: draw(st.sampled_from(spec["values"]))
                for name, spec in sorted(tpl["user"].items())}, "wild": ""})
            t = e
        if k == 1 and draw(st.integers(0, 3)) == 0 and sets and limit is None:
            # one file covering the other set's whole span
            lo = min(f["s"] for f in sets[0]["files"])
            hi = max(f["e"] for f in sets[0]["files"])
            files.append({"s": lo - dt.timedelta(seconds=5),
                          "e": hi + dt.timedelta(seconds=5),
                          "attrs": {name: spec["values"][0] for name, spec
                                    in sorted(tpl["user"].items())},
                          "wild": ""})
        files = [f for f in files if year_ok(tpl, f["s"].year)
                 and year_ok(tpl, f["e"].year)]
        if not files:
            safe = dt.datetime(2018, 6, 15, 12)
            files.append({"s": safe, "e": safe + dt.timedelta(seconds=60),
                          "attrs": {name: spec["values"][0] for name, spec
                                    in sorted(tpl["user"].items())},
                          "wild": ""})
        spec = {"template": tpl, "files": files,
                "late_coverage": draw(st.booleans())}
        if draw(st.integers(0, 7)) == 0:
            # a single-file fileset instead: default coverage (all times) or
            # an explicit one, ordinary or far outside 1677..2262
            lo_f = min(f["s"] for f in files)
            hi_f = max(f["e"] for f in files)
            spec["single"] = {"coverage": draw(st.sampled_from([
                None, None,
                [dt.datetime(1600, 1, 1), dt.datetime(2400, 1, 1)],
                [lo_f - dt.timedelta(seconds=30),
                 hi_f + dt.timedelta(seconds=30)],
                [lo_f, lo_f + dt.timedelta(seconds=90)]]))}
        sets.append(spec)
    every = [f for s_ in sets for f in s_["files"]]
    lo = min(f["s"] for f in every)
    hi = max(f["e"] for f in every)
    bounds = sorted({f["s"] for f in every} | {f["e"] for f in every})
    start = draw(st.one_of(
        st.just(lo - dt.timedelta(days=2)),
        st.sampled_from(bounds),
        st.sampled_from(bounds).map(lambda b: b - dt.timedelta(seconds=1))))
    if boundary is not None and draw(st.booleans()):
        start = boundary + dt.timedelta(seconds=draw(st.sampled_from(
            [0, 1, 60, 1801])))
    end = draw(st.one_of(
        st.just(hi + dt.timedelta(days=2)),
        st.sampled_from(bounds).map(lambda b: b + dt.timedelta(seconds=1)),
        st.sampled_from(bounds)))
    if end <= start:
        end = start + dt.timedelta(seconds=draw(st.sampled_from([1, 60,
                                                                 86400])))
    mi = draw(st.one_of(st.none(), st.fixed_dictionaries({
        "seconds": st.sampled_from([0, 1, 30, 300, 1800, 86400]),
        "as": st.sampled_from(["int", "float", "str", "td"])})))
    return {"sets": sets, "start": start, "end": end, "max_interval": mi,
            "boundary_focus": boundary is not None}
