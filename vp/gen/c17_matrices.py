"""Symmetric positive-definite matrices and Jacobians as plain data
(used by C17 and C18).

An SPD matrix is Q diag(lam) Q^T with Q a product of 0-3 Householder
reflectors built from drawn vectors (0 reflectors = diagonal matrix); the
eigenvalues are log-uniform within a drawn spread around a drawn scale.  The
matrix is symmetrised exactly ((S + S^T)/2) before it becomes part of the
case, so the case holds what typhon sees.
"""
import numpy as np
from hypothesis import strategies as st

from vp.gen.c19_samples import fill_matrix


def spd_from(lams, vs):
    n = len(lams)
    Q = np.eye(n)
    for v in vs:
        v = np.asarray(v, dtype=float)
        nv = float(v @ v)
        if nv < 1e-12:
            continue
        Q = Q - 2.0 * np.outer(Q @ v, v) / nv
    S = (Q * np.asarray(lams, dtype=float)) @ Q.T
    S = (S + S.T) / 2.0
    return S


@st.composite
def spd(draw, n, max_spread_decades=3.0, scales=(-3.0, 3.0), structure=None):
    """-> dict(matrix=list of lists, structure=..., lams=[...])"""
    if structure is None:
        structure = draw(st.sampled_from(
            ["diagonal", "correlated", "correlated", "scalar"]))
    scale = draw(st.floats(scales[0], scales[1], allow_nan=False))
    spread = draw(st.floats(0.0, max_spread_decades, allow_nan=False))
    if structure == "scalar":
        lams = [10.0 ** scale] * n
    else:
        us = draw(st.lists(st.floats(0.0, 1.0, allow_nan=False),
                           min_size=n, max_size=n))
        if n > 1 and draw(st.booleans()):
            us[0], us[-1] = 0.0, 1.0      # the whole spread is present
        lams = [10.0 ** (scale + spread * (u - 0.5)) for u in us]
    vs = []
    if structure == "correlated" and n > 1:
        k = draw(st.integers(1, 3))
        for _ in range(k):
            vs.append(draw(st.lists(st.floats(-1.0, 1.0, allow_nan=False),
                                    min_size=n, max_size=n)))
    S = spd_from(lams, vs)
    return {"matrix": S.tolist(), "structure": structure, "lams": lams}


@st.composite
def jacobian(draw, m, n):
    """-> dict(matrix=m x n list of lists, kind=...)"""
    kind = draw(st.sampled_from(
        ["gaussian", "gaussian", "gaussian", "scaled", "rank-deficient",
         "zero"]))
    if kind == "zero":
        return {"matrix": [[0.0] * n for _ in range(m)], "kind": kind}
    if m * n <= 120:
        flat = draw(st.lists(st.floats(-1.0, 1.0, allow_nan=False),
                             min_size=m * n, max_size=m * n))
        K = [flat[i * n:(i + 1) * n] for i in range(m)]
    else:
        pool = draw(st.lists(st.floats(-1.0, 1.0, allow_nan=False),
                             min_size=61, max_size=61))
        a = draw(st.integers(1, 60))
        b = draw(st.integers(1, 60))
        c = draw(st.integers(0, 60))
        K = fill_matrix(pool, m, n, a, b, c)
    K = np.array(K, dtype=float).reshape(m, n)
    if kind == "scaled":
        K = K * 10.0 ** draw(st.floats(-3.0, 3.0, allow_nan=False))
        if draw(st.booleans()):
            cs = draw(st.lists(st.floats(-2.0, 2.0, allow_nan=False),
                               min_size=n, max_size=n))
            K = K * (10.0 ** np.array(cs))
    elif kind == "rank-deficient":
        how = draw(st.sampled_from(["repeat-col", "zero-col", "zero-row",
                                    "rank-1"]))
        j = draw(st.integers(0, n - 1))
        if how == "repeat-col" and n > 1:
            j2 = (j + 1 + draw(st.integers(0, n - 2))) % n
            K[:, j2] = K[:, j]
        elif how == "zero-row":
            K[draw(st.integers(0, m - 1)), :] = 0.0
        elif how == "rank-1":
            K = np.outer(K[:, 0], K[0, :])
        else:
            K[:, j] = 0.0
    return {"matrix": K.tolist(), "kind": kind}
