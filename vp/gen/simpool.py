"""A deterministic stand-in for concurrent.futures.ThreadPoolExecutor whose
*completion order is owned by the harness* (C10, C05).

Model of a pool with W workers: tasks start in submission order as soon as a
worker is free and complete in any order.  Here the order is given by a
priority list taken from the case: whenever the caller blocks on a future
(`result()`), the started-but-unfinished task with the best priority is
executed (in the calling thread) and completed, until the awaited future is
done.  Every completion order that a real pool with W workers can produce
corresponds to one priority permutation, so enumerating the permutations
enumerates the schedules.

A watchdog keeps exotic callers alive: if something blocks on the futures
without going through `result()` (e.g. `as_completed`), a helper thread
completes tasks in priority order after a short idle time.  For typhon's
implementation the watchdog never fires; runs stay a pure function of the
case.
"""
import concurrent.futures as cf
import threading
import time


class Schedule:
    """shared by all pools of one case"""

    def __init__(self, priority, idle_s=3.0):
        self.priority = list(priority)
        self.lock = threading.RLock()
        self.pools = []
        self.events = []            # ("submit", pool, index, in_flight) ...
        self.consumed = 0           # maintained by the harness consumer
        self.last_activity = time.monotonic()
        self.idle_s = idle_s
        self.watchdog_fired = 0
        self._stop = threading.Event()
        self._thread = None

    def rank(self, index):
        n = len(self.priority)
        return (self.priority[index % n] if n else 0, index)

    def start_watchdog(self):
        def loop():
            while not self._stop.wait(0.05):
                if time.monotonic() - self.last_activity < self.idle_s:
                    continue
                with self.lock:
                    for pool in list(self.pools):
                        if pool.step():
                            self.watchdog_fired += 1
                            self.idle_s = 0.05
                            break
                    self.last_activity = time.monotonic()
        self._thread = threading.Thread(target=loop, daemon=True)
        self._thread.start()

    def stop(self):
        self._stop.set()
        if self._thread is not None:
            self._thread.join(2)


class SimFuture(cf.Future):
    def __init__(self, pool, index, fn, args, kwargs):
        super().__init__()
        self.pool, self.index = pool, index
        self.fn, self.args, self.kwargs = fn, args, kwargs
        self.started = False

    def result(self, timeout=None):
        sched = self.pool.sched
        with sched.lock:
            while not self.done():
                if not self.pool.step():
                    break
        return super().result(timeout)

    def exception(self, timeout=None):
        sched = self.pool.sched
        with sched.lock:
            while not self.done():
                if not self.pool.step():
                    break
        return super().exception(timeout)


def make_pool_class(sched, max_in_flight_of=None):
    """returns a class usable in place of ThreadPoolExecutor"""

    class SimPool:
        def __init__(self, max_workers=None, **kwargs):
            self.sched = sched
            self.workers = max_workers if max_workers else 1
            self.futures = []
            self.running = []
            self.queued = []
            self.shut = False
            self.id = len(sched.pools)
            sched.pools.append(self)

        # -- executor interface ------------------------------------------
        def submit(self, fn, *args, **kwargs):
            with sched.lock:
                if self.shut:
                    raise RuntimeError("cannot schedule new futures after "
                                       "shutdown")
                fut = SimFuture(self, len(self.futures), fn, args, kwargs)
                self.futures.append(fut)
                if len(self.running) < self.workers:
                    fut.started = True
                    fut.set_running_or_notify_cancel()
                    self.running.append(fut)
                else:
                    self.queued.append(fut)
                pending = sum(1 for f in self.futures)
                sched.events.append(("submit", self.id, fut.index,
                                     pending - sched.consumed,
                                     len(self.running)))
                sched.last_activity = time.monotonic()
                return fut

        def map(self, fn, *iterables, timeout=None, chunksize=1):
            futs = [self.submit(fn, *args) for args in zip(*iterables)]

            def gen():
                for f in futs:
                    yield f.result()
            return gen()

        def shutdown(self, wait=True, cancel_futures=False):
            with sched.lock:
                self.shut = True
                if cancel_futures:
                    for f in self.queued:
                        f.cancel()
                    self.queued = []
                if wait:
                    while self.step():
                        pass

        def __enter__(self):
            return self

        def __exit__(self, *exc):
            self.shutdown(wait=True)
            return False

        # -- scheduler ----------------------------------------------------
        def step(self):
            """complete the running task with the best priority; False if
            nothing is running"""
            with sched.lock:
                if not self.running:
                    return False
                fut = min(self.running, key=lambda f: sched.rank(f.index))
                self.running.remove(fut)
                sched.events.append(("run", self.id, fut.index))
                try:
                    value = fut.fn(*fut.args, **fut.kwargs)
                except BaseException as exc:  # noqa - delivered via future
                    fut.set_exception(exc)
                else:
                    fut.set_result(value)
                if self.queued:
                    nxt = self.queued.pop(0)
                    nxt.started = True
                    nxt.set_running_or_notify_cancel()
                    self.running.append(nxt)
                sched.last_activity = time.monotonic()
                return True

    return SimPool
