"""Generators for C13: plain-data descriptions of compact collocation data
sets (layout of Collocator._create_return) and of small point sets whose
collocations are known by construction, plus the builders that turn such a
description into xarray objects.  Nothing in here imports typhon.
"""
import itertools

import numpy as np
import xarray as xr
from hypothesis import strategies as st

BASE_TIME = np.datetime64("2018-03-01T00:00:00", "ns")
# (also pairs in which one name is the beginning of the other one)
NAMES = [["primary", "secondary"], ["P", "S"], ["MHS", "AVHRR_2"], ["b", "a"],
         ["MHS", "MHS2"], ["secondary", "primary"], ["MHS2", "MHS"],
         ["A", "AB"], ["primary2", "primary"]]
DTYPES = ["f8", "f8", "f8", "f4", "i8", "i4"]
NAN = float("nan")


# --------------------------------------------------------------------------
# strategies: harness-built compact data
# --------------------------------------------------------------------------
INF = float("inf")


def _float_elements(allow_nan, width, allow_inf=False):
    parts = [
        st.integers(-100, 100).map(float),
        st.integers(-40, 40).map(lambda v: v / 4.0),
        st.floats(-1e6, 1e6, allow_nan=False, width=width),
        st.sampled_from([0.0, -0.0, 1.0, 1e-5, 273.15, -1e6, 1e6]),
    ]
    if allow_nan:
        parts += [st.just(NAN), st.just(NAN)]
    if allow_inf:
        parts += [st.sampled_from([INF, -INF, INF])]
    return st.one_of(*parts)


def _elements(var):
    if var["dtype"].startswith("i"):
        return st.integers(-1000, 1000)
    return _float_elements(var["nan"], 32 if var["dtype"] == "f4" else 64,
                           var.get("inf", False))


@st.composite
def _schema(draw):
    """what both groups look like (shared by all parts of a concat list)"""
    groups = []
    for g in range(2):
        sizes = {"channel": draw(st.integers(1, 3)),
                 "level": draw(st.integers(1, 2))}
        nvars = draw(st.sampled_from([0, 1, 1, 2, 2, 3]))
        pool = ["x", "bt", "q", "__index", "z_mean"]
        vars_ = []
        for i in range(nvars):
            name = pool[i] if draw(st.integers(0, 9)) else pool[i + 2]
            if any(v["name"] == name for v in vars_):
                continue
            extra = draw(st.sampled_from(
                [[], [], ["channel"], ["channel"], ["level"],
                 ["channel", "level"], ["level", "channel"]]))
            dtype = draw(st.sampled_from(DTYPES))
            vars_.append({
                "name": name, "dtype": dtype, "extra": extra,
                "pos": draw(st.integers(0, len(extra))),
                "nan": dtype.startswith("f") and draw(st.booleans()),
                "inf": dtype.startswith("f") and draw(st.sampled_from(
                    [False, True, False])),
            })
        uses_channel = any("channel" in v["extra"] for v in vars_)
        groups.append({
            "sizes": sizes, "vars": vars_,
            "channel_coord": uses_channel and draw(st.booleans()),
            # a variable that does not live on the collocation dimension:
            # on the channel dimension, a scalar number or the "__file" string
            "global": draw(st.sampled_from(
                [None, None, "channel", "scalar", "file"])),
        })
    return groups


def _complete(draw, n0, n1, pairs):
    """every stored point must take part in at least one pair"""
    have0 = {p for p, _ in pairs}
    have1 = {s for _, s in pairs}
    for p in range(n0):
        if p not in have0:
            s = draw(st.integers(0, n1 - 1))
            pairs.append((p, s))
            have1.add(s)
    for s in range(n1):
        if s not in have1:
            pairs.append((draw(st.integers(0, n0 - 1)), s))
    return pairs


def _order(draw, pairs, n1):
    mode = draw(st.sampled_from(["as-is", "p-major", "s-major", "reverse",
                                 "scramble", "scramble"]))
    if mode == "p-major":
        return sorted(pairs)
    if mode == "s-major":
        return sorted(pairs, key=lambda t: (t[1], t[0]))
    if mode == "reverse":
        return sorted(pairs, reverse=True)
    if mode == "scramble":
        a = draw(st.integers(1, 96))
        b = draw(st.integers(1, 96))
        return sorted(pairs, key=lambda t: ((t[0] * a + t[1] * b) % 97, t))
    return pairs


@st.composite
def _pairs(draw, size):
    if size == "tiny":
        n0 = draw(st.integers(1, 4))
        n1 = draw(st.integers(1, 4))
        pairs = draw(st.lists(
            st.tuples(st.integers(0, n0 - 1), st.integers(0, n1 - 1)),
            min_size=0, max_size=8, unique=True))
        pairs = _complete(draw, n0, n1, list(pairs))
        if draw(st.booleans()):
            pairs = draw(st.permutations(pairs))
        return n0, n1, list(pairs)
    if size == "fan":
        # one reference point with very many partners (the other points of
        # its group have a few): counts around 128, 256, and above
        many = draw(st.sampled_from(
            [127, 257, 128, 129, 255, 256, 258, 300, 300, 1100]))
        few = draw(st.integers(1, 3))
        hub_side = draw(st.integers(0, 1))
        hub = draw(st.integers(0, few - 1))
        pairs = [(hub, s) for s in range(many)]
        for p in range(few):
            if p != hub:
                pairs += [(p, s) for s in draw(st.lists(
                    st.integers(0, many - 1), min_size=1, max_size=4,
                    unique=True))]
        pairs = _order(draw, pairs, many)
        if hub_side == 1:
            return many, few, [(s, p) for p, s in pairs]
        return few, many, pairs
    if size == "big":
        n0 = draw(st.integers(30, 50))
        n1 = draw(st.integers(67, 80))
    elif size == "small":
        n0 = draw(st.integers(1, 8))
        n1 = draw(st.integers(1, 12))
    else:
        n0 = draw(st.integers(1, 40))
        n1 = draw(st.integers(1, 60))
    full = (1 << n1) - 1
    density = draw(st.sampled_from(["dense", "half", "sparse", "single"])) \
        if size != "big" else draw(st.sampled_from(["dense", "half"]))
    masks = []
    for p in range(n0):
        if density == "single":
            m = 1 << draw(st.integers(0, n1 - 1))
        else:
            m = draw(st.integers(0, full))
            if density == "dense":
                m |= draw(st.integers(0, full))
            elif density == "sparse":
                m &= draw(st.integers(0, full)) & draw(st.integers(0, full))
        masks.append(m)
    if size == "big" and sum(bin(m).count("1") for m in masks) < 1000:
        masks = [full ^ m for m in masks]          # n0*n1 >= 2010
    pairs = [(p, s) for p in range(n0) for s in range(n1)
             if masks[p] >> s & 1]
    pairs = _complete(draw, n0, n1, pairs)
    return n0, n1, _order(draw, pairs, n1)


def _values(draw, var, count):
    elements = _elements(var)
    if count <= 24:
        return draw(st.lists(elements, min_size=count, max_size=count))
    pool = draw(st.lists(elements, min_size=3, max_size=9))
    a = draw(st.integers(1, 50))
    c = draw(st.integers(0, 50))
    return [pool[(i * a + (i * i) // 3 + c) % len(pool)] for i in range(count)]


@st.composite
def _part(draw, schema, size):
    n0, n1, pairs = draw(_pairs(size))
    n = [n0, n1]
    part = {"n": n, "pairs": [[p for p, _ in pairs], [s for _, s in pairs]],
            "time": [], "values": [], "global": []}
    for g in range(2):
        a = draw(st.integers(1, 600))
        c = draw(st.integers(0, 86400))
        part["time"].append([c + i * a for i in range(n[g])])
        vals = {}
        for var in schema[g]["vars"]:
            count = n[g]
            for d in var["extra"]:
                count *= schema[g]["sizes"][d]
            vals[var["name"]] = _values(draw, var, count)
        part["values"].append(vals)
        kind = schema[g]["global"]
        if kind == "channel":
            part["global"].append(draw(st.lists(
                st.integers(-50, 50).map(lambda v: v / 2.0),
                min_size=schema[g]["sizes"]["channel"],
                max_size=schema[g]["sizes"]["channel"])))
        elif kind == "scalar":
            part["global"].append(draw(st.integers(-50, 50)) / 2.0)
        elif kind == "file":
            part["global"].append("/data/f%d.nc" % draw(st.integers(0, 3)))
        else:
            part["global"].append(None)
    return part


@st.composite
def built_cases(draw):
    nparts = draw(st.sampled_from([1, 1, 1, 1, 2, 3, 3, 4]))
    if nparts == 1:
        sizes = [draw(st.sampled_from(
            ["tiny", "small", "small", "medium", "fan", "medium", "big",
             "big"]))]
    else:
        sizes = [draw(st.sampled_from(["tiny", "tiny", "small", "medium"]))
                 for _ in range(nparts)]
    schema = draw(_schema())
    parts = [draw(_part(schema, s)) for s in sizes]
    reference = draw(st.sampled_from(
        ["default", "default", "primary", "primary", "secondary",
         "secondary", "secondary", "secondary", "unknown"]))
    if sizes == ["fan"] and draw(st.sampled_from([True, True, False])):
        # mostly the point with the many partners is a reference point
        n = parts[0]["n"]
        reference = "secondary" if n[1] < n[0] else draw(
            st.sampled_from(["primary", "default"]))
    return {
        "source": "built",
        "names": draw(st.sampled_from(NAMES)),
        "schema": schema,
        "parts": parts,
        "alias": nparts >= 2 and draw(st.sampled_from(
            [False, True, False, False])),
        # only the fields that check_collocation_data calls mandatory
        # (pairs, group), i.e. no Collocations/interval and /distance
        "mandatory_only": draw(st.sampled_from([False] * 6 + [True])),
        "reference": reference,
        "custom": draw(st.sampled_from(
            [[], [], ["max"], ["median"], ["first"], ["slots"],
             ["first", "last"], ["max", "median", "slots"]])),
    }


CUSTOM_ITEMS = ["max", "median", "first", "slots", "last", "mean=median",
                "mean=max", "std=max", "std=first", "std=median",
                "number=max", "number=slots"]


@st.composite
def history_cases(draw):
    """1-3 small data sets and a sequence of 2-8 calls on them: expand,
    collapse (any reference; no collapser, additional collapsers, collapsers
    that replace mean / std / number), concat_collocations of some of the
    data sets (its result can be used by later calls)."""
    nparts = draw(st.sampled_from([1, 1, 2, 3]))
    schema = draw(_schema())
    parts = [draw(_part(schema, draw(st.sampled_from(
        ["tiny", "small", "small"])))) for _ in range(nparts)]
    collapse_step = st.fixed_dictionaries({
        "op": st.just("collapse"),
        "ds": st.integers(0, 5),
        "reference": st.sampled_from(
            ["default", "secondary", "default", "primary", "secondary",
             "unknown"]),
        "custom": st.one_of(
            st.just([]),
            st.lists(st.sampled_from(CUSTOM_ITEMS), min_size=1, max_size=3,
                     unique_by=lambda c: c.partition("=")[0])),
    })
    expand_step = st.fixed_dictionaries({
        "op": st.just("expand"), "ds": st.integers(0, 5)})
    concat_step = st.fixed_dictionaries({
        "op": st.just("concat"),
        "ds": st.lists(st.integers(0, 2), min_size=2, max_size=3)})
    steps = draw(st.lists(
        st.one_of(collapse_step, collapse_step, collapse_step, expand_step,
                  concat_step),
        min_size=2, max_size=8))
    return {
        "source": "built", "names": draw(st.sampled_from(NAMES)),
        "schema": schema, "parts": parts, "steps": steps,
        "mandatory_only": draw(st.sampled_from([False] * 6 + [True])),
    }


@st.composite
def file_cases(draw):
    """one small compact data set that is stored in a file and read through
    Collocations in the given read modes (None = not given / given as None)"""
    schema = draw(_schema())
    part = draw(_part(schema, draw(st.sampled_from(["tiny", "small"]))))
    return {
        "source": "built", "names": draw(st.sampled_from(NAMES)),
        "schema": schema, "parts": [part],
        "modes": draw(st.sampled_from(
            [[None, "collapse", "expand", "compact"], [None],
             ["collapse", None], ["expand", None, "compact"]])),
        "explicit_none": draw(st.booleans()),
        "reference": draw(st.sampled_from(
            ["default", "secondary", "secondary", "primary", "unknown"])),
        "custom": draw(st.sampled_from(
            [[], ["max"], [], ["first", "median"], ["mean=median"]])),
    }


def small_pattern_cases():
    """Every multiplicity pattern over at most 3 x 3 stored points (every
    point used), in p-major, s-major and reversed pair order and, up to four
    pairs, in every pair order; each with either group as the reference."""
    schema = [
        {"sizes": {"channel": 2, "level": 1}, "channel_coord": False,
         "global": None,
         "vars": [{"name": "x", "dtype": "f8", "extra": [], "pos": 0,
                   "nan": True},
                  {"name": "bt", "dtype": "f8", "extra": ["channel"],
                   "pos": 1, "nan": True}]}
        for _ in range(2)]
    xs = [1.0, NAN, 4.0]
    bts = [2.0, 3.0, NAN, 5.0, -INF, 11.0]
    for n0, n1 in itertools.product((1, 2, 3), repeat=2):
        grid = [(p, s) for p in range(n0) for s in range(n1)]
        for k in range(max(n0, n1), len(grid) + 1):
            for combo in itertools.combinations(grid, k):
                if {p for p, _ in combo} != set(range(n0)) or \
                        {s for _, s in combo} != set(range(n1)):
                    continue
                if k <= 4:
                    orders = [list(o) for o in itertools.permutations(combo)]
                else:
                    orders = [list(combo),
                              sorted(combo, key=lambda t: (t[1], t[0])),
                              sorted(combo, reverse=True)]
                    orders = [o for i, o in enumerate(orders)
                              if o not in orders[:i]]
                for i, order in enumerate(orders):
                    part = {
                        "n": [n0, n1],
                        "pairs": [[p for p, _ in order],
                                  [s for _, s in order]],
                        "time": [[60 * i_ for i_ in range(n0)],
                                 [30 + 60 * i_ for i_ in range(n1)]],
                        "values": [{"x": xs[:n0], "bt": bts[:2 * n0]},
                                   {"x": xs[::-1][:n1],
                                    "bt": bts[::-1][:2 * n1]}],
                        "global": [None, None],
                    }
                    yield {"source": "built", "names": ["P", "S"],
                           "schema": schema, "parts": [part],
                           "reference": "secondary" if (i + k) % 2
                           else "default",
                           "custom": [["max"], [], ["first", "last"], []]
                           [(i + k) % 4]}


# --------------------------------------------------------------------------
# builder: description -> xr.Dataset in compact layout
# --------------------------------------------------------------------------
def build_compact(case, part):
    names = case["names"]
    schema = case["schema"]
    ds = xr.Dataset()
    times = []
    for g, grp in enumerate(names):
        n = part["n"][g]
        cdim = grp + "/collocation"
        t = BASE_TIME + np.array(part["time"][g], dtype="int64") \
            .astype("timedelta64[s]").astype("timedelta64[ns]")
        times.append(t)
        ds[grp + "/time"] = (cdim,), t
        ds[grp + "/lat"] = (cdim,), np.array(
            [((7 * i + 3 * g) % 121) - 60.0 for i in range(n)])
        ds[grp + "/lon"] = (cdim,), np.array(
            [((13 * i + 5 * g) % 359) - 179.5 for i in range(n)])
        ds[grp + "/idx"] = (cdim,), np.array(
            [100 * (g + 1) + 7 * i for i in range(n)], dtype="int64")
        sizes = schema[g]["sizes"]
        for var in schema[g]["vars"]:
            dims = [grp + "/" + d for d in var["extra"]]
            shape = [sizes[d] for d in var["extra"]]
            dims.insert(var["pos"], cdim)
            shape.insert(var["pos"], n)
            vals = np.array(part["values"][g][var["name"]],
                            dtype=var["dtype"]).reshape(shape)
            ds[grp + "/" + var["name"]] = tuple(dims), vals
        if schema[g]["channel_coord"]:
            ds = ds.assign_coords({grp + "/channel": (
                (grp + "/channel",),
                np.array([10 * (i + 1) for i in range(sizes["channel"])]))})
        kind = schema[g]["global"]
        if kind == "channel":
            ds[grp + "/glob"] = (grp + "/channel",), np.array(
                part["global"][g], dtype="f8")
        elif kind == "scalar":
            ds[grp + "/glob"] = (), np.float64(part["global"][g])
        elif kind == "file":
            ds[grp + "/__file"] = (), part["global"][g]
    pairs = np.array(part["pairs"], dtype="int64")
    attrs = {"max_interval": "Max. interval in secs: None",
             "max_distance": "Max. distance in kilometers: 5",
             "primary": names[0], "secondary": names[1]}
    ds["Collocations/pairs"] = xr.DataArray(
        pairs, dims=("Collocations/group", "Collocations/collocation"),
        attrs=dict(attrs))
    interval = np.abs(times[0][pairs[0]] - times[1][pairs[1]]) \
        .astype("timedelta64[s]")
    ds["Collocations/interval"] = xr.DataArray(
        interval, dims=("Collocations/collocation",), attrs=dict(attrs))
    ds["Collocations/distance"] = xr.DataArray(
        0.125 + 0.25 * np.arange(pairs.shape[1]),
        dims=("Collocations/collocation",),
        attrs=dict(attrs, units="kilometers"))
    if case.get("mandatory_only"):
        ds = ds.drop_vars(["Collocations/interval", "Collocations/distance"])
    ds = ds.assign_coords({"Collocations/group": (
        ("Collocations/group",), np.array(names))})
    ds.attrs = {"start_time": str(times[0].min()),
                "end_time": str(times[0].max())}
    return ds


# --------------------------------------------------------------------------
# strategies: point sets for Collocator.collocate with pairs known by
# construction
# --------------------------------------------------------------------------
# Points sit in clusters: a cluster is a lattice cell with whole-degree centre,
# its points are at most 0.01 deg away from the centre in lat and lon (any two
# points of a cluster are < 3.2 km apart), different centres are >= 2 deg apart
# in latitude or longitude at |lat| <= 60 (> 100 km).  With max_distance 5 km
# the spatial collocations are exactly the same-cluster pairs.  Times: "near"
# points lie within 30 min of the base time, "far" ones a whole number of days
# later, max_interval (if given) is 1 h.
MAX_DISTANCES = [5, 5.0, "5 km", "5000 m"]
MAX_INTERVALS = [None, None, 3600, "1 h", "60 min"]


@st.composite
def _points(draw, nclusters, need_in_first):
    """-> list of [cluster, jlat, jlon, t_seconds, far_days]; far_days = -1
    marks a point whose latitude is NaN (such points are filtered out by
    collocate and can have no partner)"""
    pts = []
    for c in range(nclusters):
        lo = need_in_first if c == 0 else 0
        k = draw(st.integers(lo, max(lo, 3)))
        for _ in range(k):
            far = 0
            if c > 0 and not draw(st.integers(0, 5)):
                far = draw(st.sampled_from([1, 2, -1]))
            pts.append([c, draw(st.integers(-10, 10)),
                        draw(st.integers(-10, 10)), 0, far])
    if draw(st.booleans()):
        pts = list(draw(st.permutations(pts)))
    # unique times (time may be the dimension coordinate)
    offs = draw(st.lists(st.integers(0, 1799), min_size=len(pts),
                         max_size=len(pts), unique=True))
    for p, o in zip(pts, offs):
        p[3] = o
    return [list(p) for p in pts]


@st.composite
def _colloc_part(draw, schema):
    ncl = draw(st.integers(1, 5))
    centres = draw(st.lists(
        st.tuples(st.integers(-30, 30), st.integers(-89, 89)),
        min_size=ncl, max_size=ncl, unique=True))
    centres = [[2 * a, 2 * b] for a, b in centres]
    first = draw(st.sampled_from([(1, 2), (2, 1), (2, 2), (1, 3)]))
    part = {"centres": centres,
            "points": [draw(_points(ncl, first[0])),
                       draw(_points(ncl, first[1]))],
            "values": []}
    for g in range(2):
        n = len(part["points"][g])
        vals = {}
        for var in schema[g]["vars"]:
            count = n
            for d in var["extra"]:
                count *= schema[g]["sizes"][d]
            vals[var["name"]] = _values(draw, var, count)
        part["values"].append(vals)
    return part


@st.composite
def collocator_cases(draw):
    schema = draw(_schema())
    for grp in schema:
        if grp["global"] == "file":
            grp["global"] = "scalar"
        grp["dim"] = draw(st.sampled_from(["time", "obs", "scnline"]))
    nparts = draw(st.sampled_from([1, 1, 1, 2, 3]))
    case = {
        "source": "collocator",
        "names": draw(st.sampled_from(NAMES + [None])),
        "schema": schema,
        "parts": [draw(_colloc_part(schema)) for _ in range(nparts)],
        "alias": nparts >= 2 and draw(st.sampled_from(
            [False, True, False, False])),
        "max_distance": draw(st.sampled_from(MAX_DISTANCES)),
        "max_interval": draw(st.sampled_from(MAX_INTERVALS)),
        "reference": draw(st.sampled_from(
            ["default", "primary", "secondary", "secondary", "secondary",
             "unknown"])),
        "custom": draw(st.sampled_from(
            [[], [], ["max"], ["first"], ["median"], ["first", "last"]])),
    }
    return case


def build_points(case, part, g):
    """-> (xr.Dataset for Collocator.collocate, ids, times[s], far flags)"""
    schema = case["schema"][g]
    dim = schema["dim"]
    pts = part["points"][g]
    n = len(pts)
    lat = np.array([part["centres"][c][0] + 0.001 * a
                    for c, a, _, _, _ in pts], dtype="f8")
    lon = np.array([part["centres"][c][1] + 0.001 * b
                    for c, _, b, _, _ in pts], dtype="f8")
    secs = np.array([t + 86400 * max(far, 0) for _, _, _, t, far in pts],
                    dtype="int64")
    lat[[i for i, p in enumerate(pts) if p[4] < 0]] = np.nan
    time = BASE_TIME + secs.astype("timedelta64[s]").astype("timedelta64[ns]")
    ids = [1000 * (g + 1) + 3 * i for i in range(n)]
    ds = xr.Dataset()
    ds["time"] = (dim,), time
    ds["lat"] = (dim,), lat
    ds["lon"] = (dim,), lon
    if dim != "time":
        # unique labels on the shared dimension (documented precondition)
        ds = ds.assign_coords({dim: ((dim,), np.array(
            [5 * i + 1 for i in range(n)]))})
    ds["idx"] = (dim,), np.array(ids, dtype="int64")
    sizes = schema["sizes"]
    for var in schema["vars"]:
        dims = list(var["extra"])
        shape = [sizes[d] for d in var["extra"]]
        dims.insert(var["pos"], dim)
        shape.insert(var["pos"], n)
        ds[var["name"]] = tuple(dims), np.array(
            part["values"][g][var["name"]], dtype=var["dtype"]).reshape(shape)
    if schema["channel_coord"]:
        ds = ds.assign_coords({"channel": (("channel",), np.array(
            [10 * (i + 1) for i in range(sizes["channel"])]))})
    if schema["global"] == "channel":
        ds["glob"] = ("channel",), np.arange(sizes["channel"]) / 2.0
    elif schema["global"] == "scalar":
        ds["glob"] = (), np.float64(2.5)
    return ds, ids, secs.tolist()
