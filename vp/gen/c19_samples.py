"""Cheap generation of long value vectors (used by C19, C18, C14).

Hypothesis cannot draw more than a few hundred floats per example (entropy
buffer), so long vectors are *constructed* inside the strategy from a short
drawn pool by index arithmetic.  The constructed vector is part of the case
(plain data), so a replay needs neither Hypothesis nor this module.
"""
from hypothesis import strategies as st

PRIMES = (2, 3, 5, 7, 11, 13, 17, 19, 23, 29, 31, 37, 41, 43, 47, 53, 59, 61)


def tile(pool, n, a, b, step):
    """n values: pool[(a*i + b) % P] + (i // P) * step  (P = len(pool))."""
    P = len(pool)
    return [pool[(a * i + b) % P] + (i // P) * step for i in range(n)]


def fill_matrix(pool, rows, cols, a, b, c):
    """rows x cols matrix whose entries are pool values arranged by index
    arithmetic (generically of full rank for a pool of distinct values)."""
    P = len(pool)
    return [[pool[(a * i + b * j + c * i * j + i * i) % P]
             for j in range(cols)] for i in range(rows)]


def value_pool(kind, min_size=1, max_size=40):
    """strategy for a pool of finite floats of a given style."""
    if kind == "lattice":          # many ties, exactly representable
        el = st.integers(-40, 40).map(lambda k: k / 4.0)
    elif kind == "unit":
        el = st.floats(-1.0, 1.0, allow_nan=False, width=64)
    elif kind == "heavy":          # heavy tails: sign * 10**u
        el = st.tuples(st.sampled_from([-1.0, 1.0]),
                       st.floats(-6.0, 9.0, allow_nan=False),
                       st.floats(1.0, 10.0, allow_nan=False)).map(
            lambda t: t[0] * t[2] * 10.0 ** round(t[1]))
    elif kind == "positive":
        el = st.floats(0.01, 1000.0, allow_nan=False, width=64)
    else:                          # "wide": any moderately sized float
        el = st.one_of(
            st.floats(-1e6, 1e6, allow_nan=False, width=64),
            st.floats(-1e12, 1e12, allow_nan=False, width=64),
            st.sampled_from([0.0, 1.0, -1.0, 0.5, 1e-8, -1e-8]))
    return st.lists(el, min_size=min_size, max_size=max_size)


@st.composite
def long_vector(draw, kinds=("lattice", "unit", "heavy", "wide"),
                small=40, large=2000, min_size=1):
    """-> (kind, list of floats); mostly short (drawn directly), sometimes
    long (tiled from a pool)."""
    kind = draw(st.sampled_from(kinds))
    if draw(st.integers(0, 9)) < 7:
        vals = draw(value_pool(kind, min_size, small))
        return kind, vals
    pool = draw(value_pool(kind, 5, 40))
    n = draw(st.integers(max(min_size, len(pool)), large))
    a = draw(st.integers(1, 97))
    b = draw(st.integers(0, 97))
    step = draw(st.sampled_from([0.0, 0.0, 0.25, 1.0, -3.5]))
    return kind, tile(pool, n, a, b, step)
