"""Cluster generator for point clouds on the sphere (C04, C05, C06).

``clouds(...)`` is a Hypothesis strategy producing *plain data*::

    {"sets": [{"lat": [...], "lon": [...], "t_ms": [...], "id": [...]}, ...],
     "centres": [[lat, lon, t_ms], ...]}

* ``lat`` / ``lon`` are degrees (``None`` stands for NaN), ``lat`` in
  [-90, 90], ``lon`` in [-180, 180];
* ``t_ms`` are integer milliseconds relative to a base time chosen by the
  caller (whole seconds unless ``sub_second=True``);
* ``id`` is unique over all sets of one cloud.

Points are built by construction from 1-6 clusters shared by all sets: a
centre (anywhere, with extra weight on the poles, the date line and the
equator) and members displaced from it by ``f * r`` with ``f`` from the
lattice {0, 1/2, 1-1e-3, 1+1e-3, 3} (or free) on a random bearing, where the
displacement is measured in the metric of the threshold (``"chord"`` =
straight line, ``"arc"`` = great circle); member times are the cluster's
time plus ``{0, M-1, M, M+1, 3M}`` seconds (either sign).  A cloud may be
*tiled*: every set is repeated ``copies`` times, copy ``k`` shifted by
``k * stride`` in time and rotated by ``k * dlon`` about the Earth's axis (an
isometry, so the cluster geometry is preserved) - this gives large sets from
few draws.

Nothing here imports typhon; the radius below only places the points, every
distance is recomputed by the oracle from the coordinates.
"""
import math

from hypothesis import strategies as st

from vp.oracle.sphere import destination

R_GEN_KM = 6378.1

SPECIAL_LAT = [90.0, -90.0, 89.999, -89.999, 0.0]
SPECIAL_LON = [180.0, -180.0, 179.999, -179.999, 0.0]
OFFSET_FACTORS = [0.0, 0.5, 1.0 - 1e-3, 1.0 + 1e-3, 3.0]
# finer straddle for a share of the members (thresholds wrong by ~2e-5, e.g.
# a unit factor; still far outside the 1e-9 r ambiguity band)
FINE_FACTORS = [1.0 - 1e-5, 1.0 + 1e-5, 1.0 - 1e-4, 1.0 + 1e-4]
BEARINGS = [0.0, 90.0, 180.0, 270.0]


def _angle_for(dist_km, metric):
    """central angle [rad] whose chord / arc has the given length"""
    if metric == "chord":
        return 2.0 * math.asin(min(1.0, dist_km / (2.0 * R_GEN_KM)))
    return min(math.pi, dist_km / R_GEN_KM)


def latitudes():
    return st.one_of(st.sampled_from(SPECIAL_LAT),
                     st.floats(-90.0, 90.0, allow_nan=False),
                     st.integers(-9, 9).map(lambda k: 10.0 * k))


def longitudes():
    return st.one_of(st.sampled_from(SPECIAL_LON),
                     st.floats(-180.0, 180.0, allow_nan=False),
                     st.integers(-18, 18).map(lambda k: 10.0 * k))


def _time_codes(m_s):
    """member time offsets in whole seconds around a threshold of m_s s"""
    if m_s is None:
        return st.just(0)
    lattice = sorted({0, max(m_s - 1, 0), m_s, m_s + 1, 3 * m_s})
    return st.one_of(
        st.just(0),
        st.sampled_from(lattice),
        st.sampled_from(lattice).map(lambda v: -v),
        st.integers(-4 * m_s, 4 * m_s))


@st.composite
def _member(draw, n_clusters, m_s, allow_nan, allow_far, sub_second):
    c = draw(st.integers(0, n_clusters - 1))
    f = draw(st.one_of(st.just(0.0),
                       st.sampled_from(OFFSET_FACTORS),
                       st.sampled_from(OFFSET_FACTORS),
                       st.sampled_from(FINE_FACTORS),
                       st.floats(0.0, 4.0, allow_nan=False)))
    b = draw(st.one_of(st.sampled_from(BEARINGS),
                       st.floats(0.0, 360.0, allow_nan=False,
                                 exclude_max=True)))
    t = draw(_time_codes(m_s))
    ms = draw(st.integers(0, 999)) if sub_second else 0
    nan = draw(st.sampled_from([0] * 27 + [1, 2, 3])) if allow_nan else 0
    far = draw(st.sampled_from([False] * 5 + [True])) if allow_far else False
    return {"c": c, "f": f, "b": b, "t": t, "ms": ms, "nan": nan, "far": far}


def _place(centre, mem, r_km, metric):
    lat0, lon0, _ = centre
    ang = _angle_for(mem["f"] * r_km, metric)
    if mem["far"]:
        ang = math.pi - ang          # around the antipode of the centre
    if ang == 0.0:
        return lat0, lon0
    return destination(lat0, lon0, mem["b"], ang)


def _rotate(lon, dlon):
    if dlon == 0.0:
        return lon
    out = lon + dlon
    if out > 180.0 or out < -180.0:
        out = (out + 180.0) % 360.0 - 180.0
    return out


def expand(centres, member_sets, r_km, metric, tiling=None):
    """deterministic expansion of the drawn structure into plain point sets"""
    if tiling is None:
        tiling = {"copies": [1] * len(member_sets), "phase": [0] * len(
            member_sets), "stride_ms": 0, "dlon": 0.0}
    sets = []
    next_id = 0
    for k, members in enumerate(member_sets):
        lat, lon, t_ms, ids = [], [], [], []
        base = []
        for mem in members:
            la, lo = _place(centres[mem["c"]], mem, r_km, metric)
            tt = centres[mem["c"]][2] + mem["t"] * 1000 + mem["ms"]
            base.append((la, lo, tt, mem["nan"]))
        for copy in range(tiling["copies"][k]):
            step = copy + tiling["phase"][k]
            for la, lo, tt, nan in base:
                lo2 = _rotate(lo, step * tiling["dlon"])
                lat.append(None if nan in (1, 3) else la)
                lon.append(None if nan in (2, 3) else lo2)
                t_ms.append(tt + step * tiling["stride_ms"])
                ids.append(next_id)
                next_id += 1
        sets.append({"lat": lat, "lon": lon, "t_ms": t_ms, "id": ids})
    return {"sets": sets, "centres": [list(c) for c in centres]}


@st.composite
def clouds(draw, r_km, m_s=None, n_sets=2, min_points=1, max_points=40,
           metric="chord", allow_nan=True, allow_far=False, sub_second=False,
           tile=None, max_clusters=6, sizes=None):
    """Strategy for a cloud of ``n_sets`` point sets around shared clusters.

    r_km        distance threshold the lattice is built around
    m_s         time threshold in whole seconds (None: all times 0)
    min_points, max_points   members drawn per set (before tiling)
    sizes       optional list of (min, max) per set, overrides the above
    metric      "chord" or "arc": how the lattice distances are measured
    allow_nan   some members get a NaN latitude and / or longitude
    allow_far   some members are placed around the antipode of their centre
    sub_second  times get a millisecond part
    tile        None or {"copies": (lo, hi)}: every set is repeated
                lo..hi times (drawn per set; a list of (lo, hi) gives every
                set its own range) with a shared stride / rotation;
                "sparse": True keeps the stride >= m_s / 4
    """
    n_clusters = draw(st.one_of(st.integers(1, min(2, max_clusters)),
                                st.integers(1, max_clusters)))
    span = 0 if m_s is None else m_s
    centres = []
    for _ in range(n_clusters):
        la = draw(latitudes())
        lo = draw(longitudes())
        tb = draw(st.one_of(st.sampled_from([0, span, 2 * span, 5 * span]),
                            st.integers(0, 10 * span))) * 1000
        centres.append((la, lo, tb))
    member_sets = []
    for k in range(n_sets):
        lo_n, hi_n = (min_points, max_points) if sizes is None else sizes[k]
        n = draw(st.one_of(st.integers(lo_n, min(hi_n, max(lo_n, 6))),
                           st.integers(lo_n, hi_n)))
        members = draw(st.lists(
            _member(n_clusters, m_s, allow_nan, allow_far, sub_second),
            min_size=n, max_size=n))
        # explicit duplicates of earlier members (same place, same time)
        ndup = draw(st.integers(0, 2)) if n >= 2 else 0
        for _ in range(ndup):
            src = draw(st.integers(0, n - 1))
            dst = draw(st.integers(0, n - 1))
            members[dst] = dict(members[src])
        member_sets.append(members)
    tiling = None
    if tile is not None:
        ranges = tile["copies"]
        if not isinstance(ranges[0], (tuple, list)):
            ranges = [ranges] * n_sets
        if m_s is None:
            stride = 0
        else:
            strides = [max(m_s // 2, 1), m_s, m_s + 1, 2 * m_s, 7 * m_s]
            if tile.get("sparse"):
                # many copies: keep the number of copies within the time
                # threshold of each other (and so the result size) bounded
                strides.append(max(m_s // 4, 1))
            else:
                strides += [0, 1]
            stride = draw(st.sampled_from(strides))
        ang = math.degrees(_angle_for(r_km, "arc"))
        dlon = draw(st.sampled_from(
            [0.0, 0.0, 0.25 * ang, ang, 2.5 * ang, 10.0]))
        tiling = {
            "copies": [draw(st.integers(lo_c, hi_c)) for lo_c, hi_c in ranges],
            "phase": [draw(st.integers(0, 2)) for _ in range(n_sets)],
            "stride_ms": stride * 1000, "dlon": dlon}
    return expand(centres, member_sets, r_km, metric, tiling)


def permutations_of(n):
    """strategy for a permutation of range(n) as a plain list: identity,
    reversal, rotations, "element j first" (moves an arbitrary element to
    position 0), arbitrary permutations for n <= 60, affine maps above"""
    ident = list(range(n))
    opts = [st.just(ident), st.just(ident[::-1]),
            st.integers(0, max(n - 1, 0)).map(
                lambda k: ident[k:] + ident[:k]),
            st.integers(0, max(n - 1, 0)).map(
                lambda j: [j] + [i for i in ident if i != j])]
    if n <= 60:
        opts += [st.permutations(ident).map(list)] * 3
    else:
        def affine(t):
            a, b = t
            while math.gcd(a, n) != 1:
                a += 1
            return [(a * i + b) % n for i in ident]
        opts += [st.tuples(st.integers(1, n - 1), st.integers(0, n - 1))
                 .map(affine)] * 2
    return st.one_of(opts)


def shuffle_rules():
    """strategy for a length-independent shuffle rule (for code that shuffles
    arrays whose length the case cannot know in advance)"""
    return st.one_of(
        st.just({"mode": "rule", "rule": "identity", "k": 0}),
        st.just({"mode": "rule", "rule": "reverse", "k": 0}),
        st.integers(0, 50).map(
            lambda k: {"mode": "rule", "rule": "rotate", "k": k}),
        st.integers(0, 50).map(
            lambda k: {"mode": "rule", "rule": "front", "k": k}),
        st.integers(1, 50).map(
            lambda k: {"mode": "rule", "rule": "stride", "k": k}),
        st.integers(0, 2 ** 32 - 1).map(
            lambda s: {"mode": "seed", "seed": s}))


def rule_permutation(rule, k, n):
    """the permutation of range(n) a shuffle rule stands for"""
    ident = list(range(n))
    if n == 0 or rule == "identity":
        return ident
    if rule == "reverse":
        return ident[::-1]
    if rule == "rotate":
        k %= n
        return ident[k:] + ident[:k]
    if rule == "front":
        k %= n
        return [k] + [i for i in ident if i != k]
    if rule == "stride":
        a = k % n or 1
        while math.gcd(a, n) != 1:
            a += 1
        return [(a * i + k) % n for i in ident]
    raise ValueError(rule)


class PinnedShuffle:
    """Owns ``numpy.random.shuffle`` / the global NumPy generator for the
    duration of a call into typhon (context manager; everything is restored
    on exit).  spec: {"mode": "perm", "perm": [...]} (explicit permutation,
    the shuffled array must have that length), {"mode": "rule", "rule": ...,
    "k": ...} (see rule_permutation, any length), {"mode": "seed", "seed": s}
    (real shuffle, generator seeded from the case) or {"mode": "off"}."""

    def __init__(self, spec):
        self.spec = spec
        self.calls = 0

    def __enter__(self):
        import numpy as np
        self.orig = np.random.shuffle
        self.state = np.random.get_state()
        mode = self.spec["mode"]
        if mode == "perm":
            perm = np.asarray(self.spec["perm"], dtype=int)

            def fake(arr):
                if len(arr) != len(perm):
                    raise RuntimeError(
                        "harness: shuffle called with %d elements, the case "
                        "holds a permutation of %d" % (len(arr), len(perm)))
                arr[:] = np.asarray(arr)[perm]
                self.calls += 1
            np.random.shuffle = fake
        elif mode == "rule":
            rule, k = self.spec["rule"], self.spec["k"]

            def fake(arr):
                arr[:] = np.asarray(arr)[rule_permutation(rule, k, len(arr))]
                self.calls += 1
            np.random.shuffle = fake
        elif mode == "seed":
            np.random.seed(self.spec["seed"])
        return self

    def __exit__(self, *exc):
        import numpy as np
        np.random.shuffle = self.orig
        np.random.set_state(self.state)
        return False


def shifted(pset, dist_km, bearing, id_offset):
    """copy of a point set with every position moved by dist_km (great
    circle) on the given bearing and new ids"""
    ang = dist_km / R_GEN_KM
    lat, lon = [], []
    for la, lo in zip(pset["lat"], pset["lon"]):
        if la is None or lo is None:
            lat.append(la)
            lon.append(lo)
        else:
            la2, lo2 = destination(la, lo, bearing, ang)
            lat.append(la2)
            lon.append(lo2)
    return {"lat": lat, "lon": lon, "t_ms": list(pset["t_ms"]),
            "id": [i + id_offset for i in pset["id"]]}


# --------------------------------------------------------------------------
# distance spellings (to_kilometers)
# --------------------------------------------------------------------------
def _LD(x):
    import numpy as np
    return np.longdouble(x)


# exact factors unit -> km as (numerator, denominator)
UNITS = {
    "cm": (1, 100000), "centimeter": (1, 100000), "centimeters": (1, 100000),
    "m": (1, 1000), "meter": (1, 1000), "meters": (1, 1000),
    "km": (1, 1), "kilometer": (1, 1), "kilometers": (1, 1),
    "mi": (1609344, 1000000), "mile": (1609344, 1000000),
    "miles": (1609344, 1000000),
    "yd": (9144, 10000000), "yds": (9144, 10000000),
    "yard": (9144, 10000000), "yards": (9144, 10000000),
    "ft": (3048, 10000000), "foot": (3048, 10000000),
    "feet": (3048, 10000000),
}
UNIT_CLASS = {"cm": "cm", "centimeter": "cm", "centimeters": "cm",
              "m": "m", "meter": "m", "meters": "m",
              "km": "km", "kilometer": "km", "kilometers": "km",
              "mi": "mile", "mile": "mile", "miles": "mile",
              "yd": "yard", "yds": "yard", "yard": "yard", "yards": "yard",
              "ft": "foot", "foot": "foot", "feet": "foot"}


def radius_km_exact(radius):
    """reference radius in km (long double) of a radius spec"""
    num, den = UNITS[radius["unit"] or "km"]
    return _LD(radius["value"]) * _LD(num) / _LD(den)


NP_INT_TYPES = {"int16": 32767, "uint16": 65535, "int32": 2 ** 31 - 1,
                "int64": 2 ** 63 - 1}


def np_scalar_types(value):
    """names of the NumPy scalar types that hold the (positive) number
    exactly - radii are numbers.Number in general, e.g. an element of an
    int16 array or a file attribute"""
    import numpy as np
    out = ["float64"]
    if float(np.float32(value)) == value:
        out.append("float32")
    if float(value).is_integer():
        out += [t for t, top in NP_INT_TYPES.items() if 0 < value <= top]
    return out


def radius_rel_slack(radius):
    """extra relative width of the ambiguity band: a float32 radius is scaled
    to metres / radians in float32 (NEP 50), i.e. with 6e-8 relative error"""
    return 2e-7 if radius.get("np_type") == "float32" else 0.0


def radius_argument(radius):
    """the object handed to typhon"""
    v = radius["value"]
    if radius["style"] == "number":
        if radius.get("np_type"):
            import numpy as np
            return getattr(np, radius["np_type"])(v)
        return int(v) if radius.get("as_int") else v
    txt = number_text(v, radius.get("fmt"))
    fmt = radius.get("fmt") or {}
    lead, trail = " " * fmt.get("lead", 0), " " * fmt.get("trail", 0)
    if radius["unit"] is None:
        return lead + txt + trail
    sep = " " if radius["style"] == "space" else ""
    return lead + txt + sep + radius["unit"] + trail


def number_text(v, fmt=None):
    """decimal spelling of the float v that float() reads back exactly:
    plain ('0.5'), without leading zero ('.5'), with sign ('+0.5', '+.5'),
    exponent notation ('5e-1', '1E3')"""
    kind = (fmt or {}).get("num", "plain")
    plain = repr(int(v)) if float(v).is_integer() and abs(v) < 1e15 \
        else repr(v)
    txt = plain
    if kind in ("exp", "EXP"):
        mant, exp = ("%.16e" % v).split("e")
        mant = mant.rstrip("0").rstrip(".")
        txt = mant + ("e" if kind == "exp" else "E") + str(int(exp))
    elif kind in ("nozero", "plus-nozero") and plain.startswith("0."):
        txt = plain[1:]
    if kind in ("plus", "plus-nozero"):
        txt = "+" + txt
    if float(txt) != v:
        raise RuntimeError("harness: %r does not spell %r" % (txt, v))
    return txt


def text_formats():
    """strategy for the way a number is written inside a unit string"""
    return st.one_of(
        st.none(), st.none(),
        st.fixed_dictionaries({
            "num": st.sampled_from(["plain", "nozero", "nozero", "plus",
                                    "plus-nozero", "exp", "EXP"]),
            "lead": st.sampled_from([0, 0, 1, 2]),
            "trail": st.sampled_from([0, 0, 1])}))



# --------------------------------------------------------------------------
# helpers for checks
# --------------------------------------------------------------------------
def to_arrays(pset):
    """plain point set -> (lat, lon) float64 arrays with NaN for None"""
    import numpy as np
    lat = np.array([np.nan if v is None else v for v in pset["lat"]],
                   dtype=float)
    lon = np.array([np.nan if v is None else v for v in pset["lon"]],
                   dtype=float)
    return lat, lon


def near_pole(lat):
    return lat is not None and abs(lat) > 89.9


def crosses_dateline(lon1, lon2):
    return (lon1 is not None and lon2 is not None
            and abs(lon1 - lon2) > 180.0)
