"""C11 - strategies for histories of write / read / move / copy / delete on
filesets (plain data; interpreted by vp/props/c11_conserve.py).

case = {
  "family":   "bytes" | "pickle" | "csv" | "nc" | "mixed",
  "sep":      "," | ";" | "\t"              (csv files of the history)
  "filesets": [fileset spec, ...]           2-3, each below its own root
  "pool":     [content, ...]                data written by the history
  "ops":      [op, ...]
}
fileset spec = {
  "template": template of vp/gen/filesets.py (all filesets of a history share
              the user placeholders; no wildcard; suffix = handler suffix +
              compression suffix),
  "kind": "user" | "csv" | "nc",  "variant": user handler variant,
  "comp": "" | ".gz" | ".bz2" | ".zip" | ".xz",
  "handler": "default" (chosen by typhon from the suffix) | "explicit",
  "read_args", "write_args", "post": None | "name" | "len",
  "worker_type": None | "thread" | "process",
  "periods": [{"s", "e", "attrs"}, ...]     periods the history writes to
}
All indices in ops are taken modulo the size of what they index at the time
the op is interpreted.
"""
import datetime as dt

from hypothesis import strategies as st

from vp.gen import filesets as G

COMPS = ["", "", ".gz", ".bz2", ".zip", ".xz"]
EXT = {"user": [".dat", ".bin", ".v2.dat"], "csv": [".csv", ".txt", ".asc"],
       "nc": [".nc", ".h5"]}


# --------------------------------------------------------------------------
# templates
# --------------------------------------------------------------------------
def clamp_year(t):
    """all filesets of a history must be able to name every period, also with
    two-digit years"""
    if 1966 <= t.year <= 2063:
        # (ends derived from a coverage or a partial end stay in 1965-2064)
        return t
    return t.replace(year=2018 if (t.month, t.day) != (2, 29) else 2016)


@st.composite
def history_template(draw, user, suffix, max_dirs=3):
    tpl = draw(G.templates(max_dirs=max_dirs, allow_user=False,
                           allow_wild=False))
    for name in sorted(user):
        where = draw(st.sampled_from(["dir", "front", "back", "back"]))
        if where == "dir" and len(tpl["dirs"]) < 4:
            chunk = [G.ph(name)]
            if draw(st.booleans()):
                chunk.insert(0, G.lit(name + "-"))
            tpl["dirs"].insert(draw(st.integers(0, len(tpl["dirs"]))), chunk)
        elif where == "front":
            tpl["file"][0:0] = [G.ph(name),
                                G.lit(draw(st.sampled_from(["_", "-", "."])))]
        else:
            tpl["file"][-1:-1] = [G.lit(draw(st.sampled_from(G.SEPS))),
                                  G.ph(name)]
    tpl["user"] = {k: dict(v) for k, v in user.items()}
    tpl["file"][-1] = G.lit(suffix)
    limit = G.dir_period(tpl)
    if G.end_style(tpl) == "none" and limit is not None \
            and draw(st.integers(0, 3)) > 0:
        # no end fields, but a time_coverage that lets files reach over the
        # boundary of their directory
        unit = G.RES_DELTA[G.resolution_of(tpl)].total_seconds()
        choices = [c for c in (60, 1800, 3600, 5400, 21600, 43200, 86400)
                   if 2 * unit <= c <= limit.total_seconds()]
        if choices:
            tpl["coverage_s"] = draw(st.sampled_from(choices))
    return tpl


def next_boundary(tpl, t):
    """start of the directory period (finest temporal directory level) that
    follows the one of t, or None without temporal directories"""
    limit = G.dir_period(tpl)
    if limit is None:
        return None
    if limit == dt.timedelta(hours=1):
        return G.truncate(t, "hour") + limit
    day = G.truncate(t, "day")
    if limit == dt.timedelta(days=1):
        return day + limit
    if limit == dt.timedelta(days=28):      # month level
        first = day.replace(day=1)
        return (first + dt.timedelta(days=32)).replace(day=1)
    return day.replace(year=day.year + 1, month=1, day=1)


def late_period(tpl, near):
    """a period late in its directory period: with the fileset's
    time_coverage the file covers the begin of the next one"""
    cov = tpl["coverage_s"]
    if cov is None or G.end_style(tpl) != "none":
        return None
    boundary = next_boundary(tpl, near)
    if boundary is None:
        return None
    res = G.resolution_of(tpl)
    s = G.truncate(boundary - dt.timedelta(seconds=cov) / 2, res)
    if not (s < boundary < s + dt.timedelta(seconds=cov)):
        return None
    if not 1966 <= s.year <= 2063:
        return None
    return s


@st.composite
def periods_for(draw, tpl, anchor):
    files = draw(G.populations(tpl, min_files=2, max_files=5))
    out = []
    for f in files:
        s, e = clamp_year(f["s"]), clamp_year(f["e"])
        if e < s or (e - s) != (f["e"] - f["s"]):
            e = s + (f["e"] - f["s"])
            if not 1966 <= e.year <= 2063:
                e = s
        out.append({"s": s, "e": e, "attrs": f["attrs"]})
    for k in range(min(2, len(out))):
        late = late_period(tpl, out[k]["s"])
        if late is not None and draw(st.integers(0, 3)) > 0:
            out[k] = {"s": late, "e": late, "attrs": out[k]["attrs"]}
    return out


# --------------------------------------------------------------------------
# fileset configurations
# --------------------------------------------------------------------------
@st.composite
def user_config(draw, family):
    """handler variant (module-level functions, or bound methods of a Codec
    object with the signatures FileHandler supports), options from those the
    variant's reader / writer accept, whether the writer refuses 'poison'
    data, whether the handler has an info method"""
    from vp.oracle.c11_model import USER_VARIANTS
    if family == "pickle":
        variant = draw(st.sampled_from(["pickle", "method-pickle",
                                        "method-pickle"]))
        cfg = {
            "variant": variant,
            "read_args": draw(st.sampled_from([{}, {}, {"key": "k"}])),
            "write_args": draw(st.sampled_from([{}, {}, {"protocol": 2},
                                                {"protocol": 4}])),
        }
    else:
        variant = draw(st.sampled_from([
            "bytes-args", "bytes-plain", "method-plain", "method-one",
            "method-one", "method-two", "method-kw", "method-kw",
            "method-kw-one", "method-one-kw"]))
        r_opts, w_opts = USER_VARIANTS[variant][2:]
        ra, wa = {}, {}
        if "strip" in r_opts and draw(st.integers(0, 1)) == 0:
            ra["strip"] = draw(st.integers(1, 3))
        if "upper" in r_opts and draw(st.integers(0, 2)) == 0:
            ra["upper"] = True
        if "header" in w_opts and draw(st.integers(0, 1)) == 0:
            wa["header"] = draw(st.sampled_from([b"HD", b"#v1\n", b"\x00"]))
        if "rev" in w_opts and draw(st.integers(0, 2)) == 0:
            wa["rev"] = True
        cfg = {"variant": variant, "read_args": ra, "write_args": wa}
    cfg["refuse"] = False
    cfg["info"] = None
    if variant.startswith("method-"):
        cfg["refuse"] = draw(st.booleans())
        cfg["info"] = draw(st.sampled_from([None, None, "info", "info_kw"]))
    return cfg


@st.composite
def csv_config(draw, sep):
    ra = {"index_col": 0, "float_precision": "round_trip"}
    wa = {}
    if sep != ",":
        ra["sep"] = sep
        wa["sep"] = sep
    # (both obligatory columns stay selected: a converted copy must remain
    # readable through every other fileset of the history)
    fields = draw(st.sampled_from([None, None, ["f", "i"], ["i", "f"]]))
    if fields is not None:
        ra["fields"] = fields
    return {"variant": None, "read_args": ra, "write_args": wa}


@st.composite
def nc_config(draw, family):
    # ("f" or "grp/f" exists in every content and is never renamed, so that
    # no selection of fields leaves an empty dataset behind)
    choices = [{}, {}, {"fields": ["f", "i", "n"]}, {"fields": ["i", "f"]}]
    if family == "nc":
        choices = [
            {}, {}, {}, {"fields": ["f", "grp/f", "i", "n", "grp/n"]},
            {"fields": ["f", "grp/f", "grp/i"]},
            {"fields": ["f", "grp/f", "grp/v", "grp/w", "grp/x", "p"]},
            {"mapping": {"i": "k", "absent": "zzz"}},
            {"mapping": {"i": "k", "n": "row", "grp/v": "grp/u"}},
            {"fields": ["f", "grp/f", "i", "s0"], "mapping": {"i": "k"}}]
    ra = draw(st.sampled_from(choices))
    wa = draw(st.sampled_from([{}, {}, {"format": "NETCDF4"},
                               {"engine": "netcdf4"}]))
    return {"variant": None, "read_args": ra, "write_args": wa}


PREFIX_PAIRS = [("A", "AB"), ("AB", "ABC"), ("NOAA1", "NOAA18"),
                ("v1", "v10"), ("1", "12"), ("Metop", "MetopA")]


@st.composite
def prefix_placeholder(draw, name):
    """user placeholder of vp/gen/filesets.py whose values contain a proper
    prefix of another value on purpose (filters must match whole values):
    values = [short, short + more, something else]"""
    spec = draw(G.user_placeholder(name))
    if spec["kind"] == "regex":
        spec["regex"] = r"[A-Za-z0-9]+"
    short, longer = draw(st.sampled_from(PREFIX_PAIRS))
    other = draw(st.sampled_from(["B", "x1y", "07", "b2"]))
    spec["values"] = [short, longer, other]
    return spec


@st.composite
def fileset_specs(draw, family, sep):
    n_user = draw(st.sampled_from([0, 1, 1, 1, 2]))
    user = {}
    for name in ["sat", "orbit"][:n_user]:
        user[name] = draw(prefix_placeholder(name))
    n = draw(st.sampled_from([2, 2, 3]))
    anchor = draw(G.instants("second"))
    specs = []
    for k in range(n):
        if family in ("bytes", "pickle"):
            kind = "user"
        elif family == "mixed":
            kind = ["csv", "nc"][k % 2] if k < 2 else draw(
                st.sampled_from(["csv", "nc"]))
        else:
            kind = family
        comp = draw(st.sampled_from(COMPS))
        if specs and draw(st.booleans()):
            comp = specs[0]["comp"]      # plain moves need the same format
        ext = draw(st.sampled_from(EXT[kind]))
        tpl = draw(history_template(user, ext + comp))
        if kind == "user":
            cfg = draw(user_config(family))
        elif kind == "csv":
            cfg = draw(csv_config(sep))
        else:
            cfg = draw(nc_config(family))
        spec = {
            "template": tpl, "kind": kind, "comp": comp,
            "handler": "explicit" if kind == "user" else draw(
                st.sampled_from(["default", "default", "explicit"])),
            "post": draw(st.sampled_from([None, None, "name", "len"])),
            "worker_type": draw(st.sampled_from([None, None, "thread",
                                                 "process"])),
            "periods": draw(periods_for(tpl, anchor)),
            "coverage_as": draw(st.sampled_from(["td", "str"])),
        }
        spec.update(cfg)
        specs.append(spec)
    return specs


# --------------------------------------------------------------------------
# contents
# --------------------------------------------------------------------------
JSONISH = st.recursive(
    st.one_of(st.none(), st.booleans(), st.integers(-10**6, 10**6),
              st.text("abcXYZ 09_", max_size=6)),
    lambda inner: st.one_of(
        st.lists(inner, max_size=3),
        st.dictionaries(st.text("abk", min_size=1, max_size=2), inner,
                        max_size=3)),
    max_leaves=6)


def user_contents(family):
    # (data with \xee / "POISON" cannot be stored by a refusing writer)
    if family == "pickle":
        return st.one_of(
            JSONISH.map(lambda x: {"payload": x}),
            JSONISH.map(lambda x: {"payload": x}),
            JSONISH.map(lambda x: {"payload": x, "flag": "POISON"}))
    return st.one_of(
        st.binary(min_size=0, max_size=40),
        st.sampled_from([b"", b"\x00", b"a\nb\r\n", b"abc" * 700,
                         b"\x1f\x8b\x08\x00gzip-like", b"PK\x03\x04zip"]),
        st.sampled_from([b"\xeepoison", b"ab\xee", b"\xee" * 3 + b"xyz"]))


GRID = [0.0, -0.0, 1.0, -1.5, 0.125, 2.5, 1e10, -3.0e-5, 65504.0]
BIG_INTS = [0, 1, -1, 2**31 - 4, -2**31 + 4, 2**53 + 1, 2**60 + 1,
            -(2**62) - 3, 9007199254740993]


@st.composite
def float_values(draw, n, nan=True, width=64):
    elems = st.one_of(st.sampled_from(GRID),
                      st.integers(-1000, 1000).map(lambda k: k / 8.0))
    if width == 64:
        elems = st.one_of(elems, st.floats(
            allow_nan=False, allow_infinity=False, width=64))
    if nan:
        elems = st.one_of(elems, elems, st.none())
    return draw(st.lists(elems, min_size=n, max_size=n))


@st.composite
def int_values(draw, n, dtype):
    bits = int(dtype[3:])
    # (netCDF reserves -(2**(bits-1)) + 1, for int64 + 2, as the default
    # fill value: data that contains it is read as missing)
    # (and the convert function of the histories negates integers)
    lo, hi = -(2 ** (bits - 1)) + 4, 2 ** (bits - 1) - 4
    elems = st.one_of(st.integers(-5, 5), st.integers(lo, hi),
                      st.sampled_from([v for v in BIG_INTS + [lo, hi]
                                       if lo <= v <= hi]))
    return draw(st.lists(elems, min_size=n, max_size=n))


@st.composite
def simple_table(draw, rich):
    """one-dimensional table as the CSV handler stores it"""
    n = draw(st.integers(1, 5))
    dim = draw(st.sampled_from(["n", "n", "index", "row"])) if rich else "n"
    coord = {"dtype": "int64", "values": draw(st.lists(
        st.integers(-50, 5000), min_size=n, max_size=n, unique=True))}
    variables = [
        {"name": "f", "dims": [dim], "dtype": "float64",
         "values": draw(float_values(n))},
        {"name": "i", "dims": [dim], "dtype": "int64",
         "values": draw(int_values(n, "int64"))},
    ]
    if rich and draw(st.booleans()):
        variables.append({"name": "s", "dims": [dim], "dtype": "str",
                          "values": draw(st.lists(st.sampled_from(
                              ["s_a", "s_b c", "s_x,y", "s_1", "s_;z",
                               "s_q\"r"]), min_size=n, max_size=n))})
    if rich and draw(st.booleans()):
        variables.append({"name": "b", "dims": [dim], "dtype": "bool",
                          "values": draw(st.lists(st.booleans(), min_size=n,
                                                  max_size=n))})
    if rich and draw(st.booleans()):
        variables.append({"name": "g", "dims": [dim], "dtype": "float64",
                          "values": draw(float_values(n, nan=False))})
    order = draw(st.permutations(range(len(variables))))
    variables = [variables[i] for i in order]
    for v in variables:
        v.update({"attrs": {}, "enc": None, "tol": 0.0})
    return {"attrs": {}, "dims": [{"name": dim, "size": n, "coord": coord}],
            "vars": variables}


TIMES = [dt.datetime(2018, 1, 1), dt.datetime(2018, 1, 1, 0, 0, 1),
         dt.datetime(2017, 12, 31, 23, 59, 59), dt.datetime(2016, 2, 29, 12),
         dt.datetime(1970, 1, 1), dt.datetime(1969, 12, 31, 23),
         dt.datetime(2018, 6, 15, 6, 30, 0, 500000),
         dt.datetime(2038, 1, 19, 3, 14, 8), dt.datetime(2000, 2, 29)]


@st.composite
def coord_for(draw, n, allow_none=True):
    kind = draw(st.sampled_from(["int64", "datetime64[ns]", "float64"]
                                + (["none"] if allow_none else [])))
    if kind == "none":
        return None
    if kind == "int64":
        vals = draw(st.lists(st.integers(-100, 10**6), min_size=n,
                             max_size=n, unique=True))
    elif kind == "float64":
        vals = draw(st.lists(st.integers(-400, 400).map(lambda k: k / 4.0),
                             min_size=n, max_size=n, unique=True))
    else:
        vals = draw(st.lists(st.sampled_from(TIMES), min_size=n, max_size=n,
                             unique=True))
    return {"dtype": kind, "values": vals}


@st.composite
def nc_dataset(draw):
    """dataset for the NetCDF4 handler: dtypes, NaN, time coordinates, packed
    variables, scalars, second dimension, pseudo groups, attributes"""
    n = draw(st.integers(1, 4))
    dims = [{"name": "n", "size": n, "coord": draw(coord_for(n))}]
    variables = [
        {"name": "f", "dims": ["n"], "dtype": "float64",
         "values": draw(float_values(n))},
        {"name": "i", "dims": ["n"],
         "dtype": draw(st.sampled_from(["int16", "int32", "int64",
                                        "int64"]))},
    ]
    variables[1]["values"] = draw(int_values(n, variables[1]["dtype"]))

    def flag(k=2):
        return draw(st.integers(0, k)) == 0

    if flag():
        variables.append({"name": "h", "dims": ["n"], "dtype": "float32",
                          "values": draw(float_values(n, width=32))})
    if flag():
        c = draw(st.integers(1, 3))
        dims.append({"name": "c", "size": c, "coord": draw(coord_for(c))})
        dt_ = draw(st.sampled_from(["float32", "float64", "int32"]))
        vals = draw(float_values(n * c, width=32)) if dt_ != "int32" \
            else draw(int_values(n * c, "int32"))
        variables.append({"name": "m", "dims": ["n", "c"], "dtype": dt_,
                          "values": vals})
    if flag():
        dt_ = draw(st.sampled_from(["int32", "float64", "int64"]))
        vals = draw(int_values(1, dt_)) if dt_.startswith("int") \
            else draw(float_values(1, nan=False))
        variables.append({"name": "s0", "dims": [], "dtype": dt_,
                          "values": vals})
    if flag():
        variables.append({"name": "t", "dims": ["n"],
                          "dtype": "datetime64[ns]",
                          "values": draw(st.lists(st.sampled_from(TIMES),
                                                  min_size=n, max_size=n))})
    if flag():
        # packed: int16 / int32 with scale_factor and add_offset
        pdt = draw(st.sampled_from(["int16", "int16", "int32"]))
        scale = draw(st.sampled_from([0.1, 0.01, 0.5, 2.0, 0.001]))
        offset = draw(st.sampled_from([0.0, 5.0, -273.15, 1000.0]))
        fill = -32768 if pdt == "int16" else -2147483648
        qs = draw(st.lists(st.one_of(st.none(), st.integers(-30000, 30000)),
                           min_size=n, max_size=n))
        jitter = draw(st.sampled_from([0.0, 0.25, -0.4]))
        variables.append({
            "name": "p", "dims": ["n"], "dtype": "float64",
            "values": [None if q is None else (q + jitter) * scale + offset
                       for q in qs],
            "enc": {"dtype": pdt, "scale_factor": scale,
                    "add_offset": offset, "_FillValue": fill}})
    group = draw(st.sampled_from(["none", "none", "root-dim", "own-dim",
                                  "both", "nested"]))
    if group in ("root-dim", "both", "nested"):
        variables.append({"name": "grp/v", "dims": ["n"],
                          "dtype": draw(st.sampled_from(["float64",
                                                         "int32"]))})
        variables[-1]["values"] = draw(float_values(n)) \
            if variables[-1]["dtype"] == "float64" \
            else draw(int_values(n, "int32"))
    if group in ("own-dim", "both"):
        x = draw(st.integers(1, 3))
        dims.append({"name": "grp/x", "size": x,
                     "coord": draw(coord_for(x))})
        if draw(st.booleans()):
            variables.append({"name": "grp/w", "dims": ["grp/x"],
                              "dtype": "float64",
                              "values": draw(float_values(x))})
        else:
            variables.append({"name": "grp/w", "dims": ["n", "grp/x"],
                              "dtype": "int64",
                              "values": draw(int_values(n * x, "int64"))})
    if group == "nested":
        variables.append({"name": "grp/sub/z", "dims": ["n"],
                          "dtype": "int16",
                          "values": draw(int_values(n, "int16"))})
    for v in variables:
        v.setdefault("enc", None)
        v["tol"] = 0.0
        v["attrs"] = draw(st.sampled_from([
            {}, {}, {"long_name": "some quantity"},
            {"comment": "a b", "level": 3}])) \
            if not v["dtype"].startswith("datetime") else {}
    attrs = draw(st.sampled_from([{}, {"title": "t1"},
                                  {"title": "t2", "version": 3}]))
    if draw(st.integers(0, 5)) == 0:
        # no root variable at all: everything lives in the pseudo group
        variables = [v for v in variables if v["name"] in ("f", "i")]
        for v in variables:
            v["name"] = "grp/" + v["name"]
            v["dims"] = ["grp/n"]
        dims = [{"name": "grp/n", "size": n, "coord": draw(coord_for(n))}]
    return {"attrs": attrs, "dims": dims, "vars": variables}


def contents(family):
    if family in ("bytes", "pickle"):
        return user_contents(family)
    if family == "csv":
        return simple_table(True)
    if family == "mixed":
        return simple_table(False)
    return nc_dataset()


# --------------------------------------------------------------------------
# operations
# --------------------------------------------------------------------------
@st.composite
def near(draw, bounds):
    b = draw(st.sampled_from(bounds))
    off = draw(st.sampled_from([
        dt.timedelta(0), dt.timedelta(0), G.US, -G.US,
        dt.timedelta(seconds=1), -dt.timedelta(seconds=1),
        dt.timedelta(hours=1), -dt.timedelta(hours=1),
        dt.timedelta(days=1), -dt.timedelta(days=1),
        dt.timedelta(days=400), -dt.timedelta(days=400)]))
    return b + off


@st.composite
def selections(draw, bounds, user, cross=()):
    kind = draw(st.sampled_from(["all", "period", "period", "files", "files",
                                 "filters", "filters"]))
    sel = {"kind": kind, "start": None, "end": None,
           "no_files_error": draw(st.sampled_from([None, None, False]))}
    if kind in ("period", "filters"):
        sel["start"] = draw(st.one_of(st.none(), near(bounds)))
        sel["end"] = draw(st.one_of(st.none(), near(bounds)))
        if kind == "period" and sel["start"] is None and sel["end"] is None:
            sel["start"] = draw(near(bounds))
        if cross and draw(st.integers(0, 2)) == 0:
            # begin inside the directory period that follows the one of a
            # file which reaches over the boundary
            boundary, t1 = draw(st.sampled_from(list(cross)))
            frac = draw(st.sampled_from([0, 0, 1, 2]))
            start = boundary + (t1 - boundary) * frac / 4
            sel["start"] = start.replace(microsecond=0) if frac else start
            sel["end"] = draw(st.sampled_from([
                None, t1, sel["start"] + dt.timedelta(hours=1),
                sel["start"] + dt.timedelta(days=1)]))
    if kind == "files":
        sel["idx"] = draw(st.lists(st.integers(0, 11), min_size=0,
                                   max_size=3))
        sel["as"] = draw(st.sampled_from(["path", "info", "found"]))
    if kind == "filters":
        if not user:
            sel["kind"] = "period"
        else:
            name = draw(st.sampled_from(sorted(user)))
            vals = user[name]["values"]
            # (the first value is a proper prefix of the second: black and
            # white lists must match whole values)
            shape = draw(st.sampled_from(["value", "value", "list"]))
            first = draw(st.sampled_from([vals[0], vals[0], vals[1],
                                          vals[-1]]))
            v = first if shape == "value" else [first] + [
                x for x in draw(st.lists(st.sampled_from(vals), max_size=1))
                if x != first]
            black = draw(st.sampled_from([True, True, False]))
            sel["filters"] = {("!" if black else "") + name: v}
    return sel


@st.composite
def histories(draw, family, max_ops=12):
    sep = draw(st.sampled_from([",", ",", ";", "\t"])) \
        if family in ("csv", "mixed") else ","
    specs = draw(fileset_specs(family, sep))
    user = specs[0]["template"]["user"]
    n_fs = len(specs)
    pool = draw(st.lists(contents(family), min_size=2, max_size=4))
    if family in ("bytes", "pickle") and draw(st.integers(0, 2)) > 0:
        # something a refusing writer cannot store
        pool.insert(draw(st.integers(0, len(pool))),
                    draw(st.sampled_from([b"\xeepoison", b"ab\xee"]))
                    if family == "bytes" else {"payload": 1, "flag": "POISON"})
    bounds = {p[k] for s in specs for p in s["periods"] for k in ("s", "e")}
    for spec in specs:
        # ends given by a time_coverage, and the directory boundaries that
        # such files reach over
        tpl = spec["template"]
        if tpl["coverage_s"] is not None and G.end_style(tpl) == "none":
            for per in spec["periods"]:
                bounds.add(per["s"] + dt.timedelta(seconds=tpl["coverage_s"]))
                boundary = next_boundary(tpl, per["s"])
                if boundary is not None and 1966 <= boundary.year <= 2063:
                    bounds.add(boundary)
    bounds = sorted(bounds)
    cross = []
    for spec in specs:
        tpl = spec["template"]
        for per in spec["periods"]:
            t0, t1 = G.model_times(tpl, per["s"], per["e"])
            boundary = next_boundary(tpl, t0)
            if boundary is not None and t0 < boundary < t1 \
                    and (boundary, t1) not in cross:
                cross.append((boundary, t1))

    def write_op(fs=None):
        return {"op": "write",
                "fs": draw(st.integers(0, n_fs - 1)) if fs is None else fs,
                "period": draw(st.integers(0, 4)),
                "data": draw(st.integers(0, len(pool) - 1)),
                "via": draw(st.sampled_from(["slice", "slice", "single",
                                             "write", "write-info",
                                             "write-args"]))}

    ops = []
    first = draw(st.integers(0, n_fs - 1))
    for _ in range(draw(st.integers(2, 4))):
        ops.append(write_op(first if draw(st.integers(0, 3)) else None))
    n_more = draw(st.integers(2, max(2, max_ops - len(ops))))
    for _ in range(n_more):
        what = draw(st.sampled_from(["write", "overwrite", "read", "read",
                                     "move", "move", "move", "move",
                                     "delete", "delete", "mirror", "mirror"]))
        if what == "write":
            ops.append(write_op())
        elif what == "overwrite":
            prev = [o for o in ops if o["op"] == "write"]
            old = draw(st.sampled_from(prev))
            new = write_op(old["fs"])
            new["period"] = old["period"]
            ops.append(new)
        elif what == "read":
            ops.append({
                "op": "read", "fs": draw(st.integers(0, n_fs - 1)),
                "how": draw(st.sampled_from(["read", "read-info", "read-args",
                                             "item", "slice", "collect",
                                             "icollect", "collect-files"])),
                "file": draw(st.integers(0, 11)),
                "frac": draw(st.sampled_from([0, 0, 1, 2])),
                "sel": draw(selections(bounds, user, cross))})
        elif what == "mirror":
            # copy everything, rewrite some originals with other content of
            # the same size, copy again to the same target
            ops.append({
                "op": "mirror", "fs": draw(st.integers(0, n_fs - 1)),
                "to": draw(st.integers(0, n_fs - 1)),
                "target_as": draw(st.sampled_from(["fileset", "path"])),
                "rewrite": draw(st.lists(st.integers(0, 11), min_size=1,
                                         max_size=3)),
                "worker_type": draw(st.sampled_from([None, "thread",
                                                     "process"]))})
        elif what == "move":
            ops.append({
                "op": "move", "fs": draw(st.integers(0, n_fs - 1)),
                "to": draw(st.integers(0, n_fs - 1)),
                "target_as": draw(st.sampled_from(["fileset", "fileset",
                                                   "path"])),
                # "refusal": go for a converting move of a file the target
                # handler cannot store, if the state offers one
                # (with the originals at stake, or as a copy)
                "aim": draw(st.sampled_from([None, None, None, "refusal",
                                             "refusal", "refusal-copy"])),
                "copy": draw(st.booleans()),
                "convert": draw(st.sampled_from([False, False, None, True,
                                                 True, "callable", "callable",
                                                 "raises"])),
                "worker_type": draw(st.sampled_from([None, "thread",
                                                     "thread", "process"])),
                "sel": draw(selections(bounds, user, cross))})
        else:
            ops.append({
                "op": "delete", "fs": draw(st.integers(0, n_fs - 1)),
                "dry_run": draw(st.sampled_from([False, False, True])),
                "worker_type": draw(st.sampled_from([None, "thread",
                                                     "thread", "process"])),
                "sel": draw(selections(bounds, user, cross))})
    return {"family": family, "sep": sep, "filesets": specs, "pool": pool,
            "ops": ops}


# --------------------------------------------------------------------------
# single-file filesets
# --------------------------------------------------------------------------
@st.composite
def single_cases(draw):
    family = draw(st.sampled_from(["bytes", "bytes", "csv", "nc"]))
    kind = "user" if family == "bytes" else family
    comp = draw(st.sampled_from(COMPS))
    s = clamp_year(draw(G.instants("second")))
    e = s + dt.timedelta(seconds=draw(st.sampled_from([0, 1, 3600, 86400,
                                                       40 * 86400])))
    e = e if 1966 <= e.year <= 2063 else s
    user = {}
    specs = []
    for k in range(2):
        c = comp if k == 0 else draw(st.sampled_from(COMPS))
        ext = draw(st.sampled_from(EXT[kind]))
        tpl = draw(history_template(user, ext + c, max_dirs=2))
        if tpl["coverage_s"] is None and G.end_style(tpl) == "none":
            pass
        specs.append({"template": tpl, "comp": c})
    return {
        "family": family, "kind": kind, "coverage": [s, e],
        "name": draw(st.sampled_from(["single", "a.b", "data_01"]))
        + draw(st.sampled_from(EXT[kind])) + comp,
        "comp": comp, "targets": specs,
        "data": draw(contents(family)),
        "copy": draw(st.booleans()),
        "convert": draw(st.sampled_from([False, True, "callable"])),
        "delete": draw(st.sampled_from(["none", "dry", "real"])),
    }
