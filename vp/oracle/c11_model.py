"""C11 - harness side of the handlers and the content model.

Two families of file content:

* ``user``  - opaque data of a user ``FileHandler`` (bytes, or a pickled
  object).  The reader / writer / post_reader / convert functions live here at
  module level so that ``FileSet.map`` can ship them to worker processes.  The
  *model* functions below them state what the stored bytes and the value read
  back must be for given read_args / write_args / post_reader.
* ``table`` - ``xarray.Dataset`` content of the CSV and NetCDF4 handlers,
  described by plain data (``content`` dicts, see ``build_dataset``), with the
  transformations that reading (fields / mapping / post_reader), converting
  and packing apply to it, and a comparison of a dataset with a content.

Nothing here imports typhon.
"""
import datetime as dt
import math
import os
import pickle

import numpy as np

# --------------------------------------------------------------------------
# user handler functions (used by typhon; module level = picklable)
# --------------------------------------------------------------------------


def bytes_reader(file_info, strip=0, upper=False):
    with open(file_info.path, "rb") as fh:
        data = fh.read()
    data = data[strip:]
    return data.upper() if upper else data


def bytes_reader_plain(file_info):
    with open(file_info.path, "rb") as fh:
        return fh.read()


def bytes_writer(data, file_info, header=b"", rev=False):
    with open(file_info.path, "wb") as fh:
        fh.write(header + (data[::-1] if rev else data))


def bytes_writer_plain(data, file_info):
    with open(file_info.path, "wb") as fh:
        fh.write(data)


def pickle_reader(file_info, key=None):
    with open(file_info.path, "rb") as fh:
        obj = pickle.load(fh)
    return obj if key is None else {key: obj}


def pickle_writer(data, file_info, protocol=3):
    with open(file_info.path, "wb") as fh:
        pickle.dump(data, fh, protocol=protocol)


def post_name(file_info, data):
    """post_reader: tags the data with the name of the file it came from"""
    name = os.path.basename(file_info.path)
    if isinstance(data, bytes):
        return name.encode() + b":" + data
    if hasattr(data, "assign_attrs"):
        return data.assign_attrs(source=name)
    return {"from": name, "data": data}


def post_len(file_info, data):
    if isinstance(data, bytes):
        return data + b"|" + str(len(data)).encode()
    if hasattr(data, "assign_attrs"):
        return data.assign_attrs(nvars=len(data.data_vars))
    return {"len": len(data), "data": data}


POSTS = {"name": post_name, "len": post_len}


def convert_user(data):
    """convert= callable of move() for the user family"""
    if isinstance(data, bytes):
        return data[::-1] + b"!"
    return {"converted": data}


def convert_table(ds):
    """convert= callable of move() for tables: negates the integer data
    variables that are not packed"""
    out = ds
    for name in list(ds.data_vars):
        var = ds[name]
        if var.dtype.kind == "i" and "scale_factor" not in var.encoding:
            neg = -var
            neg.attrs = dict(var.attrs)
            neg.encoding = dict(var.encoding)
            out = out.assign({name: neg})
    return out


class ConvertError(Exception):
    pass


def convert_raises(data):
    """convert= callable that fails: the originals must survive"""
    raise ConvertError("conversion failed on purpose")


class WriteRefused(Exception):
    pass


def is_poison(data):
    """data a refusing writer cannot serialise"""
    if isinstance(data, bytes):
        return b"\xee" in data
    return "POISON" in repr(data)


class Codec:
    """A user format object whose BOUND METHODS serve as reader / writer /
    info of a FileHandler, with every signature the base class supports: no
    extra parameter, one named option, two options, **kwargs.  Module level
    and plain attributes only, so that FileSet.map can pickle it."""

    def __init__(self, refuse=False, tag="c1"):
        self.refuse = refuse
        self.tag = tag

    def _guard(self, data):
        if self.refuse and is_poison(data):
            raise WriteRefused("this format cannot store the data")

    # -- bytes ------------------------------------------------------------
    def _read(self, file_info, strip=0, upper=False):
        with open(file_info.path, "rb") as fh:
            data = fh.read()[strip:]
        return data.upper() if upper else data

    def _write(self, data, file_info, header=b"", rev=False):
        self._guard(data)
        with open(file_info.path, "wb") as fh:
            fh.write(header + (data[::-1] if rev else data))

    def read_plain(self, file_info):
        return self._read(file_info)

    def read_one(self, file_info, strip=0):
        return self._read(file_info, strip=strip)

    def read_two(self, file_info, strip=0, upper=False):
        return self._read(file_info, strip=strip, upper=upper)

    def read_kw(self, file_info, **kwargs):
        return self._read(file_info, **kwargs)

    def write_plain(self, data, file_info):
        self._write(data, file_info)

    def write_one(self, data, file_info, header=b""):
        self._write(data, file_info, header=header)

    def write_two(self, data, file_info, header=b"", rev=False):
        self._write(data, file_info, header=header, rev=rev)

    def write_kw(self, data, file_info, **kwargs):
        self._write(data, file_info, **kwargs)

    # -- pickled objects ----------------------------------------------------
    def pickle_read(self, file_info, **kwargs):
        return pickle_reader(file_info, **kwargs)

    def pickle_write(self, data, file_info, **kwargs):
        self._guard(data)
        pickle_writer(data, file_info, **kwargs)

    # -- info ---------------------------------------------------------------
    def info(self, file_info):
        from typhon.files import FileInfo
        return FileInfo(file_info.path, attr={"codec": self.tag})

    def info_kw(self, file_info, **kwargs):
        from typhon.files import FileInfo
        return FileInfo(file_info.path, attr={"codec": self.tag})


# variant -> (reader, writer, read options, write options); names are
# attributes of a Codec for the "method-" variants
USER_VARIANTS = {
    "bytes-args": (bytes_reader, bytes_writer,
                   ("strip", "upper"), ("header", "rev")),
    "bytes-plain": (bytes_reader_plain, bytes_writer_plain, (), ()),
    "pickle": (pickle_reader, pickle_writer, ("key",), ("protocol",)),
    "method-plain": ("read_plain", "write_plain", (), ()),
    "method-one": ("read_one", "write_one", ("strip",), ("header",)),
    "method-two": ("read_two", "write_two",
                   ("strip", "upper"), ("header", "rev")),
    "method-kw": ("read_kw", "write_kw",
                  ("strip", "upper"), ("header", "rev")),
    "method-kw-one": ("read_kw", "write_one",
                      ("strip", "upper"), ("header",)),
    "method-one-kw": ("read_one", "write_kw",
                      ("strip",), ("header", "rev")),
    "method-pickle": ("pickle_read", "pickle_write",
                      ("key",), ("protocol",)),
}
# bound-method readers with exactly one parameter after file_info
ONE_EXTRA_READERS = ("read_one", "read_kw", "pickle_read")


def user_handler_parts(spec):
    """(reader, writer, info) for FileHandler(...)"""
    reader, writer = USER_VARIANTS[spec["variant"]][:2]
    if not spec["variant"].startswith("method-"):
        return reader, writer, None
    codec = Codec(refuse=bool(spec.get("refuse")), tag="c1")
    info = None
    if spec.get("info"):
        info = getattr(codec, spec["info"])
    return getattr(codec, reader), getattr(codec, writer), info


def is_pickle_variant(variant):
    return variant in ("pickle", "method-pickle")


# --------------------------------------------------------------------------
# model of the user family
# --------------------------------------------------------------------------
def user_stored(variant, data, write_args):
    """bytes that must be in the (uncompressed) file"""
    if not is_pickle_variant(variant):
        body = data[::-1] if write_args.get("rev") else data
        return write_args.get("header", b"") + body
    return pickle.dumps(data, protocol=write_args.get("protocol", 3))


def user_value(variant, stored, read_args, post, basename):
    """value fileset.read() must return for a file with these bytes"""
    if not is_pickle_variant(variant):
        data = stored[read_args.get("strip", 0):]
        if read_args.get("upper"):
            data = data.upper()
    else:
        data = pickle.loads(stored)
        if read_args.get("key") is not None:
            data = {read_args["key"]: data}
    if post == "name":
        if isinstance(data, bytes):
            data = basename.encode() + b":" + data
        else:
            data = {"from": basename, "data": data}
    elif post == "len":
        if isinstance(data, bytes):
            data = data + b"|" + str(len(data)).encode()
        else:
            data = {"len": len(data), "data": data}
    return data


def same_size_variant(data):
    """other content of the same kind and size (a reprocessed product):
    bytes of the same length, objects with the same structure, tables with
    the same variables, shapes and dtypes - different values"""
    if isinstance(data, bytes):
        out = bytearray((b + 1) % 256 for b in data)
        return bytes(0xef if b == 0xee else b for b in out)
    if isinstance(data, dict) and "vars" in data and "dims" in data:
        out = copy_content(data)
        for v in out["vars"]:
            packed = v["enc"] and "scale_factor" in v["enc"]
            if v["dtype"].startswith("int") and not packed:
                v["values"] = [x ^ 1 for x in v["values"]]
            elif v["dtype"] == "bool":
                v["values"] = [not x for x in v["values"]]
        return out
    if isinstance(data, bool):
        return not data
    if isinstance(data, int):
        return data ^ 1
    if isinstance(data, str):
        return data.swapcase()
    if isinstance(data, list):
        return [same_size_variant(x) for x in data]
    if isinstance(data, dict):
        return {k: same_size_variant(v) for k, v in data.items()}
    return data


def user_converted(data):
    if isinstance(data, bytes):
        return data[::-1] + b"!"
    return {"converted": data}


# --------------------------------------------------------------------------
# tables: content <-> dataset
# --------------------------------------------------------------------------
# content = {
#   "attrs": {name: str | int},
#   "dims":  [{"name": str, "size": int,
#              "coord": None | {"dtype": str, "values": [...]}}],
#   "vars":  [{"name": str, "dims": [dim names], "dtype": str,
#              "values": [flat row-major; None = NaN], "attrs": {...},
#              "enc": None | {"dtype", "scale_factor", "add_offset",
#                             "_FillValue"},
#              "tol": float}],
# }
def _array(dtype, values, shape):
    if dtype.startswith("datetime64"):
        arr = np.array([np.datetime64(v, "ns") for v in values],
                       dtype="datetime64[ns]")
    elif dtype == "str":
        arr = np.array(list(values), dtype=object)
    elif dtype.startswith("float"):
        arr = np.array([np.nan if v is None else v for v in values],
                       dtype=dtype)
    else:
        arr = np.array(list(values), dtype=dtype)
    return arr.reshape(shape)


def build_dataset(content):
    import xarray as xr
    sizes = {d["name"]: d["size"] for d in content["dims"]}
    data_vars, coords = {}, {}
    for var in content["vars"]:
        shape = tuple(sizes[d] for d in var["dims"])
        arr = _array(var["dtype"], var["values"], shape)
        data_vars[var["name"]] = (tuple(var["dims"]), arr,
                                  dict(var.get("attrs") or {}))
    for d in content["dims"]:
        if d["coord"] is not None:
            coords[d["name"]] = ((d["name"],), _array(
                d["coord"]["dtype"], d["coord"]["values"], (d["size"],)))
    ds = xr.Dataset(data_vars, coords=coords,
                    attrs=dict(content.get("attrs") or {}))
    for var in content["vars"]:
        if var.get("enc"):
            ds[var["name"]].encoding = dict(var["enc"])
    return ds


def copy_content(content):
    return {
        "attrs": dict(content.get("attrs") or {}),
        "dims": [{"name": d["name"], "size": d["size"],
                  "coord": None if d["coord"] is None else {
                      "dtype": d["coord"]["dtype"],
                      "values": list(d["coord"]["values"])}}
                 for d in content["dims"]],
        "vars": [{"name": v["name"], "dims": list(v["dims"]),
                  "dtype": v["dtype"], "values": list(v["values"]),
                  "attrs": dict(v.get("attrs") or {}),
                  "enc": None if not v.get("enc") else dict(v["enc"]),
                  "tol": v.get("tol", 0.0)}
                 for v in content["vars"]],
    }


def _prune_dims(content):
    used = {d for v in content["vars"] for d in v["dims"]}
    content["dims"] = [d for d in content["dims"]
                       if d["name"] in used or d["coord"] is not None]
    return content


def has_groups(content):
    return any("/" in v["name"] for v in content["vars"]) or any(
        "/" in d["name"] for d in content["dims"])


# ---- what the handlers store -------------------------------------------
def nc_written(content):
    """content of a file NetCDF4.write() has produced: packing costs
    precision (half a quantisation step per packing)."""
    out = copy_content(content)
    for v in out["vars"]:
        if v["enc"] and "scale_factor" in v["enc"]:
            v["tol"] += abs(v["enc"]["scale_factor"]) * 0.5 * (1 + 1e-6) \
                + 1e-9
    return out


def csv_written(content):
    """CSV keeps int64 / float64 / str / bool columns of a one-dimensional
    table; attributes and encodings are not stored."""
    out = copy_content(content)
    out["attrs"] = {}
    for d in out["dims"]:
        if d["coord"] is None:
            # pandas writes the positions as index column
            d["coord"] = {"dtype": "int64", "values": list(range(d["size"]))}
    for v in out["vars"]:
        v["attrs"] = {}
        v["enc"] = None
        if v["dtype"].startswith("int"):
            v["dtype"] = "int64"
        elif v["dtype"].startswith("float"):
            v["dtype"] = "float64"
    return out


# ---- what reading returns -------------------------------------------------
def csv_read(content, read_args):
    out = copy_content(content)
    fields = read_args.get("fields")
    if fields is not None:
        by_name = {v["name"]: v for v in out["vars"]}
        out["vars"] = [by_name[f] for f in fields]
    return out


def nc_read(content, read_args):
    out = copy_content(content)
    fields = read_args.get("fields")
    if fields is not None:
        out["vars"] = [v for v in out["vars"] if v["name"] in fields]
        for d in out["dims"]:
            if d["name"] not in fields:
                d["coord"] = None
        _prune_dims(out)
    mapping = read_args.get("mapping")
    if mapping:
        names = {v["name"] for v in out["vars"]} \
            | {d["name"] for d in out["dims"]}
        mapping = {k: v for k, v in mapping.items() if k in names}
        for v in out["vars"]:
            v["name"] = mapping.get(v["name"], v["name"])
            v["dims"] = [mapping.get(d, d) for d in v["dims"]]
        for d in out["dims"]:
            d["name"] = mapping.get(d["name"], d["name"])
    return out


def table_post(content, post, basename):
    out = copy_content(content)
    if post == "name":
        out["attrs"]["source"] = basename
    elif post == "len":
        out["attrs"]["nvars"] = len(out["vars"])
    return out


def table_converted(content):
    out = copy_content(content)
    for v in out["vars"]:
        if v["dtype"].startswith("int") and not (
                v["enc"] and "scale_factor" in v["enc"]):
            v["values"] = [-x for x in v["values"]]
    return out


# ---- comparison -------------------------------------------------------------
def _same_scalar(a, b, tol):
    if a is None or (isinstance(a, float) and math.isnan(a)):
        return b is None or (isinstance(b, float) and math.isnan(b))
    if b is None or (isinstance(b, float) and math.isnan(b)):
        return False
    if tol:
        return abs(float(a) - float(b)) <= tol
    return a == b


def _values_of(arr):
    """flat python list of a numpy array (NaN -> None, datetime64 ->
    datetime)"""
    arr = np.asarray(arr)
    if arr.dtype.kind == "M":
        flat = arr.astype("datetime64[us]").ravel().tolist()
        return flat
    flat = arr.ravel().tolist()
    if arr.dtype.kind == "f":
        return [None if (isinstance(x, float) and math.isnan(x)) else x
                for x in flat]
    return flat


def dtype_class(dtype):
    dtype = str(dtype)
    if dtype.startswith("datetime64"):
        return "datetime64"
    if dtype in ("str", "object") or dtype.startswith("<U"):
        return "str"
    return dtype


def compare_dataset(got, content, check_attrs=True, check_dtype=True):
    """None if the dataset equals the content, else a description of the
    first difference"""
    import xarray as xr
    if not isinstance(got, xr.Dataset):
        return "not a Dataset but %r" % (type(got),)
    exp_vars = {v["name"]: v for v in content["vars"]}
    got_vars = set(got.data_vars)
    if got_vars != set(exp_vars):
        return "data variables %r, expected %r" % (
            sorted(got_vars), sorted(exp_vars))
    sizes = {d["name"]: d["size"] for d in content["dims"]}
    if dict(got.sizes) != sizes:
        return "dimensions %r, expected %r" % (dict(got.sizes), sizes)
    exp_coords = {d["name"]: d["coord"] for d in content["dims"]
                  if d["coord"] is not None}
    got_coords = {c for c in got.coords}
    if got_coords != set(exp_coords):
        return "coordinates %r, expected %r" % (sorted(got_coords),
                                                 sorted(exp_coords))
    for name, coord in sorted(exp_coords.items()):
        arr = got[name].values
        if tuple(got[name].dims) != (name,):
            return "coordinate %s has dims %r" % (name, got[name].dims)
        if check_dtype and dtype_class(arr.dtype) != dtype_class(
                coord["dtype"]):
            return "coordinate %s has dtype %s, expected %s" % (
                name, arr.dtype, coord["dtype"])
        exp = _values_of(_array(coord["dtype"], coord["values"],
                                (len(coord["values"]),)))
        if not _list_equal(_values_of(arr), exp, 0.0):
            return "coordinate %s = %r, expected %r" % (
                name, _values_of(arr), exp)
    for name, var in sorted(exp_vars.items()):
        g = got[name]
        if tuple(g.dims) != tuple(var["dims"]):
            return "variable %s has dims %r, expected %r" % (
                name, g.dims, var["dims"])
        packed = bool(var["enc"] and "scale_factor" in var["enc"])
        tol = var.get("tol", 0.0)
        if check_dtype:
            if packed or tol:
                ok = g.dtype.kind == "f"
            else:
                ok = dtype_class(g.dtype) == dtype_class(var["dtype"])
            if not ok:
                return "variable %s has dtype %s, expected %s%s" % (
                    name, g.dtype, var["dtype"],
                    " (packed: any float)" if packed or tol else "")
        shape = tuple(sizes[d] for d in var["dims"])
        exp = _values_of(_array(var["dtype"], var["values"], shape))
        gotv = _values_of(g.values)
        if not _list_equal(gotv, exp, tol):
            return "variable %s = %r, expected %r (tolerance %g)" % (
                name, gotv, exp, tol)
        if check_attrs:
            ga = {k: _plain(v) for k, v in g.attrs.items()}
            if ga != (var.get("attrs") or {}):
                return "variable %s has attrs %r, expected %r" % (
                    name, ga, var.get("attrs") or {})
    if check_attrs:
        ga = {k: _plain(v) for k, v in got.attrs.items()}
        if ga != (content.get("attrs") or {}):
            return "global attrs %r, expected %r" % (
                ga, content.get("attrs") or {})
    return None


def _plain(value):
    if isinstance(value, np.generic):
        return value.item()
    return value


def _list_equal(got, exp, tol):
    if len(got) != len(exp):
        return False
    return all(_same_scalar(e, g, tol) for g, e in zip(got, exp))


# ---- independent look at the stored files ---------------------------------
def open_archive(path, suffix):
    """payload of a compressed file, read with the standard library"""
    import bz2
    import gzip
    import lzma
    import zipfile
    if suffix == ".gz":
        with gzip.open(path, "rb") as fh:
            return fh.read()
    if suffix == ".bz2":
        with bz2.open(path, "rb") as fh:
            return fh.read()
    if suffix == ".xz":
        with lzma.open(path, "rb", format=lzma.FORMAT_XZ) as fh:
            return fh.read()
    if suffix == ".zip":
        with zipfile.ZipFile(path) as zf:
            names = zf.namelist()
            if len(names) != 1:
                raise ValueError("zip archive with members %r" % (names,))
            return zf.read(names[0])
    with open(path, "rb") as fh:
        return fh.read()


def csv_payload(payload, sep):
    """dataset in a CSV payload, parsed with pandas alone"""
    import io
    import pandas as pd
    return pd.read_csv(io.StringIO(payload.decode()), sep=sep, index_col=0,
                       float_precision="round_trip").to_xarray()


def netcdf_raw(path):
    """{full variable name: (dims with group prefix, raw array, attrs)},
    root attrs, {dim: unlimited?} - read with netCDF4 alone, nothing
    decoded"""
    import netCDF4
    out, dims = {}, {}
    with netCDF4.Dataset(path, "r") as root:
        root.set_auto_maskandscale(False)
        attrs = {k: _plain(root.getncattr(k)) for k in root.ncattrs()}

        def walk(group, prefix):
            for name, dim in group.dimensions.items():
                dims[prefix + name] = dim.isunlimited()
            for name, var in group.variables.items():
                vdims = []
                for d in var.get_dims():
                    gp = d.group().path.strip("/")
                    vdims.append(gp + "/" + d.name if gp else d.name)
                out[prefix + name] = (
                    tuple(vdims), np.array(var[...]),
                    {k: _plain(var.getncattr(k)) for k in var.ncattrs()})
            for name, sub in group.groups.items():
                walk(sub, prefix + name + "/")
        walk(root, "")
    return out, attrs, dims


def check_netcdf_payload(path, content, unlimited=(), strict_packing=True):
    """None if the netCDF file holds the content (looked at without xarray's
    decoding), else a description of the difference"""
    raw, attrs, dims = netcdf_raw(path)
    names = {v["name"] for v in content["vars"]} | {
        d["name"] for d in content["dims"] if d["coord"] is not None}
    if set(raw) != names:
        return "file has variables %r, expected %r" % (sorted(raw),
                                                       sorted(names))
    for d in unlimited:
        if not dims.get(d, False):
            return "dimension %s is not unlimited (write_args ignored)" % d
    for v in content["vars"]:
        vdims, arr, vattrs = raw[v["name"]]
        if len(vdims) != len(v["dims"]):
            return "variable %s has dims %r on disk" % (v["name"], vdims)
        enc = v.get("enc")
        if enc and "scale_factor" in enc:
            # (a converted copy may hold the packed numbers as floating point
            # numbers: typhon's reader promotes packed integers with missing
            # values before xarray notes the storage type)
            if str(arr.dtype) != enc["dtype"] and (
                    strict_packing or arr.dtype.kind != "f"):
                return "packed variable %s stored as %s" % (v["name"],
                                                            arr.dtype)
            if "scale_factor" not in vattrs:
                return "packed variable %s without scale_factor" % v["name"]
            scale = vattrs["scale_factor"]
            offset = vattrs.get("add_offset", 0.0)
            fill = vattrs.get("_FillValue")
            vals = [None if ((fill is not None and q == fill) or q != q)
                    else q * scale + offset for q in arr.ravel().tolist()]
            tol = v.get("tol", 0.0) or abs(scale) * 0.5 * (1 + 1e-6) + 1e-9
            exp = [None if x is None else float(x) for x in v["values"]]
            if not _list_equal(vals, exp, tol):
                return "packed variable %s unpacks to %r, expected %r" % (
                    v["name"], vals, exp)
        elif v["dtype"].startswith(("int", "float")) and not v.get("tol"):
            if str(arr.dtype) != v["dtype"]:
                return "variable %s stored as %s, expected %s" % (
                    v["name"], arr.dtype, v["dtype"])
            shape = arr.shape
            exp = _values_of(_array(v["dtype"], v["values"], shape))
            if not _list_equal(_values_of(arr), exp, 0.0):
                return "variable %s on disk = %r, expected %r" % (
                    v["name"], _values_of(arr), exp)
    for k, val in (content.get("attrs") or {}).items():
        if attrs.get(k) != val:
            return "root attribute %s = %r, expected %r" % (
                k, attrs.get(k), val)
    return None


def to_datetime(value):
    if isinstance(value, dt.datetime):
        return value
    raise TypeError(value)
