"""Brute-force distances on the sphere in long double (C04, C05, C06).

Independent of ``typhon.geodesy``: the only value taken from typhon is
``typhon.constants.earth_radius`` (the sphere the implementation claims to
use).  Angles come from ``atan2(|a x b|, a . b)`` of long-double unit vectors
(well conditioned from millimetres to the antipode); the chord is
``2 R sin(arc / 2)``.

All functions take latitudes / longitudes in degrees (array-like of float,
NaN allowed and propagated) and return ``numpy.longdouble`` arrays in km.
"""
import numpy as np

LD = np.longdouble
PI = LD(4) * np.arctan(LD(1))
DEG = PI / LD(180)


def radius_km():
    """Earth radius of the implementation's sphere in km (long double)."""
    from typhon import constants
    return LD(constants.earth_radius) / LD(1000)


def unit_vectors(lat, lon):
    """(n, 3) long-double unit vectors of the given points."""
    lat = np.asarray(lat, dtype=LD) * DEG
    lon = np.asarray(lon, dtype=LD) * DEG
    cl = np.cos(lat)
    return np.stack([cl * np.cos(lon), cl * np.sin(lon), np.sin(lat)], axis=-1)


def _angle(a, b):
    """angle between unit vectors a (..., 3) and b (..., 3), broadcasting"""
    ax, ay, az = a[..., 0], a[..., 1], a[..., 2]
    bx, by, bz = b[..., 0], b[..., 1], b[..., 2]
    cx = ay * bz - az * by
    cy = az * bx - ax * bz
    cz = ax * by - ay * bx
    cross = np.sqrt(cx * cx + cy * cy + cz * cz)
    dot = ax * bx + ay * by + az * bz
    return np.arctan2(cross, dot)


def angle_matrix(lat1, lon1, lat2, lon2, chunk=512):
    """(n1, n2) matrix of central angles in radians (long double)."""
    a = unit_vectors(lat1, lon1)
    b = unit_vectors(lat2, lon2)
    out = np.empty((a.shape[0], b.shape[0]), dtype=LD)
    for s in range(0, a.shape[0], chunk):
        out[s:s + chunk] = _angle(a[s:s + chunk, None, :], b[None, :, :])
    return out


def angle_pairs(lat1, lon1, lat2, lon2):
    """element-wise central angles in radians (long double)."""
    return _angle(unit_vectors(lat1, lon1), unit_vectors(lat2, lon2))


def arc_from_angle(angle):
    return radius_km() * angle


def chord_from_angle(angle):
    return LD(2) * radius_km() * np.sin(angle / LD(2))


def distance_matrix(lat1, lon1, lat2, lon2, kind="chord"):
    """(n1, n2) distances in km; kind = 'chord' (straight line through the
    Earth) or 'arc' (great circle)."""
    ang = angle_matrix(lat1, lon1, lat2, lon2)
    return chord_from_angle(ang) if kind == "chord" else arc_from_angle(ang)


def distance_pairs(lat1, lon1, lat2, lon2, kind="chord"):
    ang = angle_pairs(lat1, lon1, lat2, lon2)
    return chord_from_angle(ang) if kind == "chord" else arc_from_angle(ang)


def band_km(r_km, dist_km=None, kind="chord"):
    """Ambiguity band around a threshold ``r`` (DESIGN.md, tolerances): a
    pair whose reference distance lies within the band of the threshold may
    be reported or not.

    For the great-circle metric the double-precision haversine formula of
    the implementation (scikit-learn) loses accuracy near the antipode
    (d arc / d hav = 1 / sqrt(hav (1 - hav))); the band is widened there by
    that conditioning (at most 4e-8 rad = 0.26 m).
    """
    band = LD(1e-9) * LD(r_km) + LD(1e-7)
    if kind == "arc" and dist_km is not None:
        half = np.asarray(dist_km, dtype=LD) / (LD(2) * radius_km())
        cosh = np.abs(np.cos(half))          # sqrt(1 - hav)
        extra = np.minimum(LD(4e-8), LD(2e-15) / np.maximum(cosh, LD(1e-30)))
        band = band + radius_km() * extra
    return band


def value_tol_km(dist_km, kind="chord"):
    """Tolerance for a reported distance: rtol 1e-9 + atol 1e-6 km, for the
    great-circle metric widened near the antipode as in :func:`band_km`."""
    dist_km = np.asarray(dist_km, dtype=LD)
    tol = LD(1e-9) * np.abs(dist_km) + LD(1e-6)
    if kind == "arc":
        tol = tol + (band_km(0.0, dist_km, "arc") - LD(1e-7))
    return tol


def destination(lat, lon, bearing_deg, angle_rad):
    """Point reached from (lat, lon) [deg] after travelling the central
    angle ``angle_rad`` on the initial bearing ``bearing_deg``; plain floats,
    longitude normalised to [-180, 180].  Used by generators only (the
    oracle recomputes every distance from the resulting coordinates)."""
    import math
    p1 = math.radians(lat)
    l1 = math.radians(lon)
    th = math.radians(bearing_deg)
    sp, cp, sl, cl = math.sin(p1), math.cos(p1), math.sin(l1), math.cos(l1)
    pos = (cp * cl, cp * sl, sp)
    north = (-sp * cl, -sp * sl, cp)
    east = (-sl, cl, 0.0)
    ct, stt = math.cos(th), math.sin(th)
    ca, sa = math.cos(angle_rad), math.sin(angle_rad)
    q = [ca * pos[k] + sa * (ct * north[k] + stt * east[k]) for k in range(3)]
    # atan2 keeps the result well conditioned at the poles (asin does not)
    lat2 = math.degrees(math.atan2(q[2], math.hypot(q[0], q[1])))
    lon2 = math.degrees(math.atan2(q[1], q[0]))
    if lon2 > 180.0 or lon2 < -180.0:
        lon2 = (lon2 + 180.0) % 360.0 - 180.0
    lat2 = max(-90.0, min(90.0, lat2))
    return lat2, lon2
