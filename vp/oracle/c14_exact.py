"""Exact trapezoid integrals of float data (C14).

Every finite float is an integer times a power of two, so the integral of the
piecewise-linear interpolant, sum (x[i+1]-x[i]) (y[i]+y[i+1]) / 2, is computed
in Python integers scaled by a common power of two and rounded once at the end.
"""
import math
from fractions import Fraction


def _scaled_ints(vals):
    """-> (ints, e) with vals[i] == ints[i] * 2**e exactly"""
    ms, es = [], []
    emin = 0
    for v in vals:
        m, e = math.frexp(v)            # v = m * 2**e, 0.5 <= |m| < 1
        mi = int(m * (1 << 53))         # exact
        ms.append(mi)
        es.append(e - 53)
        if mi and e - 53 < emin:
            emin = e - 53
    return [m << (e - emin) if m else 0 for m, e in zip(ms, es)], emin


def trapezoid_exact(y, x=None):
    """-> (integral, abs_sum) as Fractions: the exact integral of the
    piecewise-linear interpolant and the sum of the absolute panel values."""
    n = len(y)
    yi, ey = _scaled_ints([float(v) for v in y])
    if x is None:
        xi, ex = list(range(n)), 0
    else:
        xi, ex = _scaled_ints([float(v) for v in x])
    tot = 0
    atot = 0
    for i in range(n - 1):
        t = (xi[i + 1] - xi[i]) * (yi[i] + yi[i + 1])
        tot += t
        atot += abs(t)
    e = ex + ey - 1
    if e >= 0:
        return Fraction(tot << e), Fraction(atot << e)
    return Fraction(tot, 1 << -e), Fraction(atot, 1 << -e)
