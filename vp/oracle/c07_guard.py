"""'Arguments are not modified' oracle for plain numeric modules (C07, C08).

Guarded(module, ctx) behaves like the module, but every function call keeps a
copy of each ndarray argument (also inside tuple/list arguments and keyword
arguments) and reports ``inputs-modified/<function>`` when an argument is not
bit-identical afterwards.  A conversion that works in place on the caller's
array returns the right values for the single call and corrupts every later
use of that array, which no value oracle on the results can see.
"""
import numpy as np


def _arrays(args, kw):
    found = []
    for key, val in list(enumerate(args)) + sorted(kw.items()):
        if isinstance(val, np.ndarray):
            found.append((key, val))
        elif isinstance(val, (tuple, list)):
            for k, item in enumerate(val):
                if isinstance(item, np.ndarray):
                    found.append(("%s[%d]" % (key, k), item))
    return found


class Guarded:
    def __init__(self, module, ctx):
        self._module = module
        self._ctx = ctx

    def __getattr__(self, name):
        obj = getattr(self._module, name)
        if isinstance(obj, type) or not callable(obj):
            return obj
        ctx = self._ctx

        def call(*args, **kw):
            kept = [(key, arr, arr.copy()) for key, arr in _arrays(args, kw)]
            out = obj(*args, **kw)
            for key, arr, old in kept:
                same = (arr.dtype == old.dtype and arr.shape == old.shape
                        and arr.tobytes() == old.tobytes())
                ctx.check(same, "inputs-modified/" + name, lambda: (
                    "%s changed its argument %s in place: before %r, after %r"
                    % (name, key, old.tolist(), arr.tolist())))
            return out
        call.__name__ = getattr(obj, "__name__", name)
        return call
