"""Call-level oracles for plain numeric modules (C07, C08, C09).

Guarded(module, ctx) behaves like the module, but around every function call

  * keeps a copy of each ndarray argument (also inside tuple/list arguments
    and keyword arguments) and reports ``inputs-modified/<function>`` when an
    argument is not bit-identical afterwards (a conversion that works in place
    on the caller's array is right for the single call and corrupts every
    later use of that array);
  * keeps the ndarray results of the last few calls of every function together
    with copies and reports ``result-changed-later/<function>`` when a result
    handed out earlier is no longer bit-identical after a later call, and
    ``result-shares-memory/<function>`` when a new result shares memory with a
    result handed out earlier (results that are views of the call's own
    arguments are exempt: passing an argument through is not hidden state);
  * compares numpy's floating-point error state (np.geterr, np.geterrcall) and
    the warnings filters before and after the call - whether it returned or
    raised - and reports ``global-state-changed/<function>`` (the state is put
    back, so that later cases of the same process are not affected).

One Guarded object lives for one case, so what it remembers never depends on
earlier cases.
"""
import collections
import warnings

import numpy as np

KEEP = 3


def _arrays(args, kw):
    found = []
    for key, val in list(enumerate(args)) + sorted(kw.items()):
        if isinstance(val, np.ndarray):
            found.append((key, val))
        elif isinstance(val, (tuple, list)):
            for k, item in enumerate(val):
                if isinstance(item, np.ndarray):
                    found.append(("%s[%d]" % (key, k), item))
    return found


def _result_arrays(out):
    if isinstance(out, np.ndarray):
        return [out]
    if isinstance(out, (tuple, list)):
        return [o for o in out if isinstance(o, np.ndarray)]
    return []


def _same(arr, old):
    return (arr.dtype == old.dtype and arr.shape == old.shape
            and arr.tobytes() == old.tobytes())


def _state():
    return (np.geterr(), np.geterrcall(), list(warnings.filters))


class Guarded:
    def __init__(self, module, ctx):
        self._module = module
        self._ctx = ctx
        self._kept = {}      # function name -> deque of (arrays, copies)

    def _check_kept(self, later):
        for name, dq in self._kept.items():
            for arrs, copies in dq:
                for k, (arr, old) in enumerate(zip(arrs, copies)):
                    self._ctx.check(_same(arr, old),
                                    "result-changed-later/" + name, lambda: (
                        "result %d of an earlier %s call changed when %s was "
                        "called afterwards: it was %r, now it is %r"
                        % (k, name, later, old.tolist(), arr.tolist())))

    def __getattr__(self, name):
        obj = getattr(self._module, name)
        if isinstance(obj, type) or not callable(obj):
            return obj
        ctx = self._ctx

        def call(*args, **kw):
            inputs = _arrays(args, kw)
            kept = [(key, arr, arr.copy()) for key, arr in inputs]
            before = _state()
            try:
                out = obj(*args, **kw)
            finally:
                after = _state()
                if after != before:
                    np.seterr(**before[0])
                    np.seterrcall(before[1])
                    warnings.filters[:] = before[2]
                    ctx.fail("global-state-changed/" + name, (
                        "%s left global state behind: np.geterr() %r -> %r, "
                        "errcall %r -> %r, %d -> %d warnings filters"
                        % (name, before[0], after[0], before[1], after[1],
                           len(before[2]), len(after[2]))))
            for key, arr, old in kept:
                ctx.check(_same(arr, old), "inputs-modified/" + name,
                          lambda: "%s changed its argument %s in place: "
                          "before %r, after %r" % (name, key, old.tolist(),
                                                   arr.tolist()))
            self._check_kept(name)
            new = [a for a in _result_arrays(out) if a.size and not any(
                np.may_share_memory(a, arr) and np.shares_memory(a, arr)
                for _, arr in inputs)]
            for a in new:
                for other, dq in self._kept.items():
                    for arrs, _ in dq:
                        for b in arrs:
                            ctx.check(not (np.may_share_memory(a, b)
                                           and np.shares_memory(a, b)),
                                      "result-shares-memory/" + name, lambda: (
                                "a result of %s shares memory with a result "
                                "that an earlier %s call handed out"
                                % (name, other)))
            if new:
                dq = self._kept.setdefault(
                    name, collections.deque(maxlen=KEEP))
                dq.append((new, [a.copy() for a in new]))
            return out
        call.__name__ = getattr(obj, "__name__", name)
        return call
