"""Reference model for C13: compact collocation data under expand / collapse /
concat, written as plain Python loops over the pair list.

A compact data set is first frozen into a *spec* (plain numpy copies, taken
before typhon sees the data):

    spec = {"names": [g0, g1], "n": [n0, n1], "pairs": int array (2, K),
            "vars": {name: (dims, values)}}      # every variable of the data set

Nothing in here imports typhon.
"""
import math

import numpy as np

SKIP_LOCAL = ("time", "lat", "lon")


def snapshot(ds):
    """xr.Dataset in compact layout -> spec (deep numpy copies)."""
    names = [str(x) for x in np.asarray(ds["Collocations/group"].values).tolist()]
    out = {"names": names, "vars": {}}
    for name in ds.variables:
        var = ds.variables[name]
        out["vars"][str(name)] = (tuple(str(d) for d in var.dims),
                                  np.array(var.values, copy=True))
    out["pairs"] = np.array(ds["Collocations/pairs"].values, copy=True)
    out["n"] = [int(ds.sizes[g + "/collocation"]) for g in names]
    return out


def validity_problems(spec):
    """'pairs holds valid indices and every stored point takes part in at
    least one pair' -> list of problems (empty = fine)."""
    problems = []
    pairs = spec["pairs"]
    if pairs.ndim != 2 or pairs.shape[0] != 2:
        return ["pairs has shape %r" % (pairs.shape,)]
    if pairs.dtype.kind not in "iu":
        problems.append("pairs has dtype %s" % pairs.dtype)
    if pairs.shape[1] == 0:
        problems.append("no pair at all")
    for g in range(2):
        used = set()
        for k in range(pairs.shape[1]):
            v = pairs[g][k]
            if not (v == int(v) and 0 <= int(v) < spec["n"][g]):
                problems.append("pairs[%d][%d] = %r is no index into the %d "
                                "stored points of %s"
                                % (g, k, v, spec["n"][g], spec["names"][g]))
                break
            used.add(int(v))
        else:
            unused = [i for i in range(spec["n"][g]) if i not in used]
            if unused:
                problems.append("stored points %r of %s take part in no pair"
                                % (unused[:10], spec["names"][g]))
    return problems


def group_of(name):
    return name.split("/", 1)[0] if "/" in name else None


def expand_expected(spec):
    """-> {name: (dims, values)} of every variable that expand must carry.

    One row per pair: row k of a primary variable is the value stored for
    primary point pairs[0][k], row k of a secondary variable the value stored
    for secondary point pairs[1][k]; the per-pair variables of the
    Collocations group keep their rows."""
    names = spec["names"]
    npairs = spec["pairs"].shape[1]
    out = {}
    for name, (dims, vals) in spec["vars"].items():
        grp = group_of(name)
        if name in ("Collocations/pairs", "Collocations/group"):
            continue
        cdim = (grp + "/collocation") if grp else None
        if cdim is None or cdim not in dims:
            out[name] = (dims, vals)
            continue
        axis = dims.index(cdim)
        new_dims = tuple("collocation" if d == cdim else d for d in dims)
        if grp == "Collocations":
            out[name] = (new_dims, vals)
            continue
        g = names.index(grp)
        rows = []
        for k in range(npairs):
            rows.append(np.take(vals, int(spec["pairs"][g][k]), axis=axis))
        out[name] = (new_dims, np.stack(rows, axis=axis))
    return out


def _nan_stats(values):
    """values: list of floats -> (mean, std, count, max, median, scale)"""
    good = [v for v in values if not math.isnan(v)]
    n = len(good)
    if n == 0:
        nan = float("nan")
        return nan, nan, 0, nan, nan, 0.0
    finite = [v for v in good if not math.isinf(v)]
    scale = max(abs(v) for v in finite) if finite else 0.0
    ordered = sorted(good)
    if n % 2:
        median = ordered[n // 2]
    else:       # (-inf + inf) / 2 is NaN, like the mean of the two
        median = (ordered[n // 2 - 1] + ordered[n // 2]) / 2
    if len(finite) < n:
        # infinite partner values are data: they count, the mean is the
        # infinity (NaN if both signs occur), the deviations from an infinite
        # or undefined mean are undefined
        signs = {v > 0 for v in good if math.isinf(v)}
        mean = float("nan") if len(signs) == 2 else (
            float("inf") if True in signs else float("-inf"))
        return mean, float("nan"), n, max(good), median, scale
    mean = math.fsum(good) / n
    var = math.fsum((v - mean) * (v - mean) for v in good) / n
    return mean, math.sqrt(var), n, max(good), median, scale


def collapse_expected(spec, reference):
    """-> (ref_vars, collapsed) for reference group name `reference`.

    ref_vars : {local_name: (dims, values)} of the reference group's variables
               that live on the collocation dimension (collocation first)
    collapsed: {"grp/var": {"dims": (...), "mean": arr, "std": arr,
                            "number": arr, "max": arr, "median": arr,
                            "scale": arr, "most": int}}
    """
    names = spec["names"]
    ri = names.index(reference)
    oi = 1 - ri
    n_ref = spec["n"][ri]
    # the partners of every reference point, in pair order
    partners = [[] for _ in range(n_ref)]
    for k in range(spec["pairs"].shape[1]):
        partners[int(spec["pairs"][ri][k])].append(int(spec["pairs"][oi][k]))
    ref_vars, collapsed = {}, {}
    for name, (dims, vals) in spec["vars"].items():
        grp = group_of(name)
        if grp not in names:
            continue
        local = name.split("/", 1)[1]
        cdim = grp + "/collocation"
        if cdim not in dims:
            continue
        axis = dims.index(cdim)
        moved = np.moveaxis(vals, axis, 0)
        other_dims = tuple(d for d in dims if d != cdim)
        if grp == reference:
            ref_vars[local] = (("collocation",) + other_dims, moved)
            continue
        if local in SKIP_LOCAL or local.startswith("__"):
            continue
        if moved.dtype.kind not in "fiu":
            continue
        shape = (n_ref,) + moved.shape[1:]
        res = {k: np.full(shape, np.nan) for k in
               ("mean", "std", "max", "median", "scale", "first", "last")}
        res["number"] = np.zeros(shape, dtype=int)
        most = max(len(p) for p in partners)
        for r in range(n_ref):
            block = [moved[s] for s in partners[r]]
            for idx in np.ndindex(*moved.shape[1:]):
                column = [float(b[idx]) for b in block]
                # partner values in pair order: the first one, and the one in
                # the last of the `most` slots (padding = NaN if this
                # reference point has fewer partners than the busiest one)
                res["first"][(r,) + idx] = column[0]
                if len(column) == most:
                    res["last"][(r,) + idx] = column[-1]
                mean, std, cnt, mx, med, scale = _nan_stats(column)
                res["mean"][(r,) + idx] = mean
                res["std"][(r,) + idx] = std
                res["number"][(r,) + idx] = cnt
                res["max"][(r,) + idx] = mx
                res["median"][(r,) + idx] = med
                res["scale"][(r,) + idx] = scale
        res["dims"] = ("collocation",) + other_dims
        res["most"] = max(len(p) for p in partners) if partners else 0
        collapsed[name] = res
    return ref_vars, collapsed


def same_values(a, b):
    """exact equality of two arrays (NaN == NaN, NaT == NaT), shapes included"""
    a, b = np.asarray(a), np.asarray(b)
    if a.shape != b.shape:
        return False
    if a.dtype.kind in "fc" or b.dtype.kind in "fc":
        try:
            return bool(np.array_equal(a, b, equal_nan=True))
        except TypeError:
            return False
    if a.dtype.kind in "mM" or b.dtype.kind in "mM":
        if a.dtype.kind != b.dtype.kind:
            return False
        return bool(np.array_equal(a.astype("int64"), b.astype(a.dtype).astype("int64")))
    return bool(np.array_equal(a, b))


def close_values(got, exp, scale, rtol=1e-12):
    """|got-exp| <= rtol*scale elementwise, NaN pattern identical"""
    got = np.asarray(got, dtype=float)
    exp = np.asarray(exp, dtype=float)
    if got.shape != exp.shape:
        return False
    nan_g, nan_e = np.isnan(got), np.isnan(exp)
    if not np.array_equal(nan_g, nan_e):
        return False
    inf_e = np.isinf(exp)
    if not np.array_equal(got[inf_e], exp[inf_e]):
        return False
    ok = ~nan_e & ~inf_e
    if not ok.any():
        return True
    return bool(np.all(np.abs(got[ok] - exp[ok])
                       <= rtol * np.asarray(scale, dtype=float)[ok] + 1e-300))


def to_order(dims, vals, order):
    """transpose (dims, vals) into the dimension order `order` (same set)"""
    if tuple(dims) == tuple(order):
        return vals
    return np.transpose(vals, [list(dims).index(d) for d in order])
