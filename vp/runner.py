"""Runner of the property checks (see DESIGN.md, section 1).

    python -m vp.runner <ID> <quick|thorough>        run a check
    python -m vp.runner <ID> --replay <file>         replay one saved case
    python -m vp.runner --shard <spec.json>          (internal) one shard

Exit codes: 0 property held on everything explored (KNOWN-FINDING lines may be
printed), 1 violation (line ``VIOLATION property=<id> replay=<path>``), 2 harness
error / inconclusive.
"""
import hashlib
import importlib
import json
import os
import re
import subprocess
import sys
import tempfile
import time
import traceback
import warnings

HERE = os.path.dirname(os.path.dirname(os.path.abspath(__file__)))
REPO = os.environ.get("VERIF_REPO", "/repo")
KNOWN_FILE = os.path.join(HERE, "known_findings.txt")

PROP_MODULES = {
    "C01": "c01_find", "C02": "c02_names", "C03": "c03_intervals",
    "C04": "c04_collocate", "C05": "c05_filesets", "C06": "c06_geoindex",
    "C07": "c07_geodesy", "C08": "c08_em", "C09": "c09_humidity",
    "C10": "c10_parallel", "C11": "c11_conserve", "C12": "c12_compress",
    "C13": "c13_compact", "C14": "c14_columns", "C15": "c15_cache",
    "C16": "c16_closest", "C17": "c17_oem", "C18": "c18_bmci",
    "C19": "c19_scores", "C20": "c20_srtm",
}


# --------------------------------------------------------------------------
# plain data helpers
# --------------------------------------------------------------------------
TAGS = ("__frac__", "__dt__", "__td_us__", "__bytes__", "__complex__",
        "__esc__")


def to_plain(obj):
    """Turn a generated case into JSON-serialisable plain data."""
    import datetime as _dt
    import fractions
    try:
        import numpy as np
    except ImportError:  # pragma: no cover
        np = None
    if obj is None or isinstance(obj, (bool, int, str)):
        return obj
    if isinstance(obj, float):
        return obj
    if isinstance(obj, dict):
        if len(obj) == 1 and str(next(iter(obj))) in TAGS:
            # a generated dict that looks like one of the tags below
            (k, v), = obj.items()
            return {"__esc__": [str(k), to_plain(v)]}
        return {str(k): to_plain(v) for k, v in obj.items()}
    if isinstance(obj, (list, tuple)):
        return [to_plain(v) for v in obj]
    if isinstance(obj, (set, frozenset)):
        return sorted(to_plain(v) for v in obj)
    if isinstance(obj, fractions.Fraction):
        return {"__frac__": [obj.numerator, obj.denominator]}
    if isinstance(obj, _dt.datetime):
        return {"__dt__": obj.isoformat()}
    if isinstance(obj, _dt.timedelta):
        return {"__td_us__": (obj.days * 86400 + obj.seconds) * 10**6
                + obj.microseconds}
    if isinstance(obj, bytes):
        return {"__bytes__": obj.hex()}
    if isinstance(obj, complex):
        return {"__complex__": [obj.real, obj.imag]}
    if np is not None:
        if isinstance(obj, np.ndarray):
            return to_plain(obj.tolist())
        if isinstance(obj, np.generic):
            return to_plain(obj.item())
    raise TypeError("case is not plain data: %r" % (type(obj),))


def from_plain(obj):
    """Inverse of to_plain for the tagged types."""
    import datetime as _dt
    import fractions
    if isinstance(obj, list):
        return [from_plain(v) for v in obj]
    if isinstance(obj, dict):
        if len(obj) == 1:
            (k, v), = obj.items()
            if k == "__esc__":
                return {v[0]: from_plain(v[1])}
            if k == "__frac__":
                return fractions.Fraction(v[0], v[1])
            if k == "__dt__":
                return _dt.datetime.fromisoformat(v)
            if k == "__td_us__":
                return _dt.timedelta(microseconds=v)
            if k == "__bytes__":
                return bytes.fromhex(v)
            if k == "__complex__":
                return complex(v[0], v[1])
        return {k: from_plain(v) for k, v in obj.items()}
    return obj


def case_hash(plain):
    blob = json.dumps(plain, sort_keys=True, default=repr).encode()
    return hashlib.blake2b(blob, digest_size=8).hexdigest()


def short(obj, limit=2000):
    """Abbreviated JSON for samples in the evidence file."""
    txt = json.dumps(obj, sort_keys=True, default=repr)
    if len(txt) <= limit:
        return obj
    return {"truncated_json": txt[:limit] + " ...", "full_length": len(txt)}


# --------------------------------------------------------------------------
# violations, known findings, per-case context
# --------------------------------------------------------------------------
class Violation(Exception):
    def __init__(self, signature, detail=""):
        super().__init__("%s: %s" % (signature, detail))
        self.signature = signature
        self.detail = detail


class HarnessError(Exception):
    pass


def load_known(prop_id):
    """-> (open: {signature: what}, fixed: [line])"""
    opened, fixed = {}, []
    if not os.path.exists(KNOWN_FILE):
        return opened, fixed
    with open(KNOWN_FILE) as fh:
        for line in fh:
            line = line.strip()
            if not line or line.startswith("#"):
                continue
            m = re.match(r"open: property=(\S+) signature=(\S+) (.*)$", line)
            if m:
                if m.group(1) == prop_id:
                    opened[m.group(2)] = m.group(3)
                continue
            m = re.match(r"fixed: property=(\S+) (\S+) (.*)$", line)
            if m:
                if m.group(1) == prop_id:
                    fixed.append(line)
                continue
            raise HarnessError("unparsable line in known_findings.txt: " + line)
    return opened, fixed


class Ctx:
    """Handed to every check_case: labels, non-triviality, failure reporting."""

    def __init__(self, prop_id, known_open):
        self.prop_id = prop_id
        self.known_open = known_open
        self.labels = set()
        self.nontrivial = False
        self.known_hits = []          # (signature, detail)
        self.notes = {}

    def label(self, *names):
        for n in names:
            if n:
                self.labels.add(n)

    def fail(self, signature, detail=""):
        """Report a violation.  Known open findings are counted and the
        check goes on; anything else aborts the case."""
        if not signature.startswith(self.prop_id + "/"):
            signature = self.prop_id + "/" + signature
        if signature in self.known_open:
            self.known_hits.append((signature, str(detail)[:500]))
            return
        raise Violation(signature, str(detail)[:4000])

    def is_known(self, signature):
        if not signature.startswith(self.prop_id + "/"):
            signature = self.prop_id + "/" + signature
        return signature in self.known_open

    def check(self, cond, signature, detail=""):
        if not cond:
            self.fail(signature, detail() if callable(detail) else detail)


class Suite:
    """One generated (or enumerated) family of cases of a property.

    strategy   hypothesis strategy producing a plain-data case, or None
    cases      callable -> iterable of plain-data cases (enumerated sub-space)
    check      check(case, ctx); raises Violation through ctx.fail
    examples   {"quick": n, "thorough": n}  per shard (hypothesis suites)
    """

    def __init__(self, name, check, strategy=None, cases=None, examples=None,
                 exhaustive=False, shards=None, tiers=("quick", "thorough"),
                 essential_labels=()):
        self.name = name
        self.check = check
        self.strategy = strategy
        self.cases = cases
        self.examples = examples or {"quick": 100, "thorough": 1000}
        self.exhaustive = exhaustive
        self.shards = shards            # None = all shards; int = first k
        self.tiers = tiers
        self.essential_labels = tuple(essential_labels)


def typhon_frame(tb):
    """innermost frame of the traceback that lies in typhon, or None"""
    root = os.path.join(os.path.realpath(REPO), "typhon") + os.sep
    found = None
    for fs in traceback.extract_tb(tb):
        if os.path.realpath(fs.filename).startswith(root):
            found = fs
    return found


def exception_signature(prop_id, suite, exc):
    fs = typhon_frame(exc.__traceback__)
    seen = set()
    link = exc
    while fs is None and link is not None and id(link) not in seen:
        # e.g. "RuntimeError: generator raised StopIteration": the typhon
        # frame is in the traceback of the cause
        seen.add(id(link))
        link = link.__cause__ or link.__context__
        if link is not None:
            fs = typhon_frame(link.__traceback__)
    if fs is None:
        return None
    rel = os.path.relpath(os.path.realpath(fs.filename),
                          os.path.realpath(REPO))
    return "%s/exception/%s/%s/%s:%s" % (
        prop_id, suite, type(exc).__name__, rel, fs.name)


# --------------------------------------------------------------------------
# shard execution
# --------------------------------------------------------------------------
class SuiteStats:
    def __init__(self, name):
        self.name = name
        self.evaluations = 0
        self.nontrivial_hashes = set()
        self.labels = {}
        self.samples = []
        self.known = {}      # signature -> [count, sample detail, sample case]
        self.violation = None
        self.error = None
        self.wall = 0.0
        self.exhaustive = False
        self.flaky = False

    def record(self, plain, ctx):
        self.evaluations += 1
        for lab in ctx.labels:
            self.labels[lab] = self.labels.get(lab, 0) + 1
        if ctx.nontrivial:
            h = case_hash(plain)
            if h not in self.nontrivial_hashes:
                self.nontrivial_hashes.add(h)
                if len(self.samples) < 3:
                    self.samples.append(short(plain))
        for sig, det in ctx.known_hits:
            ent = self.known.setdefault(sig, [0, det, short(plain, 1500)])
            ent[0] += 1

    def dump(self):
        return {
            "name": self.name, "evaluations": self.evaluations,
            "nontrivial": sorted(self.nontrivial_hashes),
            "labels": self.labels, "samples": self.samples,
            "known": self.known, "violation": self.violation,
            "error": self.error, "wall": self.wall,
            "exhaustive": self.exhaustive, "flaky": self.flaky,
        }


def run_one(suite, prop_id, known_open, plain, stats=None):
    """Run check on one case.  Returns ctx; raises Violation."""
    ctx = Ctx(prop_id, known_open)
    try:
        suite.check(from_plain(plain), ctx)
    except Violation:
        if stats is not None:
            stats.record(plain, ctx)
        raise
    except Exception as exc:  # noqa
        sig = exception_signature(prop_id, suite.name, exc)
        if sig is None:
            raise
        tb = "".join(traceback.format_exception(type(exc), exc,
                                                exc.__traceback__))[-3000:]
        if sig in known_open:
            ctx.known_hits.append((sig, tb[-500:]))
        else:
            if stats is not None:
                stats.record(plain, ctx)
            raise Violation(sig, tb) from None
    if stats is not None:
        stats.record(plain, ctx)
    return ctx


def run_suite_hypothesis(suite, prop_id, known_open, n_examples, seed, tier,
                         stats):
    import hypothesis
    from hypothesis import HealthCheck, Phase, given, settings

    shrink_budget = 30.0 if tier == "quick" else 240.0
    state = {"last": None, "first_fail_t": None, "best_hash": None,
             "sig": None, "other": set()}

    def body(case):
        plain = to_plain(case)
        if (state["first_fail_t"] is not None
                and time.time() - state["first_fail_t"] > shrink_budget):
            # shrink budget used up: report everything as failing so that the
            # shrinker converges at once; the best case found so far is kept
            raise Violation(state["sig"], "shrink budget exhausted")
        try:
            run_one(suite, prop_id, known_open, plain,
                    stats if state["first_fail_t"] is None else None)
        except Violation as v:
            if state["first_fail_t"] is None:
                state["first_fail_t"] = time.time()
                state["sig"] = v.signature
            elif v.signature != state["sig"]:
                # keep the shrinker on the first root cause; other signatures
                # are found by the other shards / later runs
                state["other"].add(v.signature)
                return
            state["last"] = (plain, v.signature, v.detail)
            state["best_hash"] = case_hash(plain)
            raise

    test = given(suite.strategy)(body)
    test = hypothesis.seed(seed)(test)
    test = settings(
        max_examples=n_examples, database=None, deadline=None,
        derandomize=False, report_multiple_bugs=False,
        suppress_health_check=list(HealthCheck),
        phases=[Phase.generate, Phase.shrink],
        verbosity=hypothesis.Verbosity.quiet,
    )(test)
    try:
        test()
    except Violation:
        pass
    except BaseException as exc:  # noqa
        name = type(exc).__name__
        if state["last"] is not None and name in (
                "Flaky", "FlakyFailure", "FlakyReplay", "FlakyStrategyDefinition"):
            stats.flaky = True
        elif isinstance(exc, (KeyboardInterrupt, SystemExit)):
            raise
        else:
            stats.error = "".join(traceback.format_exception(
                type(exc), exc, exc.__traceback__))[-4000:]
            return
    if state["last"] is not None:
        plain, sig, det = state["last"]
        stats.violation = {"signature": sig, "detail": det, "case": plain,
                           "suite": suite.name, "flaky": stats.flaky,
                           "seen_while_shrinking": sorted(state["other"])}


def run_suite_enumerated(suite, prop_id, known_open, shard, nshards, stats):
    stats.exhaustive = bool(suite.exhaustive)
    for i, case in enumerate(suite.cases()):
        if i % nshards != shard:
            continue
        plain = to_plain(case)
        try:
            run_one(suite, prop_id, known_open, plain, stats)
        except Violation as v:
            stats.violation = {"signature": v.signature, "detail": v.detail,
                               "case": plain, "suite": suite.name,
                               "flaky": False}
            return
        except Exception as exc:  # noqa
            stats.error = "".join(traceback.format_exception(
                type(exc), exc, exc.__traceback__))[-4000:]
            return


def load_prop(prop_id):
    mod = importlib.import_module("vp.props." + PROP_MODULES[prop_id])
    import typhon
    root = os.path.realpath(REPO) + os.sep
    if not os.path.realpath(typhon.__file__).startswith(root):
        raise HarnessError("typhon imported from %s, not from %s"
                           % (typhon.__file__, REPO))
    return mod


def shard_main(spec_path):
    with open(spec_path) as fh:
        spec = json.load(fh)
    prop_id, tier = spec["prop"], spec["tier"]
    shard, nshards, seed = spec["shard"], spec["nshards"], spec["seed"]
    warnings.simplefilter("ignore")
    import logging
    logging.disable(logging.CRITICAL)
    out = {"shard": shard, "suites": [], "error": None}
    try:
        mod = load_prop(prop_id)
        known_open, _ = load_known(prop_id)
        suites = [s for s in mod.suites(tier) if tier in s.tiers]
        only = spec.get("only")
        for idx, suite in enumerate(suites):
            if only and suite.name not in only:
                continue
            if suite.shards is not None and shard >= suite.shards:
                continue
            stats = SuiteStats(suite.name)
            t0 = time.time()
            if suite.strategy is not None:
                n = int(suite.examples[tier] * spec.get("scale", 1.0)) or 1
                run_suite_hypothesis(
                    suite, prop_id, known_open, n,
                    seed * 1000 + shard * 37 + idx, tier, stats)
            else:
                k = nshards if suite.shards is None else min(nshards,
                                                             suite.shards)
                run_suite_enumerated(suite, prop_id, known_open, shard, k,
                                     stats)
            stats.wall = time.time() - t0
            out["suites"].append(stats.dump())
    except BaseException as exc:  # noqa
        out["error"] = "".join(traceback.format_exception(
            type(exc), exc, exc.__traceback__))[-4000:]
    with open(spec["out"], "w") as fh:
        json.dump(out, fh)
    return 0


# --------------------------------------------------------------------------
# parent: spawn shards, merge, evidence, exit code
# --------------------------------------------------------------------------
def child_env():
    env = dict(os.environ)
    env["PYTHONHASHSEED"] = "0"
    extra = [os.path.realpath(REPO), HERE]
    deps = os.path.join(HERE, ".deps")
    if os.path.isdir(deps):
        extra.append(deps)
    env["PYTHONPATH"] = os.pathsep.join(
        extra + [p for p in env.get("PYTHONPATH", "").split(os.pathsep) if p])
    env.setdefault("OMP_NUM_THREADS", "1")
    env.setdefault("OPENBLAS_NUM_THREADS", "1")
    env.setdefault("MKL_NUM_THREADS", "1")
    env.setdefault("MPLBACKEND", "Agg")
    return env


def write_replay(prop_id, viol):
    os.makedirs(os.path.join(HERE, "replays"), exist_ok=True)
    doc = {"property": prop_id, "suite": viol["suite"],
           "signature": viol["signature"], "detail": viol["detail"],
           "case": viol["case"]}
    name = "%s-%s-%s.json" % (
        prop_id, re.sub(r"[^A-Za-z0-9]+", "_", viol["signature"])[:60],
        case_hash(viol["case"])[:8])
    path = os.path.join(HERE, "replays", name)
    with open(path, "w") as fh:
        json.dump(doc, fh, indent=1, sort_keys=True, default=repr)
    return os.path.join("replays", name)


def check_main(prop_id, tier, only=None):
    t0 = time.time()
    seed = int(os.environ.get("VERIF_SEED", "1") or "1")
    env = child_env()
    # settings of the property (read in a child, the parent never imports typhon)
    probe = subprocess.run(
        [sys.executable, "-c",
         "import json,sys;from vp.runner import load_prop;"
         "m=load_prop(%r);print('@@'+json.dumps({'q':getattr(m,'QUICK_SHARDS',4),"
         "'t':getattr(m,'THOROUGH_SHARDS',16),'rule':m.RULE,"
         "'ass':getattr(m,'ASSUMPTIONS',[]),'level':getattr(m,'LEVEL','exploration'),"
         "'guard':getattr(m,'GUARD_S',{})}))" % prop_id],
        env=env, cwd=HERE, capture_output=True, text=True)
    line = [l for l in probe.stdout.splitlines() if l.startswith("@@")]
    if probe.returncode != 0 or not line:
        print("INCONCLUSIVE property=%s harness error while loading:\n%s"
              % (prop_id, probe.stderr[-3000:]))
        return 2
    meta = json.loads(line[0][2:])
    nshards = int(os.environ.get("VERIF_SHARDS", 0)) or (
        meta["q"] if tier == "quick" else meta["t"])
    guard = meta["guard"].get(tier, 1500 if tier == "quick" else 6 * 3600)
    scale = float(os.environ.get("VERIF_SCALE", "1"))
    work = tempfile.mkdtemp(prefix="vp-%s-" % prop_id)
    procs = []
    try:
        for k in range(nshards):
            spec = {"prop": prop_id, "tier": tier, "shard": k,
                    "nshards": nshards, "seed": seed, "scale": scale,
                    "only": only, "out": os.path.join(work, "out%d.json" % k)}
            sp = os.path.join(work, "spec%d.json" % k)
            with open(sp, "w") as fh:
                json.dump(spec, fh)
            log = open(os.path.join(work, "log%d.txt" % k), "w")
            p = subprocess.Popen(
                [sys.executable, "-m", "vp.runner", "--shard", sp],
                env=env, cwd=HERE, stdout=log, stderr=subprocess.STDOUT)
            procs.append((k, p, spec, log))
        timed_out = []
        for k, p, spec, log in procs:
            left = max(1.0, guard - (time.time() - t0))
            try:
                p.wait(timeout=left)
            except subprocess.TimeoutExpired:
                p.kill()
                p.wait()
                timed_out.append(k)
            log.close()
        results, errors = [], []
        for k, p, spec, log in procs:
            if k in timed_out:
                errors.append("shard %d exceeded the wall-clock guard of %d s"
                              % (k, guard))
                continue
            if not os.path.exists(spec["out"]):
                with open(os.path.join(work, "log%d.txt" % k)) as fh:
                    errors.append("shard %d died (rc=%s): %s"
                                  % (k, p.returncode, fh.read()[-2000:]))
                continue
            with open(spec["out"]) as fh:
                res = json.load(fh)
            if res.get("error"):
                errors.append("shard %d: %s" % (k, res["error"]))
            results.append(res)
    finally:
        import shutil
        shutil.rmtree(work, ignore_errors=True)
    return merge_and_report(prop_id, tier, seed, nshards, meta, results,
                            errors, time.time() - t0)


def merge_and_report(prop_id, tier, seed, nshards, meta, results, errors,
                     wall):
    known_open, fixed = load_known(prop_id)
    evaluations = 0
    nontrivial = set()
    labels, per_suite, samples = {}, {}, []
    known_counts, violations, exhaustive = {}, {}, []
    for res in results:
        for s in res["suites"]:
            evaluations += s["evaluations"]
            nontrivial.update(s["nontrivial"])
            ps = per_suite.setdefault(s["name"], {
                "evaluations": 0, "nontrivial": set(), "wall_s": 0.0})
            ps["evaluations"] += s["evaluations"]
            ps["nontrivial"].update(s["nontrivial"])
            ps["wall_s"] = round(max(ps["wall_s"], s["wall"]), 2)
            if s["exhaustive"] and s["name"] not in exhaustive:
                exhaustive.append(s["name"])
            for lab, n in s["labels"].items():
                labels[lab] = labels.get(lab, 0) + n
            for smp in s["samples"]:
                if len(samples) < 6:
                    samples.append({"suite": s["name"], "case": smp})
            for sig, (n, det, smp) in s["known"].items():
                ent = known_counts.setdefault(sig, [0, det, smp])
                ent[0] += n
            if s["violation"]:
                violations.setdefault(s["violation"]["signature"],
                                      s["violation"])
            if s["error"]:
                errors.append("suite %s: %s" % (s["name"], s["error"]))
    for ps in per_suite.values():
        ps["distinct_nontrivial"] = len(ps.pop("nontrivial"))
    all_exhaustive = bool(per_suite) and all(n in exhaustive for n in per_suite)
    evidence = {
        "property_id": prop_id, "tier": tier, "seed": seed,
        "level": meta["level"],
        "coverage": {
            "evaluations": evaluations,
            "distinct_nontrivial": len(nontrivial),
            "rule": meta["rule"],
            "samples": samples,
            "labels": dict(sorted(labels.items())),
            "suites": per_suite,
            "exhaustive": all_exhaustive,
            "exhaustive_subspaces": exhaustive,
            "shards": nshards,
            "known_findings_hit": {k: v[0] for k, v in known_counts.items()},
            "violation_signatures": sorted(violations),
        },
        "assumptions": meta["ass"],
        "wall_s": round(wall, 2),
        "violations": len(violations),
    }
    # (sensitivity runs against a scratch tree keep the committed evidence)
    evdir = os.environ.get("VERIF_EVIDENCE_DIR") or os.path.join(
        HERE, "evidence")
    os.makedirs(evdir, exist_ok=True)
    with open(os.path.join(evdir, prop_id + ".json"), "w") as fh:
        json.dump(evidence, fh, indent=1, sort_keys=True, default=repr)
        fh.write("\n")

    for sig, what in sorted(known_open.items()):
        n = known_counts.get(sig, [0])[0]
        print("KNOWN-FINDING: property=%s %s [%s; matched %d generated cases "
              "in this run]" % (prop_id, what, sig, n))
    rc = 0
    for sig, viol in sorted(violations.items()):
        path = write_replay(prop_id, viol)
        print("VIOLATION property=%s replay=%s" % (prop_id, path))
        print("  signature: %s%s" % (sig, "  (flaky)" if viol.get("flaky") else ""))
        print("  detail: %s" % viol["detail"][:1500].replace("\n", "\n    "))
        if viol.get("seen_while_shrinking"):
            print("  other signatures seen while shrinking: %s"
                  % ", ".join(viol["seen_while_shrinking"]))
        rc = 1
    if rc == 0:
        if errors:
            print("INCONCLUSIVE property=%s harness errors:" % prop_id)
            for e in errors[:5]:
                print("  " + e.replace("\n", "\n  "))
            rc = 2
        elif len(nontrivial) < 2:
            print("INCONCLUSIVE property=%s: fewer than 2 non-trivial cases "
                  "were generated" % prop_id)
            rc = 2
    elif errors:
        print("  (additional harness errors: %d)" % len(errors))
    print("%s %s seed=%d shards=%d evaluations=%d distinct_nontrivial=%d "
          "wall=%.1fs -> %s" % (prop_id, tier, seed, nshards, evaluations,
                                 len(nontrivial), wall,
                                 {0: "OK", 1: "VIOLATION", 2: "INCONCLUSIVE"}[rc]))
    return rc


def replay_main(prop_id, path):
    env = child_env()
    if os.environ.get("_VP_REPLAY_CHILD") != "1":
        env["_VP_REPLAY_CHILD"] = "1"
        return subprocess.call(
            [sys.executable, "-m", "vp.runner", prop_id, "--replay", path],
            env=env, cwd=HERE)
    warnings.simplefilter("ignore")
    import logging
    logging.disable(logging.CRITICAL)
    with open(path) as fh:
        doc = json.load(fh)
    mod = load_prop(prop_id)
    known_open, _ = load_known(prop_id)
    suites = {s.name: s for t in ("quick", "thorough") for s in mod.suites(t)}
    suite = suites[doc["suite"]]
    try:
        ctx = run_one(suite, prop_id, known_open, doc["case"])
    except Violation as v:
        print("VIOLATION property=%s replay=%s" % (prop_id, path))
        print("  signature: %s" % v.signature)
        print("  detail: %s" % v.detail[:3000].replace("\n", "\n    "))
        return 1
    for sig, det in ctx.known_hits:
        print("KNOWN-FINDING: property=%s %s [%s]" % (
            prop_id, known_open[sig], sig))
    print("%s replay of %s: property held (labels: %s)" % (
        prop_id, path, ",".join(sorted(ctx.labels))))
    return 0


def main(argv):
    if len(argv) >= 2 and argv[0] == "--shard":
        return shard_main(argv[1])
    if len(argv) < 2:
        print(__doc__)
        return 2
    prop_id = argv[0].upper()
    if prop_id not in PROP_MODULES:
        print("unknown property " + prop_id)
        return 2
    if argv[1] == "--replay":
        return replay_main(prop_id, argv[2])
    tier = argv[1]
    if tier not in ("quick", "thorough"):
        print("tier must be quick or thorough")
        return 2
    only = None
    if len(argv) >= 4 and argv[2] == "--only":
        only = argv[3].split(",")
    try:
        return check_main(prop_id, tier, only)
    except HarnessError as exc:
        print("INCONCLUSIVE property=%s %s" % (prop_id, exc))
        return 2


if __name__ == "__main__":
    sys.exit(main(sys.argv[1:]))
