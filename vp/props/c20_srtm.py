"""C20 - SRTM30 elevation mosaics are seamless and match the tiles cell by cell.

World: ``SRTM30.get_tile`` is replaced (from outside, restored in ``finally``)
by a lazy synthetic tile whose pixel [r, c] holds
``global_row * 43200 + global_col + 1`` (0 therefore means "never filled").
Oracle: exact rational arithmetic (``fractions.Fraction``) on the float inputs
and the harness's own tile table.  The cache part runs the real ``get_tile``
against a temporary cache directory with ``download_tile`` replaced by a
counter that creates a sparse ``NAME.DEM`` carrying three marker pixels.
"""
import io
import math
import os
import shutil
import struct
import tempfile
import urllib.error
import urllib.request
import zipfile
from fractions import Fraction

import numpy as np
from hypothesis import strategies as st

from vp.runner import Suite

PROP_ID = "C20"
LEVEL = "exploration"
QUICK_SHARDS = 4
RULE = (
    "Rectangles (bounds as float / int / NumPy scalar / 0-d array, the same "
    "objects for all calls of a case) inside 60 S-90 N are drawn per axis as two grid lines of the "
    "1/120 degree grid (free, inside one tile, straddling a tile border, "
    "touching a border, at the outer limit, snapped to exactly representable "
    "lines, zero lines apart = thinner than a cell; 1-600 cells) plus a "
    "displacement per edge from {0, +-1e-9, +-1e-13, uniform within a cell}; "
    "every tile border segment, four-tile corner and outer limit is enumerated "
    "with aligned / unaligned / thin rectangles; boxes over 5-27 tiles "
    "(get_tiles, grids) and strips 1-3 cells thick across >= 3 tiles of a "
    "row or column (also elevation) are generated; all 27 tiles are enumerated "
    "for bounds -> grids; cache histories are lists of get_tile / evict / "
    "elevation operations against a warm or cold temporary cache directory; "
    "result histories are 2-4 requests (elevation / get_native_grids / "
    "get_grids; same, shifted by <= 3 cells, or another rectangle) after each "
    "of which the harness overwrites the returned arrays in place (+360, "
    "colatitude, zero, reverse, NaN) and requires results of different calls "
    "not to share memory; download-fault histories run the real "
    "download_tile against a harness urlopen serving zip archives, with "
    "generated transfers that break off after n bytes, followed by retries. "
    "Oracle = exact rational cell arithmetic on the float inputs and a "
    "synthetic tile whose pixels encode their global row and column.  "
    "Non-trivial = rectangle not aligned with the grid or crossing a tile "
    "border (rectangles); every tile (tile suite); a history with at least "
    "one cached and one missing request (cache); a later request checked "
    "after an in-place edit (results); a request that succeeds after a "
    "broken transfer of the same tile (download faults).  Distinct = "
    "distinct case hash."
)
ASSUMPTIONS = [
    "rectangles satisfy -60 <= lat_min < lat_max <= 90, -180 <= lon_min < "
    "lon_max <= 180 with at least 1e-9 degree between opposite edges",
    "an edge closer than 1e-9 cell to a grid line / tile border without lying "
    "exactly on it may be treated as lying on either side (float rounding of "
    "(90 - lat) / dlat and lon % 360); edges exactly on a line are strict",
    "cell centres returned as floats are compared with the exact centres with "
    "an absolute tolerance of 1e-10 degree",
    "SRTM30.get_tile is replaced by a lazy object that answers boolean-mask "
    "indexing (any other use materialises a real array); tiles of the table "
    "are all 6000 x 4800 (50 x 40 degrees)",
    "download faults: urllib.request.urlopen is replaced by a harness "
    "function; how a broken transfer surfaces is not prescribed (the "
    "injected error - ConnectionResetError in the middle of a transfer, "
    "URLError / HTTPError / TimeoutError / ConnectionRefusedError at "
    "connection time - or an internal retry are both accepted, but a "
    "returned result must be the exact mosaic and all its tiles must then "
    "be in the cache directory), "
    "only that cached tiles are never transferred, that a tile without "
    ".DEM in the directory is delivered correctly by the next undisturbed "
    "request, and that an intact left-over archive may be reused",
    "cache: the directory is typhon.topography._data_path set directly, or "
    "resolved by _get_data_path from TYPHON_DATA_PATH / XDG_CACHE_HOME in "
    "the process environment, or from TYPHON_DATA_PATH given only in the "
    "[environment] section of a configuration file (read into "
    "typhon.config.conf as typhon.config does for TYPHONRC; typhon's "
    "environment handler documents this fallback); the resolved directory "
    "must be the configured path or lie below it, TYPHON_DATA_PATH wins "
    "over XDG_CACHE_HOME; working directory and HOME are temporary",
    "bounds are passed as Python floats, ints (whole degrees), NumPy "
    "scalars or 0-d arrays (float64; float32 only for edges >= 0.19 cell "
    "away from every grid line) and must be left unchanged by every call",
]

NROWS = 18000           # rows of 1/120 degree between 90 N and 60 S
NCOLS = 43200
TILE_H = 6000
TILE_W = 4800
EPS = Fraction(1, 10**9)        # ambiguity band, in cells
CENTRE_TOL = 1e-10              # degrees


# --------------------------------------------------------------------------
# the harness's own tile table
# --------------------------------------------------------------------------
def _tile_table():
    out = []
    for lat_max in (90, 40, -10):
        for lon_min in range(-180, 180, 40):
            name = "%s%03d%s%02d" % ("w" if lon_min < 0 else "e", abs(lon_min),
                                     "n" if lat_max > 0 else "s", abs(lat_max))
            out.append((name, lat_max - 50, lon_min, lat_max, lon_min + 40))
    return out


TILES = _tile_table()
TILE_BY_NAME = {t[0]: t for t in TILES}


def tile_origin(name):
    """global row / column of pixel [0, 0] of the tile"""
    _, lat_min, lon_min, lat_max, lon_max = TILE_BY_NAME[name]
    return (90 - lat_max) * 120, (lon_min + 180) * 120


class LazyTile:
    """Stands for the 6000 x 4800 array of a tile; pixel [r, c] holds
    (row0 + r) * 43200 + (col0 + c) + 1."""

    shape = (TILE_H, TILE_W)
    ndim = 2
    dtype = np.dtype(np.int64)

    def __init__(self, name):
        self.name = name
        self.row0, self.col0 = tile_origin(name)

    def _materialise(self):
        rows = (self.row0 + np.arange(TILE_H, dtype=np.int64)) * NCOLS + 1
        cols = self.col0 + np.arange(TILE_W, dtype=np.int64)
        return rows[:, None] + cols[None, :]

    def __array__(self, dtype=None, copy=None):
        arr = self._materialise()
        return arr if dtype is None else arr.astype(dtype)

    def __getitem__(self, key):
        if (isinstance(key, np.ndarray) and key.dtype == np.bool_
                and key.shape == self.shape):
            # same as np.nonzero(key) (row-major order), but cheap for the
            # sparse masks of a mosaic
            rows = np.flatnonzero(key.any(axis=1))
            rr, c = np.nonzero(key[rows])
            r = rows[rr]
            return (self.row0 + r) * NCOLS + (self.col0 + c) + 1
        return self._materialise()[key]

    def __getattr__(self, attr):
        # anything else (ravel, T, astype ...) works on a real array
        if attr.startswith("__"):
            raise AttributeError(attr)
        return getattr(self._materialise(), attr)


class fake_tiles:
    """Context manager: SRTM30.get_tile -> LazyTile, restored afterwards."""

    def __init__(self, cls):
        self.cls = cls
        self.requested = []

    def __enter__(self):
        self.orig = self.cls.__dict__["get_tile"]

        def get_tile(name):
            self.requested.append(name)
            return LazyTile(name)

        self.cls.get_tile = staticmethod(get_tile)
        return self

    def __exit__(self, *exc):
        setattr(self.cls, "get_tile", self.orig)
        return False


# --------------------------------------------------------------------------
# exact oracle
# --------------------------------------------------------------------------
def allowed_first(y, n):
    """indices the first cell of the block may have when the lower-index edge
    of the rectangle lies at position y (in cells, Fraction)"""
    if y.denominator == 1:
        cand = {int(y)}
    else:
        k = round(y)
        cand = {k - 1, k} if abs(y - k) <= EPS else {math.floor(y)}
    return {c for c in cand if 0 <= c < n}


def allowed_last(y, n):
    if y.denominator == 1:
        cand = {int(y) - 1}
    else:
        k = round(y)
        cand = {k - 1, k} if abs(y - k) <= EPS else {math.ceil(y) - 1}
    return {c for c in cand if 0 <= c < n}


def on_line(y):
    return y.denominator == 1


def near_line(y):
    return abs(y - round(y)) <= EPS


class Rect:
    def __init__(self, case):
        self.lat_min = float(case["lat_min"])
        self.lat_max = float(case["lat_max"])
        self.lon_min = float(case["lon_min"])
        self.lon_max = float(case["lon_max"])
        f = Fraction
        self.L0, self.L1 = f(self.lat_min), f(self.lat_max)
        self.M0, self.M1 = f(self.lon_min), f(self.lon_max)
        if not (-60 <= self.L0 < self.L1 <= 90
                and -180 <= self.M0 < self.M1 <= 180):
            raise ValueError("generator produced an inadmissible rectangle %r"
                             % (case,))
        # positions in cells: rows from the north, columns from the west
        self.y_top = (90 - self.L1) * 120
        self.y_bot = (90 - self.L0) * 120
        self.x_lo = (self.M0 + 180) * 120
        self.x_hi = (self.M1 + 180) * 120

    def args(self):
        return self.lat_min, self.lon_min, self.lat_max, self.lon_max

    def edges(self):
        return [self.y_top, self.y_bot, self.x_lo, self.x_hi]

    def tiles(self):
        """-> (must, may): names of tiles certainly / possibly intersecting"""
        tol = EPS / 120

        def pert(v):
            return 0 if v.denominator == 1 else tol

        must, may = [], []
        for name, a0, b0, a1, b1 in TILES:
            lat_ov = min(self.L1, a1) - max(self.L0, a0)
            if lat_ov <= 0:
                continue
            lo_in, hi_in = self.M0 + pert(self.M0), self.M1 - pert(self.M1)
            lo_out, hi_out = self.M0 - pert(self.M0), self.M1 + pert(self.M1)
            if min(hi_in, b1) - max(lo_in, b0) > 0:
                must.append(name)
            if min(hi_out, b1) - max(lo_out, b0) > 0:
                may.append(name)
        return must, may


def check_axis(ctx, prefix, axis, vals, y_first, y_last, describe):
    """vals: returned coordinate vector.  -> (first index, count) or None"""
    n_axis = NROWS if axis == "lat" else NCOLS
    vals = np.asarray(vals)
    if vals.ndim != 1 or vals.size == 0:
        ctx.fail("%s/%s-empty" % (prefix, axis),
                 "%s -> %s vector of shape %r" % (describe(), axis, vals.shape))
        return None
    vals = vals.astype(float)
    if not np.all(np.isfinite(vals)):
        ctx.fail("%s/%s-not-finite" % (prefix, axis), describe())
        return None
    if axis == "lat":
        pos = (90.0 - vals) * 120.0 - 0.5
    else:
        pos = (vals + 180.0) * 120.0 - 0.5
    idx = np.rint(pos).astype(np.int64)
    if axis == "lat":
        exact = 90.0 - (idx + 0.5) / 120.0
    else:
        exact = -180.0 + (idx + 0.5) / 120.0
    dev = float(np.max(np.abs(vals - exact)))
    if dev > CENTRE_TOL:
        ctx.fail("%s/%s-not-cell-centres" % (prefix, axis),
                 "%s -> %s values up to %.3g degree away from a cell centre; "
                 "first values %r" % (describe(), axis, dev, vals[:4].tolist()))
        return None
    if vals.size > 1 and not np.all(np.diff(idx) == 1):
        k = int(np.nonzero(np.diff(idx) != 1)[0][0])
        ctx.fail("%s/%s-not-consecutive" % (prefix, axis),
                 "%s -> %s[%d:%d] = %r (%s; cells %r)"
                 % (describe(), axis, k, k + 2, vals[k:k + 2].tolist(),
                    "must descend by 1/120" if axis == "lat"
                    else "must ascend by 1/120", idx[k:k + 2].tolist()))
        return None
    first, last = int(idx[0]), int(idx[-1])
    ok_first = allowed_first(y_first, n_axis)
    ok_last = allowed_last(y_last, n_axis)
    side_a, side_b = ("north", "south") if axis == "lat" else ("west", "east")
    good = True
    if first not in ok_first:
        good = False
        what = "overshoots" if first < min(ok_first) else "misses"
        ctx.fail("%s/%s-%s-%s-edge" % (prefix, axis, what, side_a),
                 "%s -> first %s cell %d (centre %r), expected %s; the edge is "
                 "at cell position %s" % (describe(), axis, first, float(vals[0]),
                                          sorted(ok_first), float(y_first)))
    if last not in ok_last:
        good = False
        what = "overshoots" if last > max(ok_last) else "misses"
        ctx.fail("%s/%s-%s-%s-edge" % (prefix, axis, what, side_b),
                 "%s -> last %s cell %d (centre %r), expected %s; the edge is "
                 "at cell position %s" % (describe(), axis, last, float(vals[-1]),
                                          sorted(ok_last), float(y_last)))
    if not good:
        return None
    return first, int(vals.size)


def check_grids(ctx, prefix, rect, lats, lons):
    def describe():
        return "rectangle lat %r..%r lon %r..%r" % (
            rect.lat_min, rect.lat_max, rect.lon_min, rect.lon_max)
    a = check_axis(ctx, prefix, "lat", lats, rect.y_top, rect.y_bot, describe)
    b = check_axis(ctx, prefix, "lon", lons, rect.x_lo, rect.x_hi, describe)
    if a is None or b is None:
        return None
    return a, b


def label_rect(ctx, rect):
    edges = rect.edges()
    if all(on_line(e) for e in edges):
        ctx.label("exact-aligned", "aligned")
    elif all(near_line(e) for e in edges):
        ctx.label("aligned")
    else:
        ctx.label("unaligned")
    if any(near_line(e) and not on_line(e) for e in edges):
        ctx.label("edge-in-ambiguity-band")
    if any(on_line(e) for e in edges) and not all(on_line(e) for e in edges):
        ctx.label("some-edge-exactly-on-line")
    thin_lat = rect.y_bot - rect.y_top < 1
    thin_lon = rect.x_hi - rect.x_lo < 1
    if thin_lat or thin_lon:
        ctx.label("thin")
    if thin_lat and math.floor(rect.y_top) != math.ceil(rect.y_bot) - 1:
        ctx.label("thin-across-line")
    if thin_lon and math.floor(rect.x_lo) != math.ceil(rect.x_hi) - 1:
        ctx.label("thin-across-line")
    cells = max(rect.y_bot - rect.y_top, rect.x_hi - rect.x_lo)
    ctx.label("size<=4" if cells <= 4 else
              "size<=60" if cells <= 60 else "size<=602")
    # tiles of the exact rectangle
    bands_lat = {(90 - a1) // 50 for _, a0, b0, a1, b1 in TILES
                 if min(rect.L1, a1) - max(rect.L0, a0) > 0}
    bands_lon = {(b0 + 180) // 40 for _, a0, b0, a1, b1 in TILES
                 if min(rect.M1, b1) - max(rect.M0, b0) > 0}
    nlat, nlon = len(bands_lat), len(bands_lon)
    if nlat == 1 and nlon == 1:
        ctx.label("1-tile")
    if nlat == 2 and nlon == 1:
        ctx.label("2-tiles-lat")
    if nlat == 1 and nlon == 2:
        ctx.label("2-tiles-lon")
    if nlat == 2 and nlon == 2:
        ctx.label("4-tiles")
    if nlat * nlon == 3:
        ctx.label("3-tiles")
    if nlat * nlon > 4:
        ctx.label("%d-tiles" % (nlat * nlon), "more-than-4-tiles")
    if rect.M0 == -180:
        ctx.label("lon=-180")
    if rect.M1 == 180:
        ctx.label("lon=180")
    if rect.L1 == 90:
        ctx.label("lat=90")
    if rect.L0 == -60:
        ctx.label("lat=-60")
    borders_lat = {Fraction(v) for v in (-60, -10, 40, 90)}
    borders_lon = {Fraction(v) for v in range(-180, 181, 40)}
    if ({rect.L0, rect.L1} & borders_lat) or ({rect.M0, rect.M1} & borders_lon):
        ctx.label("touches-tile-border-exactly")
    tol = EPS / 120
    for v, bs in ((rect.L0, borders_lat), (rect.L1, borders_lat),
                  (rect.M0, borders_lon), (rect.M1, borders_lon)):
        if any(0 < abs(v - b) <= 10**3 * tol for b in bs):
            ctx.label("edge-within-1e-6-cell-of-tile-border")
    unaligned = not all(near_line(e) for e in edges)
    ctx.nontrivial = unaligned or nlat > 1 or nlon > 1


ARGTYPES = ["float", "int", "np.float64", "np.float32", "0d", "0d-f32"]


def make_args(rect, argtype):
    """the four bounds (lat_min, lon_min, lat_max, lon_max) as objects of the
    requested type; the values are exactly those of the oracle's rectangle"""
    vals = rect.args()
    if argtype == "int":
        out = [int(v) for v in vals]
    elif argtype == "np.float64":
        out = [np.float64(v) for v in vals]
    elif argtype == "np.float32":
        out = [np.float32(v) for v in vals]
    elif argtype == "0d":
        out = [np.array(v, dtype=np.float64) for v in vals]
    elif argtype == "0d-f32":
        out = [np.array(v, dtype=np.float32) for v in vals]
    else:
        out = [float(v) for v in vals]
    if [float(v) for v in out] != list(vals):
        raise ValueError("argument type %s cannot hold %r" % (argtype, vals))
    return out


def check_args_untouched(ctx, call, rect, argtype, args):
    """the caller's bound objects still hold the rectangle after the call"""
    now = [float(np.asarray(v)) for v in args]
    ctx.check(now == list(rect.args()), "arguments-modified/" + call, lambda: (
        "%s(lat_min, lon_min, lat_max, lon_max) called with %s bounds %r "
        "left the caller's objects at %r" % (call, argtype, rect.args(), now)))


def check_elevation(ctx, prefix, rect, lats, lons, elev, requested=()):
    """result of elevation() for the synthetic tiles against the oracle"""
    def describe():
        return "rectangle lat %r..%r lon %r..%r" % (
            rect.lat_min, rect.lat_max, rect.lon_min, rect.lon_max)

    block = check_grids(ctx, prefix, rect, lats, lons)
    if block is None:
        return False
    (r0, nr), (c0, nc) = block
    elev = np.asarray(elev)
    if elev.shape != (nr, nc):
        ctx.fail(prefix + "/shape", "%s -> elevation of shape %r for %d "
                 "latitudes and %d longitudes" % (describe(), elev.shape,
                                                  nr, nc))
        return False
    rows = (r0 + np.arange(nr, dtype=np.int64)) * NCOLS + 1
    cols = c0 + np.arange(nc, dtype=np.int64)
    expected = rows[:, None] + cols[None, :]
    wrong = elev != expected
    if wrong.any():
        i, j = (int(v[0]) for v in np.nonzero(wrong))
        val = elev[i, j]
        if val == 0:
            sig, txt = prefix + "/unfilled-pixel", "never filled (0)"
        else:
            sig = prefix + "/wrong-pixel"
            try:
                gr, gc = divmod(int(val) - 1, NCOLS)
                txt = "the value of global pixel (row %d, col %d)" % (gr, gc)
            except (ValueError, OverflowError):
                txt = repr(val)
        ctx.fail(sig, "%s -> elev[%d, %d] (lat %r, lon %r = global row %d, "
                 "col %d) is %s; %d of %d entries wrong; tiles requested %r"
                 % (describe(), i, j, float(lats[i]), float(lons[j]),
                    r0 + i, c0 + j, txt, int(wrong.sum()), wrong.size,
                    list(requested)))
        return False
    return True


def check_rect(case, ctx):
    from typhon.topography import SRTM30
    rect = Rect(case)
    label_rect(ctx, rect)

    def describe():
        return "rectangle lat %r..%r lon %r..%r" % (
            rect.lat_min, rect.lat_max, rect.lon_min, rect.lon_max)

    # the same bound objects are handed to all three calls
    argtype = case.get("argtype", "float")
    args = make_args(rect, argtype)
    ctx.label("args-" + argtype)

    # --- get_native_grids
    lats_g, lons_g = SRTM30.get_native_grids(*args)
    check_args_untouched(ctx, "get_native_grids", rect, argtype, args)
    check_grids(ctx, "native_grids", rect, lats_g, lons_g)

    # --- get_tiles
    got = list(SRTM30.get_tiles(*args))
    check_args_untouched(ctx, "get_tiles", rect, argtype, args)
    must, may = rect.tiles()
    if set(must) != set(may):
        ctx.label("tile-set-ambiguous")
    unknown = [t for t in got if t not in TILE_BY_NAME]
    ctx.check(not unknown, "get_tiles/unknown-name",
              lambda: "%s -> %r" % (describe(), got))
    ctx.check(len(got) == len(set(got)), "get_tiles/tile-twice",
              lambda: "%s -> %r" % (describe(), got))
    missing = [t for t in must if t not in got]
    extra = [t for t in got if t not in may]
    ctx.check(not missing, "get_tiles/missing-tile", lambda: (
        "%s -> %r, but the rectangle also intersects %r"
        % (describe(), got, missing)))
    ctx.check(not extra, "get_tiles/extra-tile", lambda: (
        "%s -> %r, but the rectangle does not intersect %r"
        % (describe(), got, extra)))

    # --- elevation
    if not case.get("elevation", True):
        ctx.label("without-elevation")
        return
    with fake_tiles(SRTM30) as fk:
        lats, lons, elev = SRTM30.elevation(*args)
    check_args_untouched(ctx, "elevation", rect, argtype, args)
    check_elevation(ctx, "elevation", rect, lats, lons, elev, fk.requested)
    if len(set(fk.requested)) > 1:
        n = len(set(fk.requested))
        ctx.label("mosaic-of-%d-tiles" % n if n <= 4
                  else "mosaic-of-5+-tiles")


# --------------------------------------------------------------------------
# rectangle generator
# --------------------------------------------------------------------------
def axis_strategy(n_lines, tile, lo_lim, exact=False):
    """Two edges along one axis; positions are (idx / 120 + lo_lim) degrees,
    idx = 0 .. n_lines; tile borders every `tile` lines.  exact: both edges
    on lines that floats represent exactly (multiples of 1/8 degree)."""
    hi_lim = lo_lim + n_lines // 120
    n_tiles = n_lines // tile

    delta = st.one_of(
        st.sampled_from([0.0, 0.0, 0.0, 1e-9, -1e-9, 1e-13, -1e-13]),
        st.floats(-1.0 / 120, 1.0 / 120, allow_nan=False),
        st.sampled_from([0.25, -0.25, 0.5, -0.5, 0.999, -0.999]).map(
            lambda v: v / 120))

    @st.composite
    def build(draw):
        mode = draw(st.sampled_from([
            "free", "free", "inside", "cross", "cross", "touch-lo", "touch-hi",
            "limit-lo", "limit-hi", "thin", "thin-on-line", "snap15"]))
        w = draw(st.one_of(st.integers(1, 4), st.integers(1, 60),
                           st.integers(1, 600)))
        d_lo, d_hi = draw(delta), draw(delta)
        if exact:
            near = draw(st.booleans())
            if near:        # next to a tile border / the outer limits
                a = tile * draw(st.integers(0, n_tiles)) \
                    + 15 * draw(st.integers(-40, 39))
                a = min(max(a, 0), n_lines - 15)
            else:
                a = 15 * draw(st.integers(0, n_lines // 15 - 1))
            b = min(n_lines, a + 15 * draw(st.sampled_from([1, 1, 2, 8, 40])))
            return [a / 120 + lo_lim, b / 120 + lo_lim]
        if mode == "free":
            a = draw(st.integers(0, n_lines - 1))
            b = min(n_lines, a + w)
        elif mode == "inside":
            t = draw(st.integers(0, n_tiles - 1))
            a = t * tile + draw(st.integers(0, tile - w))
            b = a + w
        elif mode == "cross":
            border = tile * draw(st.integers(1, n_tiles - 1))
            a = border - draw(st.integers(0, w))
            b = a + w
            if a == border or b == border:     # make it straddle
                a, b = border - 1, border + draw(st.integers(1, 3))
        elif mode == "touch-lo":
            a = tile * draw(st.integers(0, n_tiles - 1))
            b = a + w
            d_lo = 0.0
        elif mode == "touch-hi":
            b = tile * draw(st.integers(1, n_tiles))
            a = b - w
            d_hi = 0.0
        elif mode == "limit-lo":
            a, b, d_lo = 0, w, 0.0
        elif mode == "limit-hi":
            a, b, d_hi = n_lines - w, n_lines, 0.0
        elif mode == "thin":
            a = b = draw(st.one_of(
                st.integers(0, n_lines),
                st.integers(0, n_tiles).map(lambda k: k * tile)))
        elif mode == "thin-on-line":
            # both edges displaced from the same line in opposite directions
            a = b = draw(st.one_of(
                st.integers(1, n_lines - 1),
                st.integers(1, n_tiles - 1).map(lambda k: k * tile)))
            d_lo = -abs(d_lo) if d_lo else -1e-9
            d_hi = abs(d_hi) if d_hi else 1e-9
        else:  # snap15: lines that are exactly representable as floats
            a = 15 * draw(st.integers(0, n_lines // 15 - 1))
            b = min(n_lines, a + 15 * draw(st.sampled_from([1, 1, 2, 8, 40])))
            if draw(st.booleans()):
                d_lo = d_hi = 0.0
        lo = a / 120 + lo_lim + d_lo
        hi = b / 120 + lo_lim + d_hi
        lo = min(max(lo, float(lo_lim)), float(hi_lim))
        hi = min(max(hi, float(lo_lim)), float(hi_lim))
        if hi - lo < 1e-9:
            gap = draw(st.sampled_from([2e-9, 1e-6, 1e-3, 1 / 240, 1 / 121]))
            hi = lo + gap
            if hi > hi_lim:
                hi = float(hi_lim)
                lo = hi - gap
        return [lo, hi]

    return build()


def f32_axis(n_lines, lo_lim):
    """edges that float32 holds exactly and that stay >= 0.19 cell away from
    every grid line (float32 arithmetic inside typhon is good to 1e-3 cell)"""
    @st.composite
    def build(draw):
        a = draw(st.integers(0, n_lines - 1))
        b = min(n_lines - 1, a + draw(st.one_of(st.integers(0, 3),
                                                st.integers(0, 300))))
        fa = draw(st.floats(0.2, 0.8))
        fb = draw(st.floats(0.2, 0.8))
        lo = float(np.float32((a + fa) / 120 + lo_lim))
        hi = float(np.float32((b + fb) / 120 + lo_lim))
        if not lo < hi:
            lo, hi = (float(np.float32((a + 0.2) / 120 + lo_lim)),
                      float(np.float32((a + 0.8) / 120 + lo_lim)))
        return [lo, hi]
    return build()


def rect_cases():
    usual = st.sampled_from(["float", "float", "float", "np.float64",
                             "0d", "0d"])
    mixed = st.tuples(axis_strategy(NROWS, TILE_H, -60),
                      axis_strategy(NCOLS, TILE_W, -180), usual)
    exact = st.tuples(axis_strategy(NROWS, TILE_H, -60, exact=True),
                      axis_strategy(NCOLS, TILE_W, -180, exact=True), usual)
    # whole degrees, 1-5 degrees wide, passed as Python ints
    ints = st.tuples(
        st.tuples(st.integers(-60, 89), st.integers(1, 5)).map(
            lambda t: [t[0], min(90, t[0] + t[1])]),
        st.tuples(st.integers(-180, 179), st.integers(1, 5)).map(
            lambda t: [t[0], min(180, t[0] + t[1])]),
        st.just("int"))
    f32 = st.tuples(f32_axis(NROWS, -60), f32_axis(NCOLS, -180),
                    st.sampled_from(["np.float32", "0d-f32"]))
    return st.integers(0, 11).flatmap(
        lambda k: exact if k == 0 else ints if k == 1 else f32 if k == 2
        else mixed).map(lambda t: {
            "lat_min": t[0][0], "lat_max": t[0][1],
            "lon_min": t[1][0], "lon_max": t[1][1], "argtype": t[2]})


# --------------------------------------------------------------------------
# rectangles over more than four tiles
# --------------------------------------------------------------------------
@st.composite
def many_tile_cases(draw):
    """Large boxes over 6 .. 27 tiles (get_tiles / get_native_grids only) and
    strips 1-3 cells thick across >= 3 tiles of a row or column (also
    elevation: the mosaic stays small)."""
    delta = st.sampled_from([0.0, 0.0, 1e-9, -1e-9, 0.3 / 120, -0.6 / 120])

    def span(n_tiles, size, lo_lim, at_least):
        # from somewhere in tile a to somewhere in tile b, b - a + 1 >= at_least
        a = draw(st.integers(0, n_tiles - at_least))
        b = draw(st.integers(a + at_least - 1, n_tiles - 1))
        lo = a * size + draw(st.sampled_from([0.0, 0.0, 1.0, 17.25,
                                              size - 0.5, size - 1.0]))
        hi = b * size + draw(st.sampled_from([size, size, size - 1.0, 0.5,
                                              1.0, 23.75]))
        if hi - lo < 0.01:
            lo, hi = a * size, (b + 1) * size
        return [lo_lim + lo, lo_lim + hi]

    def thin(n_lines, tile, lo_lim):
        line = draw(st.one_of(
            st.integers(0, n_lines - 3),
            st.integers(1, n_lines // tile - 1).map(lambda k: k * tile - 1)))
        w = draw(st.integers(1, 3))
        lo = line / 120 + lo_lim + draw(delta)
        hi = (line + w) / 120 + lo_lim + draw(delta)
        lo = max(lo, float(lo_lim))
        hi = min(hi, float(lo_lim + n_lines // 120))
        return [lo, hi]

    kind = draw(st.sampled_from(["box", "box", "row-strip", "row-strip",
                                 "column-strip"]))
    if kind == "box":
        nlat = draw(st.integers(1, 3))
        lat = span(3, 50.0, -60, nlat)
        lon = span(9, 40.0, -180, 5 if nlat == 1 else 3)
    elif kind == "row-strip":
        lat = thin(NROWS, TILE_H, -60)
        lon = span(9, 40.0, -180, 3)
    else:
        lat = span(3, 50.0, -60, 3)
        lon = thin(NCOLS, TILE_W, -180)
    return {"lat_min": lat[0], "lat_max": lat[1],
            "lon_min": lon[0], "lon_max": lon[1],
            "argtype": draw(st.sampled_from(["float", "float", "0d"])),
            "elevation": kind != "box"}


# --------------------------------------------------------------------------
# enumerated: every border segment, corner and outer limit of the tile table
# --------------------------------------------------------------------------
def border_cases():
    c = 1.0 / 120
    lat_borders = [40, -10]
    lon_borders = list(range(-140, 180, 40))
    lat_mids = [65.0 + c / 2, 15.0, -35.0 - c / 3]
    lon_mids = [-160.0 + 40 * k + c / 7 for k in range(9)]

    def rect(lat0, lat1, lon0, lon1):
        return {"lat_min": lat0, "lat_max": lat1,
                "lon_min": lon0, "lon_max": lon1}

    # four-tile corners
    for la in lat_borders:
        for lo in lon_borders:
            yield rect(la - 2 * c, la + 2 * c, lo - 2 * c, lo + 2 * c)
            yield rect(la - 1.5 * c, la + 2.25 * c, lo - 2.75 * c, lo + 0.5 * c)
            yield rect(la - 0.3 * c, la + 0.2 * c, lo - 0.1 * c, lo + 0.4 * c)
    # vertical border segments
    for lo in lon_borders:
        for mid in lat_mids:
            yield rect(mid - 1.25 * c, mid + 2 * c, lo - 3 * c, lo + 2 * c)
            yield rect(mid, mid + 0.5 * c, lo - 0.75 * c, lo + 1.5 * c)
    # horizontal border segments
    for la in lat_borders:
        for mid in lon_mids:
            yield rect(la - 3 * c, la + 2 * c, mid - 1.25 * c, mid + 2 * c)
            yield rect(la - 1.5 * c, la + 0.75 * c, mid, mid + 0.5 * c)
    # outer limits
    for mid in lat_mids:
        yield rect(mid - c, mid + c, -180.0, -180.0 + 2.5 * c)
        yield rect(mid - c, mid + c, 180.0 - 2.5 * c, 180.0)
        yield rect(mid - c, mid + c, -180.0, -180.0 + 0.5 * c)
        yield rect(mid - c, mid + c, 180.0 - 0.5 * c, 180.0)
    for mid in lon_mids:
        yield rect(90.0 - 2.5 * c, 90.0, mid - c, mid + c)
        yield rect(-60.0, -60.0 + 2.5 * c, mid - c, mid + c)
        yield rect(90.0 - 0.5 * c, 90.0, mid - c, mid + c)
        yield rect(-60.0, -60.0 + 0.5 * c, mid - c, mid + c)
    # the four outer corners
    yield rect(90.0 - 1.5 * c, 90.0, -180.0, -180.0 + 1.5 * c)
    yield rect(90.0 - 1.5 * c, 90.0, 180.0 - 1.5 * c, 180.0)
    yield rect(-60.0, -60.0 + 1.5 * c, -180.0, -180.0 + 1.5 * c)
    yield rect(-60.0, -60.0 + 1.5 * c, 180.0 - 1.5 * c, 180.0)


# --------------------------------------------------------------------------
# all 27 tiles: bounds -> grids
# --------------------------------------------------------------------------
def tile_cases():
    for k in range(len(TILES)):
        yield {"tile": k}


def check_tile(case, ctx):
    from typhon.topography import SRTM30
    name, lat_min, lon_min, lat_max, lon_max = TILES[case["tile"]]
    ctx.label("band-" + name[4:])
    ctx.nontrivial = True
    names = [t[0] for t in SRTM30._tiles]
    ctx.check(sorted(names) == sorted(TILE_BY_NAME), "tile-table/names",
              lambda: "tile table names %r" % (names,))
    bounds = tuple(SRTM30.get_bounds(name))
    ctx.check(bounds == (lat_min, lon_min, lat_max, lon_max),
              "tile-table/bounds", lambda: "get_bounds(%r) = %r, expected %r"
              % (name, bounds, (lat_min, lon_min, lat_max, lon_max)))
    rect = Rect({"lat_min": lat_min, "lat_max": lat_max,
                 "lon_min": lon_min, "lon_max": lon_max})
    lats_r, lons_r = SRTM30.get_grids(name)
    blk = check_grids(ctx, "get_grids", rect, lats_r, lons_r)
    lats, lons = SRTM30.get_native_grids(lat_min, lon_min, lat_max, lon_max)
    check_grids(ctx, "native_grids", rect, lats, lons)
    if blk is not None:
        ctx.check(blk == ((tile_origin(name)[0], TILE_H),
                          (tile_origin(name)[1], TILE_W)),
                  "get_grids/wrong-block", lambda: "%s: %r" % (name, blk))
    for axis, a, b in (("lat", lats, lats_r), ("lon", lons, lons_r)):
        a, b = np.asarray(a), np.asarray(b)
        same = a.shape == b.shape and bool(
            np.all(np.abs(a - b) <= CENTRE_TOL))
        ctx.check(same, "tile-bounds/native-grids-differ-from-get_grids",
                  lambda: "%s %s: get_native_grids(bounds) has %d values "
                  "%r .. %r, get_grids %d values %r .. %r" % (
                      name, axis, a.size, a[:1].tolist(), a[-1:].tolist(),
                      b.size, b[:1].tolist(), b[-1:].tolist()))
    got = list(SRTM30.get_tiles(lat_min, lon_min, lat_max, lon_max))
    ctx.check(got == [name], "tile-bounds/get_tiles",
              lambda: "get_tiles(bounds of %s) = %r" % (name, got))
    # the synthetic tile through elevation(): an inner strip along each edge
    c = 1.0 / 120
    with fake_tiles(SRTM30) as fk:
        for la0, la1, lo0, lo1 in (
                (lat_max - 2 * c, lat_max, lon_min, lon_min + 3 * c),
                (lat_min, lat_min + 2 * c, lon_max - 3 * c, lon_max)):
            sub = Rect({"lat_min": la0, "lat_max": la1,
                        "lon_min": lo0, "lon_max": lo1})
            la, lo, el = SRTM30.elevation(la0, lo0, la1, lo1)
            b3 = check_grids(ctx, "elevation", sub, la, lo)
            if b3 is None:
                continue
            (r0, nr), (c0, nc) = b3
            exp = ((r0 + np.arange(nr, dtype=np.int64)) * NCOLS + 1)[:, None] \
                + (c0 + np.arange(nc, dtype=np.int64))[None, :]
            el = np.asarray(el)
            ctx.check(el.shape == exp.shape and bool(np.all(el == exp)),
                      "elevation/wrong-pixel", lambda: (
                          "tile %s corner strip lat %r..%r lon %r..%r: got %r "
                          "expected %r" % (name, la0, la1, lo0, lo1,
                                           el.tolist(), exp.tolist())))
    # Not claimed by the property (observed: the block bounds recomputed from
    # the cell centres are off by an ulp, so a neighbour that contributes no
    # pixel can be requested when the block ends on a tile border).
    if set(fk.requested) != {name}:
        ctx.label("neighbour-tile-requested-without-need")


# --------------------------------------------------------------------------
# histories on the results: the client edits what it got back in place
# --------------------------------------------------------------------------
SCRAMBLES = ["none", "add360", "colat", "zero", "reverse", "nan"]


def scramble(arr, kind):
    """in-place edits a client may apply to an array it was handed"""
    if kind == "add360":
        arr += 360
    elif kind == "colat":
        np.subtract(90, arr, out=arr)
    elif kind == "zero":
        arr[...] = 0
    elif kind == "reverse":
        arr[...] = arr[::-1].copy()
    elif kind == "nan":
        arr.fill(np.nan)


def tile_rect(k):
    name, lat_min, lon_min, lat_max, lon_max = TILES[k]
    return Rect({"lat_min": lat_min, "lat_max": lat_max,
                 "lon_min": lon_min, "lon_max": lon_max})


def check_results(case, ctx):
    """Every request of a sequence satisfies the property although the client
    has overwritten the arrays returned by the earlier requests."""
    from typhon.topography import SRTM30
    held = []       # (step, role, array, copy of its content)
    scrambled_before = False
    argtype = case.get("argtype", "float")
    ctx.label("args-" + argtype)
    bound_objects = {}      # one set of bound objects per distinct rectangle

    def bounds(rect):
        if rect.args() not in bound_objects:
            bound_objects[rect.args()] = make_args(rect, argtype)
        else:
            ctx.label("bound-objects-used-again")
        return bound_objects[rect.args()]
    try:
        with fake_tiles(SRTM30) as fk:
            for n, step in enumerate(case["steps"]):
                call = step["call"]
                ctx.label("call-" + call, "relation-" + step["relation"])
                prefix = "history/" + call
                if call == "get_grids":
                    rect = tile_rect(step["tile"])
                    lats, lons = SRTM30.get_grids(TILES[step["tile"]][0])
                    ok = check_grids(ctx, prefix, rect, lats, lons) is not None
                    arrays = [("lat", lats), ("lon", lons)]
                elif call == "native_grids":
                    rect = Rect(step["rect"])
                    args = bounds(rect)
                    lats, lons = SRTM30.get_native_grids(*args)
                    check_args_untouched(ctx, "get_native_grids", rect,
                                         argtype, args)
                    ok = check_grids(ctx, prefix, rect, lats, lons) is not None
                    arrays = [("lat", lats), ("lon", lons)]
                else:
                    rect = Rect(step["rect"])
                    del fk.requested[:]
                    args = bounds(rect)
                    lats, lons, elev = SRTM30.elevation(*args)
                    check_args_untouched(ctx, "elevation", rect, argtype, args)
                    ok = check_elevation(ctx, prefix, rect, lats, lons, elev,
                                         fk.requested)
                    arrays = [("lat", lats), ("lon", lons), ("elev", elev)]
                if ok and scrambled_before and n > 0:
                    ctx.nontrivial = True
                # results of different calls must be independent objects
                for role, arr in arrays:
                    if not isinstance(arr, np.ndarray):
                        continue
                    for m, role2, other, _ in held:
                        if np.shares_memory(arr, other) and (
                                arr.flags.writeable or other.flags.writeable):
                            ctx.fail("history/results-share-memory",
                                     "%s of step %d (%s) shares memory with "
                                     "the writable %s returned by step %d: %r"
                                     % (role, n, call, role2, m,
                                        case["steps"][:n + 1]))
                # the client edits its results in place
                for (role, arr), kind in zip(arrays, step["scramble"]):
                    if not isinstance(arr, np.ndarray):
                        continue
                    held.append((n, role, arr, arr.copy()))
                    if kind == "none":
                        continue
                    if not arr.flags.writeable:
                        ctx.label("result-read-only")
                        continue
                    scramble(arr, kind)
                    scrambled_before = True
                    ctx.label("edit-" + kind)
    finally:
        # were a result a view of state inside typhon, this puts it back
        for _, _, arr, saved in reversed(held):
            if arr.flags.writeable:
                arr[...] = saved


@st.composite
def result_cases(draw):
    def pack(r):
        return {"lat_min": r[0], "lat_max": r[1],
                "lon_min": r[2], "lon_max": r[3]}

    def shifted(r, di, dj):
        la0, la1 = r[0] + di / 120, r[1] + di / 120
        lo0, lo1 = r[2] + dj / 120, r[3] + dj / 120
        if la0 < -60 or la1 > 90:
            la0, la1 = r[0], r[1]
        if lo0 < -180 or lo1 > 180:
            lo0, lo1 = r[2], r[3]
        return [la0, la1, lo0, lo1]

    def tile_of(r):
        row = min(max(int((90 - r[1]) * 120), 0), NROWS - 1)
        col = min(max(int((r[2] + 180) * 120), 0), NCOLS - 1)
        return (row // TILE_H) * 9 + col // TILE_W

    rects = rect_cases().map(lambda c: [c["lat_min"], c["lat_max"],
                                        c["lon_min"], c["lon_max"]])
    base = draw(rects)
    n = draw(st.integers(2, 4))
    steps = []
    for i in range(n):
        relation = "first" if i == 0 else draw(st.sampled_from(
            ["same", "same", "shift", "shift", "other"]))
        if relation in ("first", "same"):
            r = base
        elif relation == "shift":
            r = shifted(base, draw(st.integers(-3, 3)),
                        draw(st.integers(-3, 3)))
        else:
            r = draw(rects)
        call = draw(st.sampled_from(["elevation", "native_grids",
                                     "native_grids", "get_grids"]))
        kinds = st.sampled_from(SCRAMBLES)
        step = {"call": call, "relation": relation,
                "scramble": [draw(kinds), draw(kinds), draw(kinds)]}
        if call == "get_grids":
            step["tile"] = tile_of(r)
        else:
            step["rect"] = pack(r)
        steps.append(step)
    return {"steps": steps,
            "argtype": draw(st.sampled_from(["float", "np.float64", "0d",
                                             "0d"]))}


# --------------------------------------------------------------------------
# cache histories
# --------------------------------------------------------------------------
def markers(k):
    """local (row, col, value) marker pixels written into the file of tile k"""
    return [(0, 0, 1000 + k),
            (TILE_H - 1, TILE_W - 1, -(2000 + k)),
            (100 + 200 * k, 4700 - 150 * k, 3000 + 7 * k)]


def write_tile_file(path, k):
    with open(path, "wb") as fh:
        fh.truncate(TILE_H * TILE_W * 2)
        for r, c, v in markers(k):
            fh.seek((r * TILE_W + c) * 2)
            fh.write(struct.pack(">h", v))


def global_markers():
    out = {}
    for k, t in enumerate(TILES):
        r0, c0 = tile_origin(t[0])
        for r, c, v in markers(k):
            out[(r0 + r, c0 + c)] = v
    return out


class InjectedFault(ConnectionResetError):
    """the harness cut a transfer"""


_ARCHIVES = {}


def tile_archive(k):
    """zip archive as served for tile k: NAME.DEM (full size, marker pixels)
    and a small header file; a pure function of k, built once per process"""
    if k not in _ARCHIVES:
        name = TILES[k][0].upper()
        raw = bytearray(TILE_H * TILE_W * 2)
        for r, c, v in markers(k):
            struct.pack_into(">h", raw, (r * TILE_W + c) * 2, v)
        buf = io.BytesIO()
        with zipfile.ZipFile(buf, "w", zipfile.ZIP_DEFLATED,
                             compresslevel=1) as zf:
            zf.writestr(name + ".HDR", "BYTEORDER M\nNROWS 6000\nNCOLS 4800\n")
            zf.writestr(name + ".DEM", bytes(raw))
        _ARCHIVES[k] = buf.getvalue()
    return _ARCHIVES[k]


class FakeResponse:
    """what urlopen returns: delivers `data`, or breaks off after `cut` bytes"""

    def __init__(self, data, cut=None, injected=None):
        self.data, self.cut, self.pos = data, cut, 0
        self.injected = injected if injected is not None else []

    def read(self, size=-1):
        end = len(self.data) if self.cut is None else self.cut
        if self.cut is not None and self.pos >= end:
            exc = InjectedFault("connection reset by peer after %d bytes"
                                % self.pos)
            self.injected.append(exc)
            raise exc
        if size is None or size < 0:
            size = end - self.pos
        chunk = self.data[self.pos:min(self.pos + size, end)]
        self.pos += len(chunk)
        return chunk

    def close(self):
        pass

    def __enter__(self):
        return self

    def __exit__(self, *exc):
        return False


def check_cache(case, ctx):
    import typhon.topography as topo
    from typhon.topography import SRTM30
    mode = case["mode"]
    ctx.label("dir-" + mode)
    tmp = tempfile.mkdtemp(prefix="vp-c20-")
    from typhon.config import conf
    env_keys = ("TYPHON_DATA_PATH", "XDG_CACHE_HOME", "HOME")
    old_env = {k: os.environ.get(k) for k in env_keys}
    old_path = topo._data_path
    old_cwd = os.getcwd()
    had_section = conf.has_section("environment")
    old_conf = {k: conf.get("environment", k, raw=True) for k in env_keys
                if had_section and conf.has_option("environment", k)}
    orig_download = SRTM30.__dict__["download_tile"]
    orig_urlopen = urllib.request.urlopen
    downloads = []
    net = case.get("net")          # None: download_tile replaced by a counter
    # transfer number -> permille of the archive after which the transfer
    # breaks off (int), or the way the connection fails (str)
    faults = {int(k): v for k, v in net["faults"]} if net else {}
    injected = []                  # exception objects raised by the network
    broken = []                    # names whose transfer was cut

    def urlopen(url, *args, **kwargs):
        """the network: serves the archive of the tile named in the URL"""
        url = getattr(url, "full_url", url)
        hit = [i for i, t in enumerate(TILES) if t[0] in str(url).lower()]
        if not hit:
            raise urllib.error.URLError("no such tile: %r" % (url,))
        n = len(downloads)
        downloads.append(TILES[hit[0]][0])
        data = tile_archive(hit[0])
        if n in faults:
            broken.append(TILES[hit[0]][0])
            how = faults[n]
            if isinstance(how, str):
                # no connection: nothing is transferred at all
                ctx.label("connect-fails-" + how)
                exc = {
                    "url": lambda: urllib.error.URLError(
                        OSError(101, "Network is unreachable")),
                    "http": lambda: urllib.error.HTTPError(
                        str(url), 503, "Service Unavailable", None, None),
                    "timeout": lambda: TimeoutError("timed out"),
                    "refused": lambda: ConnectionRefusedError(
                        111, "Connection refused"),
                }[how]()
                injected.append(exc)
                raise exc
            ctx.label("transfer-cut")
            return FakeResponse(data, len(data) * int(how) // 1000, injected)
        return FakeResponse(data)

    def download_tile(name):
        downloads.append(name)
        k = [i for i, t in enumerate(TILES) if t[0] == name]
        if not k:
            raise AssertionError("download of unknown tile %r" % (name,))
        write_tile_file(os.path.join(topo._get_data_path(),
                                     (name + ".dem").upper()), k[0])

    try:
        # Nothing of the surroundings decides: the working directory and HOME
        # lie in the temporary directory, the two variables are neither in
        # the process environment nor in typhon's configuration.
        os.chdir(tmp)
        os.makedirs(os.path.join(tmp, "home"))
        os.environ["HOME"] = os.path.join(tmp, "home")
        for k in env_keys[:2]:
            os.environ.pop(k, None)
            if had_section:
                conf.remove_option("environment", k)
        configured = os.path.join(tmp, "data")
        if mode == "attr":
            configured = topo._data_path = os.path.join(tmp, "cache")
            os.makedirs(topo._data_path)
        else:
            topo._data_path = None
            if mode == "env-typhon":
                os.environ["TYPHON_DATA_PATH"] = configured
            elif mode == "env-xdg":
                os.environ["XDG_CACHE_HOME"] = configured
            else:
                # TYPHON_DATA_PATH given only in the configuration file, read
                # the way typhon.config reads the file named by TYPHONRC
                rc = os.path.join(tmp, "typhonrc")
                with open(rc, "w") as fh:
                    fh.write("[environment]\nTYPHON_DATA_PATH: %s\n"
                             % configured)
                conf.read(rc)
            if case.get("xdg_too") and mode != "env-xdg":
                # TYPHON_DATA_PATH takes precedence over XDG_CACHE_HOME
                os.environ["XDG_CACHE_HOME"] = os.path.join(tmp, "xdg")
                ctx.label("xdg-set-as-well")
        cache_dir = topo._get_data_path()
        real = os.path.realpath(cache_dir)
        inside = real == os.path.realpath(configured) or real.startswith(
            os.path.realpath(configured) + os.sep)
        ctx.check(inside and os.path.isdir(cache_dir),
                  "cache/directory-not-the-configured-one",
                  "mode %s, configured %r: _get_data_path() = %r"
                  % (mode, configured, cache_dir))
        if not inside:
            return
        if net:
            urllib.request.urlopen = urlopen
            ctx.label("real-download_tile")
        else:
            SRTM30.download_tile = staticmethod(download_tile)
        cached = set()
        for k in case["warm"]:
            write_tile_file(os.path.join(cache_dir,
                                         TILES[k][0].upper() + ".DEM"), k)
            cached.add(k)
        ctx.label("warm" if cached else "cold")
        gm = None
        seen_hit = seen_miss = recovered = False
        retry_pending = set()
        for step, op in enumerate(case["ops"]):
            before = len(downloads)
            if op["op"] == "evict":
                path = os.path.join(cache_dir, TILES[op["tile"]][0].upper()
                                    + ".DEM")
                if os.path.exists(path):
                    os.remove(path)
                    ctx.label("evict-cached")
                if op.get("archive"):
                    for fn in os.listdir(cache_dir):
                        if fn.lower() == TILES[op["tile"]][0] + ".dem.zip":
                            os.remove(os.path.join(cache_dir, fn))
                            ctx.label("evict-archive")
                cached.discard(op["tile"])
                continue
            n_broken = len(broken)
            failed = False
            if op["op"] == "get":
                k = op["tile"]
                name = TILES[k][0]
                need = [] if k in cached else [name]
                may_idx = needed_idx = [k]
                try:
                    arr = SRTM30.get_tile(name)
                except OSError as exc:
                    if not any(exc is e for e in injected):
                        raise
                    failed = True
                if not failed:
                    arr = np.asarray(arr)
                    ok = arr.shape == (TILE_H, TILE_W) and all(
                        int(arr[r, c]) == v for r, c, v in markers(k)) \
                        and int(np.count_nonzero(arr)) == 3
                    ctx.check(ok, "cache/get_tile-wrong-content", lambda: (
                        "step %d get_tile(%r): shape %r, marker pixels %r, "
                        "expected %r" % (
                            step, name, arr.shape,
                            [int(arr[r, c]) for r, c, _ in markers(k)]
                            if arr.shape == (TILE_H, TILE_W) else None,
                            markers(k))))
            else:   # elevation around a marker pixel
                k = op["tile"]
                r0t, c0t = tile_origin(TILES[k][0])
                mr, mc, _ = markers(k)[op["marker"]]
                up, down, left, right = op["ext"]
                ra = max(0, r0t + mr - up)
                rb = min(NROWS - 1, r0t + mr + down)
                ca = max(0, c0t + mc - left)
                cb = min(NCOLS - 1, c0t + mc + right)
                lat_max = 90 - (ra + 0.25) / 120
                lat_min = 90 - (rb + 0.75) / 120
                lon_min = -180 + (ca + 0.25) / 120
                lon_max = -180 + (cb + 0.75) / 120
                needed_idx = sorted({(r // TILE_H) * 9 + (c // TILE_W)
                                     for r in (ra, rb) for c in (ca, cb)})
                need = [TILES[i][0] for i in needed_idx if i not in cached]
                # a neighbour touching the block with its border only may be
                # requested as well (block bounds are recomputed in floats)
                may_idx = sorted({(r // TILE_H) * 9 + (c // TILE_W)
                                  for r in (max(ra - 1, 0),
                                            min(rb + 1, NROWS - 1))
                                  for c in (max(ca - 1, 0),
                                            min(cb + 1, NCOLS - 1))})
                ctx.label("elevation-%d-tiles" % len(needed_idx))
                try:
                    lats, lons, elev = SRTM30.elevation(lat_min, lon_min,
                                                        lat_max, lon_max)
                except OSError as exc:
                    if not any(exc is e for e in injected):
                        raise
                    failed = True
                if not failed:
                    rect = Rect({"lat_min": lat_min, "lat_max": lat_max,
                                 "lon_min": lon_min, "lon_max": lon_max})
                    blk = check_grids(ctx, "elevation", rect, lats, lons)
                    if blk is not None:
                        (r0, nr), (c0, nc) = blk
                        if gm is None:
                            gm = global_markers()
                        exp = np.zeros((nr, nc))
                        for i in range(nr):
                            for j in range(nc):
                                exp[i, j] = gm.get((r0 + i, c0 + j), 0)
                        elev = np.asarray(elev)
                        ctx.check(
                            elev.shape == exp.shape
                            and bool(np.all(elev == exp)),
                            "cache/elevation-differs-from-files", lambda: (
                                "step %d elevation(%r, %r, %r, %r): got %r, "
                                "the cached files hold %r" % (
                                    step, lat_min, lon_min, lat_max, lon_max,
                                    elev.tolist(), exp.tolist())))
            new = downloads[before:]
            cut = broken[n_broken:]
            cached_names = sorted(TILES[i][0] for i in cached)
            again = [n for n in new if n in cached_names]
            ctx.check(not again, "cache/download-although-cached", lambda: (
                "step %d %r: downloaded %r while the cache held %r"
                % (step, op, new, cached_names)))
            allowed = [TILES[i][0] for i in may_idx]
            if cut:
                # The property does not say how a network failure surfaces;
                # whatever was transferred completely counts as cached, the
                # tile of the broken transfer does not (unless typhon fetched
                # it again by itself and the request succeeded).
                ctx.label("transfer-broke-off",
                          "broke-off-raised" if failed else "broke-off-retried")
                ctx.check(set(new) <= set(allowed), "cache/wrong-downloads",
                          lambda: "step %d %r: transfers %r" % (step, op, new))
                done = set(new) - set(cut)
                if not failed:
                    # a result was returned: every tile it is made of must
                    # have been obtained after all (never data for a tile
                    # that could not be fetched)
                    lacking = [TILES[i][0] for i in needed_idx
                               if not os.path.exists(os.path.join(
                                   cache_dir, TILES[i][0].upper() + ".DEM"))]
                    ctx.check(not lacking,
                              "cache/result-although-tile-not-obtained",
                              lambda: "step %d %r returned a result although "
                              "the download of %r failed (%r) and %r is not "
                              "in the cache directory" % (
                                  step, op, cut, injected[-1:], lacking))
                    done |= {TILES[i][0] for i in needed_idx}
                else:
                    retry_pending.update(cut)
                cached.update(i for i, t in enumerate(TILES) if t[0] in done)
                continue
            if need:
                seen_miss = True
            if len(need) < len(needed_idx):
                seen_hit = True
            if net:
                # an intact archive left in the directory may be used again
                # instead of a transfer; a transfer is never required here
                good = len(new) == len(set(new)) and set(new) <= set(allowed)
                if set(need) - set(new):
                    ctx.label("served-without-transfer")
            else:
                good = len(new) == len(set(new)) \
                    and set(need) <= set(new) <= set(allowed)
            ctx.check(good, "cache/wrong-downloads", lambda: (
                "step %d %r: downloaded %r, expected %r (cache "
                "held %r)" % (step, op, new, need, cached_names)))
            if set(new) - set(need):
                ctx.label("neighbour-tile-downloaded-without-need")
            if retry_pending & {TILES[i][0] for i in needed_idx}:
                retry_pending -= {TILES[i][0] for i in needed_idx}
                recovered = True
                ctx.label("request-after-broken-transfer-succeeded")
            cached.update(needed_idx)
            cached.update(i for i, t in enumerate(TILES) if t[0] in new)
            for i in needed_idx:
                ctx.check(os.path.exists(os.path.join(
                    cache_dir, TILES[i][0].upper() + ".DEM")),
                    "cache/file-missing-after-request",
                    "step %d: %s" % (step, TILES[i][0]))
        ctx.nontrivial = recovered if net else (seen_hit and seen_miss)
        if seen_hit:
            ctx.label("request-cached")
        if seen_miss:
            ctx.label("request-missing")
    finally:
        setattr(SRTM30, "download_tile", orig_download)
        urllib.request.urlopen = orig_urlopen
        topo._data_path = old_path
        os.chdir(old_cwd)
        for k in env_keys:
            if conf.has_section("environment"):
                conf.remove_option("environment", k)
        if not had_section:
            conf.remove_section("environment")
        for k, v in old_conf.items():
            conf.set("environment", k, v)
        for k, v in old_env.items():
            if v is None:
                os.environ.pop(k, None)
            else:
                os.environ[k] = v
        shutil.rmtree(tmp, ignore_errors=True)


@st.composite
def cache_cases(draw):
    mode = draw(st.sampled_from(["attr", "attr", "env-typhon", "env-xdg",
                                 "config-file", "config-file"]))
    pool = draw(st.lists(st.integers(0, 26), min_size=1, max_size=4,
                         unique=True))
    tile = st.sampled_from(pool)
    warm = draw(st.lists(tile, max_size=3, unique=True))
    op = st.one_of(
        st.fixed_dictionaries({"op": st.just("get"), "tile": tile}),
        st.fixed_dictionaries({"op": st.just("get"), "tile": tile}),
        st.fixed_dictionaries({"op": st.just("evict"), "tile": tile}),
        st.fixed_dictionaries({
            "op": st.just("elevation"), "tile": tile,
            "marker": st.integers(0, 2),
            "ext": st.lists(st.integers(0, 2), min_size=4, max_size=4)}))
    ops = draw(st.lists(op, min_size=1, max_size=7))
    return {"mode": mode, "warm": sorted(warm), "ops": ops,
            "xdg_too": draw(st.booleans())}


@st.composite
def download_cases(draw):
    """the real download_tile against a harness network with broken transfers"""
    mode = draw(st.sampled_from(["attr", "attr", "env-typhon", "env-xdg",
                                 "config-file"]))
    pool = draw(st.lists(st.integers(0, 26), min_size=1, max_size=2,
                         unique=True))
    tile = st.sampled_from(pool)
    warm = draw(st.lists(tile, max_size=draw(st.sampled_from([0, 0, 0, 1])),
                         unique=True))
    op = st.one_of(
        st.fixed_dictionaries({"op": st.just("get"), "tile": tile}),
        st.fixed_dictionaries({"op": st.just("get"), "tile": tile}),
        st.fixed_dictionaries({"op": st.just("get"), "tile": tile}),
        st.fixed_dictionaries({"op": st.just("evict"), "tile": tile,
                               "archive": st.booleans()}),
        st.fixed_dictionaries({
            "op": st.just("elevation"), "tile": tile,
            "marker": st.integers(0, 2),
            "ext": st.lists(st.integers(0, 2), min_size=4, max_size=4)}))
    # a request of a cold tile first and the same tile again at the end, so
    # that the broken transfer 0 is usually followed by a retry
    first = draw(op.filter(lambda o: o["op"] != "evict"))
    ops = [first] + draw(st.lists(op, min_size=0, max_size=4)) \
        + [{"op": "get", "tile": first["tile"]}]
    cut = st.one_of(st.sampled_from([0, 1, 500, 999]), st.integers(0, 999))
    how = st.booleans().flatmap(lambda b: st.sampled_from(
        ["url", "url", "http", "timeout", "refused"]) if b else cut)
    faults = draw(st.dictionaries(st.integers(1, 3), how, max_size=1))
    if draw(st.integers(0, 5)) > 0:
        faults[0] = draw(how)
    return {"mode": mode, "warm": sorted(warm), "ops": ops,
            "xdg_too": draw(st.booleans()),
            "net": {"faults": sorted([k, v] for k, v in faults.items())}}


def suites(tier):
    return [
        Suite("rectangles", check_rect, strategy=rect_cases(),
              examples={"quick": 200, "thorough": 4000}),
        Suite("tile-borders-enumerated", check_rect, cases=border_cases),
        Suite("many-tiles", check_rect, strategy=many_tile_cases(),
              examples={"quick": 12, "thorough": 250}),
        Suite("tiles-exhaustive", check_tile, cases=tile_cases,
              exhaustive=True),
        Suite("cache-histories", check_cache, strategy=cache_cases(),
              examples={"quick": 20, "thorough": 300}),
        Suite("result-histories", check_results, strategy=result_cases(),
              examples={"quick": 40, "thorough": 800}),
        Suite("download-faults", check_cache, strategy=download_cases(),
              examples={"quick": 10, "thorough": 120}),
    ]
