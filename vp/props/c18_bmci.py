"""C18 - BMCI estimates are the importance-weighted statistics of its database.

Oracle: chi-square values from a long-double Cholesky factorisation of S,
weighted sums over the whole database in numpy.longdouble, with tolerances
derived per case from the rounding error of typhon's double-precision
chi-square (see ASSUMPTIONS).
"""
import numpy as np
from hypothesis import strategies as st

from vp.gen import c17_matrices as GM
from vp.gen import c19_samples as GS
from vp.runner import Suite

PROP_ID = "C18"
LEVEL = "exploration"
QUICK_SHARDS = 4
RULE = (
    "database of 1-600 entries (thorough 5000), 1-10 channels: y_i = centre "
    "+ L z_i with L the Cholesky factor of the drawn SPD covariance S "
    "(diagonal / correlated / scalar, eigenvalues spread over up to 6 "
    "decades around 1e-2..1e2) and z_i drawn in [-3,3]^m times a spread in "
    "{0.1,0.3,1,3}, so that chi-square distances are of order m*spread^2; "
    "duplicated rows; x lattice / unit / heavy-tailed / constant; 1-3 "
    "observations: identical to an entry, near an entry, at the centre, at "
    "the edge, far outside (all weights underflow), in the underflow "
    "transition; x2_max in {-1 (also by default), 0, small, large}; the "
    "same checks on a permuted copy of the database; y stored as float64 / "
    "float32 / int16 / int32 / int64 (integer databases with a noise of a "
    "few counts) and x as float64 / float32 / int32 / int64.  History on "
    "the one object: after all calls every returned array (predict, weights, "
    "cdf, predict_quantiles for every x2_max, the unrestricted window among "
    "them) must not alias the object's arrays or another result; all of "
    "them are overwritten in place, the calls are repeated and must give "
    "identical answers with unchanged object state.  Observations are "
    "given as float64 / float32 / int16 / int32 / int64 arrays (values "
    "representable), C-ordered, Fortran-ordered or as strided view (also "
    "the database y); the quantile fractions come in drawn order "
    "(unordered, ascending or descending, with repeats): result[j] must be "
    "the tau_j quantile and permuting the request permutes the result.  Oracle = long-double "
    "weighted sums over the whole database.  Non-trivial = at least 2 "
    "entries with weight > 1e-12 and some x2_max >= 0 that cuts at least "
    "one entry.  Distinct = distinct case hash."
)
ASSUMPTIONS = [
    "y (n,m), x (n,), s_o (m,m) float ndarrays; s_o exactly symmetric, "
    "positive definite, condition number <= 1e6",
    "the attributes BMCI.y / BMCI.x (documented) hold the database in the "
    "order that the indices returned by weights() refer to; this is checked "
    "(they must be a pair-preserving permutation of the input)",
    "typhon evaluates chi-square in double precision with inv(S): its "
    "chi-square may differ from the exact one by Delta_i = 32 (m+2) u "
    "cond(S) |dy_i|^2 / lambda_min(S) + 8 u (1 + chi2_i) (u = 2^-53; the "
    "largest deviation measured on 4000 random cases was 5 % of this).  "
    "Tolerances for weights, mean, std, cdf follow rigorously from "
    "multiplying each weight by exp(+-Delta_i/2); plus 64 n u max|x| for "
    "the summations",
    "x values are 0 or >= 1e-100 in magnitude; weights below 2.2e-308 are "
    "denormal: each weight, each product x_i w_i and the sums carry an "
    "absolute error of up to 5e-324, which enters the tolerances divided by "
    "the total weight (it only matters when all weights are < 1e-290)",
    "weights underflow in double precision near chi2/2 = 745: NaN is "
    "demanded when min chi2/2 over the window > 746 (+Delta), a number when "
    "it is < 700; in between both are accepted (label underflow-transition)",
    "an entry may be missing from the chi-square window only if its exact "
    "chi-square is > x2_max (also for databases stored as float32, whose "
    "projections typhon computed in single precision before its fix)",
    "database and observation types are combined so that NumPy's common "
    "type for y_database - y_obs is float64 or a 32/64-bit integer (e.g. "
    "float32 with float32 or int16 would be subtracted in single "
    "precision)",
    "the database may be stored as float64, float32 or integer arrays (y "
    "and x independently); observations are float64 and in general not "
    "representable in the storage type; the oracle uses the exact stored "
    "values",
]

LD = np.longdouble
U = 2.0 ** -53


# --------------------------------------------------------------------------
# generation
# --------------------------------------------------------------------------
@st.composite
def bmci_cases(draw, large=600):
    m = draw(st.one_of(st.integers(1, 3), st.integers(1, 10)))
    # storage type of the database (digitised / single precision data)
    ydtype = draw(st.sampled_from(["float64"] * 5 + [
        "float32", "float32", "int16", "int32", "int64"]))
    xdtype = draw(st.sampled_from(["float64"] * 4 + [
        "float32", "int32", "int64"]))
    if ydtype.startswith("int"):
        # noise of a few counts, so that whole numbers resolve the weights
        Sd = draw(GM.spd(m, max_spread_decades=2.0, scales=(1.0, 2.0)))
    else:
        Sd = draw(GM.spd(m, max_spread_decades=6.0, scales=(-2.0, 2.0)))
    S = np.array(Sd["matrix"], dtype=float).reshape(m, m)
    L = np.linalg.cholesky(S)
    if draw(st.integers(0, 9)) < 7:
        n = draw(st.integers(1, max(1, min(40, 120 // m))))
    else:
        n = draw(st.integers(20, large))
    spread = draw(st.sampled_from([0.1, 0.3, 1.0, 1.0, 3.0]))
    zel = st.one_of(st.floats(-3.0, 3.0, allow_nan=False),
                    st.integers(-3, 3).map(float))
    if n * m <= 120:
        flat = draw(st.lists(zel, min_size=n * m, max_size=n * m))
        z = np.array(flat, dtype=float).reshape(n, m)
    else:
        pool = draw(st.lists(zel, min_size=61, max_size=61))
        z = np.array(GS.fill_matrix(pool, n, m, draw(st.integers(1, 60)),
                                    draw(st.integers(1, 60)),
                                    draw(st.integers(0, 60))), dtype=float)
    z = z * spread
    centre = np.array(draw(st.lists(st.sampled_from(
        [0.0, 0.0, 1.0, -7.5, 100.0, 250.0]), min_size=m, max_size=m)))
    y = centre + z @ L.T
    if ydtype.startswith("int"):
        y = np.round(y)
    elif ydtype == "float32":
        y = y.astype(np.float32).astype(float)
    # x
    xkind = draw(st.sampled_from(["lattice", "unit", "heavy", "constant",
                                  "positive"]))
    if xkind == "constant":
        x = [draw(st.sampled_from([0.0, 1.0, -2.5, 1e6]))] * n
    else:
        pool = draw(GS.value_pool(xkind, 3, 30))
        x = GS.tile(pool, n, draw(st.integers(1, 29)),
                    draw(st.integers(0, 29)),
                    draw(st.sampled_from([0.0, 0.0, 0.5])))
    x = np.array(x, dtype=float)
    x[np.abs(x) < 1e-100] = 0.0      # products with weights must not underflow
    if xdtype.startswith("int"):
        x = np.round(x)
        if np.abs(x).max() > 2e9:
            xdtype = "int64"
    elif xdtype == "float32":
        x = x.astype(np.float32).astype(float)
        x[np.abs(x) < 1e-30] = 0.0
    # duplicates
    ndup = draw(st.integers(0, 3)) if n > 1 else 0
    dup = False
    for _ in range(ndup):
        i = draw(st.integers(0, n - 1))
        j = draw(st.integers(0, n - 1))
        if i != j:
            y[i] = y[j]
            dup = True
            if draw(st.booleans()):
                x[i] = x[j]
    # observations
    obs = []
    unit = st.lists(st.floats(-1.0, 1.0, allow_nan=False), min_size=m,
                    max_size=m)
    for _ in range(draw(st.integers(1, 3))):
        kind = draw(st.sampled_from(
            ["entry", "entry", "near", "near", "near", "centre", "edge",
             "far", "transition"]))
        i = draw(st.integers(0, n - 1))
        d = np.array(draw(unit))
        if kind == "entry":
            o = y[i].copy()
        elif kind == "near":
            o = y[i] + L @ (d * draw(st.sampled_from([0.1, 0.5, 1.0, 2.0])))
        elif kind == "centre":
            o = centre + L @ (d * 0.5)
        elif kind == "edge":
            o = centre + L @ (np.sign(d + 1e-9) * 3.0 * spread * 1.1)
        elif kind == "far":
            nd = max(np.linalg.norm(d), 0.1)
            o = y[i] + L @ (d / nd * draw(st.sampled_from([1e2, 1e3, 1e6])))
        else:
            nd = max(np.linalg.norm(d), 0.1)
            o = y[i] + L @ (d / nd * draw(st.floats(36.0, 39.5)))
        obs.append({"kind": kind, "y": [float(v) for v in o]})
    # storage type of the observations (counts, single precision)
    odtype = draw(st.sampled_from(["float64"] * 4 + ["float32", "int16",
                                                     "int32", "int64"]))
    if odtype.startswith("int"):
        for o in obs:
            o["y"] = [float(np.round(v)) for v in o["y"]]
        big = max(abs(v) for o in obs for v in o["y"])
        if big > 2e9:
            odtype = "int64"
        elif big > 3e4 and odtype == "int16":
            odtype = "int32"
    # y_database - y_obs must be exact: NumPy evaluates it in the common
    # type, which has to be float64 (or a wide enough integer)
    common = np.result_type(ydtype, odtype)
    if common != np.float64 and not (common.kind == "i"
                                     and common.itemsize >= 4):
        odtype = "float64" if not odtype.startswith("int") else "int64"
        if np.result_type(ydtype, odtype) == np.float32:
            odtype = "float64"
    if odtype == "float32":
        for o in obs:
            o["y"] = [float(np.float32(v)) for v in o["y"]]
    x2 = [-1.0, 0.0,
          draw(st.one_of(st.floats(0.01, 5.0, allow_nan=False),
                         st.sampled_from([0.5, 1.0, 2.0]))),
          draw(st.one_of(st.floats(5.0, 100.0, allow_nan=False),
                         st.sampled_from([1e3, 1e6])))]
    a = draw(st.integers(1, 10 ** 6))
    from math import gcd
    while gcd(a, n) != 1:
        a += 1
    b = draw(st.integers(0, 10 ** 6))
    perm = [(a * i + b) % n for i in range(n)]
    # quantile fractions in the order of the draw (unordered, repeats)
    taus = draw(st.lists(st.one_of(
        st.floats(0.0, 1.0, allow_nan=False),
        st.sampled_from([0.0, 1.0, 0.5, 0.05, 0.95])),
        min_size=1, max_size=7))
    order = draw(st.sampled_from(["drawn", "drawn", "ascending",
                                  "descending"]))
    if order != "drawn":
        taus = sorted(taus, reverse=(order == "descending"))
    return {"n": n, "m": m, "y": y.tolist(), "x": x.tolist(),
            "S": S.tolist(), "S_structure": Sd["structure"], "obs": obs,
            "x2": x2, "perm": perm, "taus": taus, "xkind": xkind,
            "dup": dup, "spread": spread, "ydtype": ydtype, "xdtype": xdtype,
            "odtype": odtype,
            "layout": {k: draw(st.sampled_from(["C", "C", "F", "strided"]))
                       for k in ("y", "obs")}}


# --------------------------------------------------------------------------
# oracle
# --------------------------------------------------------------------------
class Oracle:
    def __init__(self, S):
        m = S.shape[0]
        A = S.astype(LD)
        L = np.zeros((m, m), LD)
        for j in range(m):
            s = A[j, j] - (L[j, :j] ** 2).sum()
            if not s > 0:
                raise AssertionError("generator: S not positive definite")
            L[j, j] = np.sqrt(s)
            for i in range(j + 1, m):
                L[i, j] = (A[i, j] - (L[i, :j] * L[j, :j]).sum()) / L[j, j]
        self.L = L
        self.m = m
        ev = np.linalg.eigvalsh(S)
        self.lam_min = float(ev.min())
        self.cond = float(ev.max() / ev.min())

    def chi2(self, Y, obs):
        """exact (long double) chi-square of every row of Y and the
        uncertainty Delta of typhon's double-precision value"""
        dy = Y.astype(LD) - obs.astype(LD)
        n, m = dy.shape
        z = np.zeros((n, m), LD)
        L = self.L
        for j in range(m):
            z[:, j] = (dy[:, j] - (z[:, :j] * L[j, :j]).sum(axis=1)) / L[j, j]
        chi = (z ** 2).sum(axis=1)
        dy2 = (dy ** 2).sum(axis=1)
        delta = (LD(32.0 * (m + 2) * U * self.cond / self.lam_min) * dy2
                 + LD(8 * U) * (1 + chi))
        return chi, delta


def wavg_tol(w, E, lo, f, favg):
    """bound on the change of the weighted average of f when every weight
    w_i is multiplied by a factor in [exp(-D_i/2), exp(D_i/2)]
    (E = expm1(D/2), lo = exp(-D/2))"""
    den = (w * lo).sum()
    if not den > 0:
        return LD(np.inf)
    return (w * E * np.abs(f - favg)).sum() / den


def expected_stats(chi, delta, x, n_all):
    """long-double mean / std over the given entries with tolerances.
    -> dict or None when the weights vanish even in long double"""
    w = np.exp(-chi / 2)
    W = w.sum()
    if not W > 0:
        return None
    # entries whose weight vanishes even in long double contribute nothing
    delta = np.where(w > 0, np.minimum(delta, LD(2e4)), LD(0))
    xl = x.astype(LD)
    mean = (w * xl).sum() / W
    var = (w * (xl - mean) ** 2).sum() / W
    std = np.sqrt(var)
    E = np.expm1(delta / 2)
    lo = np.exp(-delta / 2)
    xmax = float(np.abs(x).max()) if x.size else 0.0
    rt = 64.0 * (n_all + 8) * U
    tmean = wavg_tol(w, E, lo, xl, mean)
    # weights below 2.2e-308 are denormal in double precision: every weight
    # (and their sum) carries an absolute error of up to 5e-324
    xr = float(x.max() - x.min()) if x.size else 0.0
    den = min(float(2 * x.size * LD(5e-324) / W), 1.0) if W > LD(1e-320) else 1.0
    # ... and so does every product x_i * w_i, (x_i - mean)^2 * w_i
    und = float(2 * x.size * LD(5e-324) / W) if W > LD(1e-320) else np.inf
    tol_mean = float(tmean) + rt * xmax + den * xr + und + 1e-300
    tvar = float(wavg_tol(w, E, lo, (xl - mean) ** 2, var)) + float(tmean) ** 2
    # typhon: var' = avg'((x - mean')^2), mean' carries rounding of its own
    tvar += rt * (float(var) + xmax * (float(std) + rt * xmax)) + (rt * xmax) ** 2
    tvar += 1e-290          # (x - mean)^2 underflows below 1e-154
    tvar += den * xr * xr + und
    if float(std) > 0:
        tol_std = min(tvar / float(std), np.sqrt(tvar))
    else:
        tol_std = np.sqrt(tvar)
    return {"mean": float(mean), "std": float(std), "tol_mean": tol_mean,
            "tol_std": float(tol_std) + 1e-300, "w": w, "W": W,
            "tolF": float((w * E).sum() / (w * lo).sum()) + rt + den}


def nan_status(chi, delta):
    """'nan' / 'number' / 'either' for the double-precision weights"""
    if chi.size == 0:
        return "nan"
    k = int(np.argmin(chi))
    c = float(chi[k]) / 2
    if c > 746.0 + float(delta[k]) / 2:
        return "nan"
    if c < 700.0:
        return "number"
    return "either"


# --------------------------------------------------------------------------
# the check
# --------------------------------------------------------------------------
def in_layout(a, layout):
    """the same array Fortran-ordered or as a strided view of a larger one"""
    if layout == "F":
        return np.asfortranarray(a)
    if layout == "strided" and a.ndim == 2:
        big = np.zeros((2 * a.shape[0], 2 * a.shape[1] + 1), dtype=a.dtype)
        big[::2, 1::2] = a
        return big[::2, 1::2]
    return np.ascontiguousarray(a)


def history_pass(ctx, bm, obs_all, taus, x2_list, tag):
    """One object, several calls: every returned array is an independent
    copy (no aliasing of the object's state or of another result), and after
    the caller has overwritten all of them in place the same calls give the
    same answers and the object's arrays are unchanged."""
    internal = {k: v for k, v in vars(bm).items() if isinstance(v, np.ndarray)}
    snap = {k: v.copy() for k, v in internal.items()}

    def collect():
        out = {}
        for x2 in x2_list:
            out["predict-mean x2_max=%r" % x2], \
                out["predict-std x2_max=%r" % x2] = bm.predict(obs_all, x2)
            _, _, out["weights x2_max=%r" % x2] = bm.weights(obs_all[0], x2)
            out["cdf-x x2_max=%r" % x2], out["cdf-F x2_max=%r" % x2] = \
                bm.cdf(obs_all[0], x2)
            out["quantiles x2_max=%r" % x2] = bm.predict_quantiles(
                obs_all, taus, x2)
        return out

    first = collect()
    copies = {k: np.array(v, copy=True) for k, v in first.items()}
    arrays = [(k, v) for k, v in first.items() if isinstance(v, np.ndarray)]
    for i, (k, v) in enumerate(arrays):
        for name, a in internal.items():
            ctx.check(not np.shares_memory(v, a),
                      "history/result-aliases-object-state", lambda: (
                          "%s: %s shares memory with BMCI.%s" % (tag, k, name)))
        for k2, v2 in arrays[:i]:
            ctx.check(not np.shares_memory(v, v2),
                      "history/result-aliases-another-result", lambda: (
                          "%s: %s shares memory with %s" % (tag, k, k2)))
    for k, v in arrays:                 # the caller edits its results
        if v.size and v.flags.writeable:
            v[...] = -7
    second = collect()
    for k, v in second.items():
        ctx.check(np.array_equal(np.asarray(v), copies[k], equal_nan=True),
                  "history/answer-changed-after-editing-results", lambda: (
                      "%s: %s was %r, after the caller overwrote the returned "
                      "arrays the same call gives %r" % (
                          tag, k, copies[k].ravel()[:8],
                          np.asarray(v).ravel()[:8])))
    for name, a in snap.items():
        ctx.check(np.array_equal(getattr(bm, name), a, equal_nan=True),
                  "history/object-state-changed", lambda: (
                      "%s: BMCI.%s changed between the calls" % (tag, name)))
    ctx.label("history-results-overwritten-then-recomputed")


def check_instance(ctx, BMCI, y, x, S, case, tag, full, ytyped=None,
                   xtyped=None):
    n, m = y.shape
    bm = BMCI(in_layout((y if ytyped is None else ytyped).copy(),
                        (case.get("layout") or {}).get("y", "C")),
              (x if xtyped is None else xtyped).copy(), S.copy())
    # the database is kept as (y_i, x_i) pairs
    got = np.hstack([np.asarray(bm.y, dtype=float).reshape(n, m),
                     np.asarray(bm.x, dtype=float).reshape(n, 1)])
    ref = np.hstack([y, x.reshape(n, 1)])
    ctx.check(np.array_equal(got[np.lexsort(got.T[::-1])],
                             ref[np.lexsort(ref.T[::-1])]),
              "database/not-a-permutation", "BMCI.y / BMCI.x do not hold the "
              "(y_i, x_i) pairs of the input")
    by = got[:, :m]
    bx = got[:, m]
    orc = Oracle(S)

    xmin, xmax = float(x.min()), float(x.max())
    rng = xmax - xmin
    obs_all = np.array([o["y"] for o in case["obs"]], dtype=float)
    # what typhon gets: the same values in the storage type / memory layout
    obs_arg = in_layout(obs_all.astype(case.get("odtype", "float64")),
                        (case.get("layout") or {}).get("obs", "C"))
    if not np.array_equal(obs_arg.astype(float), obs_all):
        raise AssertionError("generator: observation not representable")
    taus = np.array(case["taus"], dtype=float)
    tau_order = np.argsort(taus, kind="stable")
    any_nontrivial = False

    for x2 in case["x2"]:
        xs_pred, sig_pred = bm.predict(obs_arg, x2)
        ctx.check(np.shape(xs_pred) == (len(obs_all),)
                  and np.shape(sig_pred) == (len(obs_all),), "predict/shape",
                  lambda: "%r %r" % (np.shape(xs_pred), np.shape(sig_pred)))
        if x2 < 0 and full:
            d1, d2 = bm.predict(obs_arg)          # default = unrestricted
            ctx.check(np.array_equal(d1, xs_pred, equal_nan=True)
                      and np.array_equal(d2, sig_pred, equal_nan=True),
                      "predict/default-is-not-unrestricted", "")
        if full:
            qs_all = bm.predict_quantiles(obs_arg, taus, x2)
            ctx.check(np.shape(qs_all) == (len(obs_all), taus.size),
                      "quantiles/shape", lambda: repr(np.shape(qs_all)))
            if x2 < 0 and taus.size > 1:
                # result[j] belongs to taus[j]: permuting taus permutes it
                qs_sorted = bm.predict_quantiles(obs_arg, taus[tau_order], x2)
                ctx.check(np.array_equal(np.asarray(qs_all)[:, tau_order],
                                         qs_sorted, equal_nan=True),
                          "quantiles/not-in-the-order-of-the-request",
                          lambda: "taus %r -> %r, sorted taus %r -> %r" % (
                              taus, qs_all, taus[tau_order], qs_sorted))
        for io, o in enumerate(case["obs"]):
            obs = obs_all[io]
            where = "%s obs#%d(%s) x2_max=%r" % (tag, io, o["kind"], x2)
            chi, delta = orc.chi2(by, obs)
            i_l, i_u, ws = bm.weights(obs_arg[io], x2)
            i_l, i_u = int(i_l), int(i_u)
            ctx.check(0 <= i_l <= i_u <= n and np.size(ws) == i_u - i_l,
                      "weights/window", lambda: "%s: i_l=%r i_u=%r ws %r" % (
                          where, i_l, i_u, np.shape(ws)))
            kept = np.zeros(n, dtype=bool)
            kept[i_l:i_u] = True
            if x2 < 0:
                ctx.check(kept.all(), "weights/unrestricted-window",
                          lambda: "%s: window %d..%d of %d" % (
                              where, i_l, i_u, n))
            else:
                miss = ~kept
                if miss.any():
                    ctx.label("pruned")
                    bad = miss & ~(chi > x2)
                    if bad.any():
                        k = int(np.argmax(bad))
                        ctx.fail("window/drops-entry-within-x2max", (
                            "%s: entry y=%r x=%r has chi2=%r <= x2_max but is "
                            "outside the window %d..%d (n=%d, obs=%r)" % (
                                where, by[k].tolist(), bx[k], float(chi[k]),
                                i_l, i_u, n, obs.tolist())))
                if x2 == 0 and o["kind"] == "entry":
                    ctx.label("x2max=0-identical-entry")
            # weights
            w_all = np.exp(-chi / 2)
            wk = np.asarray(ws, dtype=float).ravel()
            wl = w_all[kept]
            wtol = np.where(wl > 0, wl * np.expm1(np.minimum(
                delta[kept] / 2, LD(1e4))), LD(0)) + LD(1e-320)
            okw = np.abs(wk.astype(LD) - wl) <= wtol
            if not okw.all():
                k = int(np.argmin(okw))
                ctx.fail("weights/value", (
                    "%s: weight %r, exp(-chi2/2)=%r (chi2=%r, tolerance %r)"
                    % (where, wk[k], float(wl[k]), float(chi[kept][k]),
                       float(wtol[k]))))
            # mean / std
            status = nan_status(chi[kept], delta[kept])
            ctx.label({"nan": "no-weight", "number": "weighted",
                       "either": "underflow-transition"}[status])
            if status == "nan" and kept.any():
                ctx.label("underflow")
            if status == "nan" and not kept.any():
                ctx.label("empty-window")
            xp, sp = float(xs_pred[io]), float(sig_pred[io])
            if status == "nan":
                ctx.check(np.isnan(xp) and np.isnan(sp), "predict/not-nan",
                          lambda: "%s: no entry has weight but predict gave "
                          "%r, %r" % (where, xp, sp))
            elif status == "either":
                # denormal weights: only a few bits are left, no comparison
                ctx.check((np.isnan(xp) and np.isnan(sp)) or (
                    np.isfinite(xp) and np.isfinite(sp)),
                    "predict/transition-not-finite", lambda: "%s: %r %r" % (
                        where, xp, sp))
            else:
                exp = expected_stats(chi[kept], delta[kept], bx[kept], n)
                if exp["tol_mean"] > 1e-6 * max(rng, 1e-300) and rng > 0:
                    ctx.label("loose-tolerance")
                else:
                    ctx.label("tight-tolerance")
                ctx.check(abs(xp - exp["mean"]) <= exp["tol_mean"],
                          "predict/mean", lambda: (
                              "%s: mean %r, expected %r (tolerance %.3g; n=%d "
                              "kept=%d cond=%.3g)" % (
                                  where, xp, exp["mean"], exp["tol_mean"], n,
                                  int(kept.sum()), orc.cond)))
                ctx.check(abs(sp - exp["std"]) <= exp["tol_std"],
                          "predict/std", lambda: (
                              "%s: std %r, expected %r (tolerance %.3g; n=%d "
                              "kept=%d cond=%.3g)" % (
                                  where, sp, exp["std"], exp["tol_std"], n,
                                  int(kept.sum()), orc.cond)))
                nbig = int((exp["w"] > 1e-12).sum())
                if nbig >= 2:
                    ctx.label(">=2-entries-with-weight")
                    if x2 >= 0 and not kept.all():
                        any_nontrivial = True
                # pruning changes the estimate by at most the weight share
                # of the entries with chi2 > x2_max
                if x2 >= 0:
                    full_stats = expected_stats(chi, delta, bx, n)
                    share = float(full_stats["w"][chi > x2].sum()
                                  / full_stats["W"])
                    lim = share * rng + exp["tol_mean"] + 1e-12 * rng
                    ctx.check(abs(xp - full_stats["mean"]) <= lim,
                              "pruning/changes-estimate-too-much", lambda: (
                                  "%s: pruned mean %r, full mean %r, share of "
                                  "entries with chi2 > x2_max = %.3g, range of "
                                  "x = %r" % (where, xp, full_stats["mean"],
                                              share, rng)))
            if not full:
                continue
            # cdf
            cx, cF = bm.cdf(obs_arg[io], x2)
            xs_ref = np.sort(bx[kept])
            ctx.check(np.array_equal(np.asarray(cx, dtype=float).ravel(),
                                     xs_ref), "cdf/x-values", lambda: (
                "%s: cdf x values %r, the window holds %r" % (
                    where, np.asarray(cx).tolist()[:20], xs_ref.tolist()[:20])))
            q = np.asarray(qs_all[io], dtype=float)
            if status == "nan":
                ctx.check(np.all(np.isnan(cF)), "cdf/not-nan", lambda: (
                    "%s: no entry has weight but cdf gave %r" % (where, cF)))
                ctx.check(np.isnan(q).all(), "quantiles/not-nan", lambda: (
                    "%s: no entry has weight but quantiles are %r" % (
                        where, q)))
                continue
            if status == "either":
                continue
            cF = np.asarray(cF, dtype=float).ravel()
            ctx.check(cF.size == xs_ref.size and (np.diff(cF) >= 0).all()
                      and cF[0] >= 0 and abs(cF[-1] - 1.0) <= 1e-15,
                      "cdf/not-a-cdf", lambda: "%s: %r" % (where, cF[:30]))
            # right-continuous reference cdf at the distinct x values
            order = np.argsort(bx[kept], kind="stable")
            wsorted = exp["w"][order]
            G = np.cumsum(wsorted) / exp["W"]
            last = np.r_[xs_ref[1:] != xs_ref[:-1], True]
            tolF = exp["tolF"]
            errF = np.abs(cF[last].astype(LD) - G[last])
            ctx.check(bool((errF <= tolF).all()), "cdf/value", lambda: (
                "%s: cdf %r at x=%r, expected %r (tolerance %.3g)" % (
                    where, cF[last][:10], xs_ref[last][:10],
                    G[last][:10].astype(float), tolF)))
            # quantiles
            ctx.check(not np.isnan(q).any()
                      and (np.diff(q[tau_order]) >= 0).all()
                      and q.min() >= xmin - 1e-12 * rng
                      and q.max() <= xmax + 1e-12 * rng,
                      "quantiles/not-monotone-or-out-of-range", lambda: (
                          "%s: taus %r -> %r, x in [%r, %r]" % (
                              where, taus, q, xmin, xmax)))
            ux = xs_ref[last]
            uG = G[last].astype(float)
            for tau, qv in zip(taus, q):
                # q must lie in some [x_j, x_j+1] with G(x_j) <= tau <=
                # G(x_j+1) (the interpolated inverse cdf), up to tolF / rounding
                slack = 1e-12 * max(rng, abs(qv))
                k1 = int(np.searchsorted(uG, tau - tolF, side="left"))
                k2 = int(np.searchsorted(uG, tau + tolF, side="right"))
                lower = ux[max(k1 - 1, 0)]
                upper = ux[min(k2, len(ux) - 1)]
                okq = lower - slack <= qv <= upper + slack
                ctx.check(okq, "quantiles/not-the-weighted-quantile", lambda: (
                    "%s: tau=%r -> %r; window x %r with cdf %r" % (
                        where, tau, qv, ux[:12], uG[:12])))
    if full:
        history_pass(ctx, bm, obs_arg, taus, case["x2"], tag)
    return any_nontrivial


def check_bmci(case, ctx):
    from typhon.retrieval.bmci import BMCI
    n, m = case["n"], case["m"]
    y = np.array(case["y"], dtype=float).reshape(n, m)
    x = np.array(case["x"], dtype=float).reshape(n)
    S = np.array(case["S"], dtype=float).reshape(m, m)
    ctx.label("S-" + case["S_structure"], "x-" + case["xkind"],
              "m=1" if m == 1 else "m>1")
    for o in case["obs"]:
        ctx.label("obs-" + o["kind"])
    if case["dup"]:
        ctx.label("dup")
    if case["xkind"] == "constant" or len(set(case["x"])) == 1:
        ctx.label("constant-x")
    if n >= 100:
        ctx.label("n>=100")
    if n == 1:
        ctx.label("n=1")
    ydtype = case.get("ydtype", "float64")
    xdtype = case.get("xdtype", "float64")
    yt, xt = y.astype(ydtype), x.astype(xdtype)
    if not (np.array_equal(yt.astype(float), y)
            and np.array_equal(xt.astype(float), x)):
        raise AssertionError("generator: database not representable in its "
                             "storage type")
    ctx.label("y-stored-as-" + ydtype, "x-stored-as-" + xdtype)
    odtype = case.get("odtype", "float64")
    ctx.label("obs-given-as-" + odtype)
    if odtype != "float64":
        ctx.label("observations-not-float64")
    lay = case.get("layout") or {}
    ctx.label("layout-y-" + lay.get("y", "C"),
              "layout-obs-" + lay.get("obs", "C"))
    tl = list(case["taus"])
    if len(tl) > 1:
        ctx.label("taus-ascending" if tl == sorted(tl) else
                  "taus-descending" if tl == sorted(tl, reverse=True)
                  else "taus-unordered")
        if len(set(tl)) < len(tl):
            ctx.label("taus-repeated")
    if ydtype != "float64":
        ctx.label("database-not-float64")
        obs = np.array([o["y"] for o in case["obs"]], dtype=float)
        if not np.array_equal(obs.astype(ydtype).astype(float), obs):
            ctx.label("observation-not-representable-in-database-dtype")
    nt = check_instance(ctx, BMCI, y, x, S, case, "original", True, yt, xt)
    perm = np.array(case["perm"], dtype=int)
    if n > 1 and not np.array_equal(perm, np.arange(n)):
        ctx.label("permuted")
        check_instance(ctx, BMCI, y[perm], x[perm], S, case, "permuted",
                       False, yt[perm], xt[perm])
    ctx.nontrivial = bool(nt)


def suites(tier):
    return [
        Suite("bmci", check_bmci,
              strategy=bmci_cases(600 if tier == "quick" else 5000),
              examples={"quick": 650, "thorough": 5000}),
    ]
