"""C11 - files written, moved, copied or deleted through a FileSet are conserved.

A case is a plain-data history (vp/gen/c11_histories.py) that is interpreted
here against an in-memory model ``path -> (fileset, period, attributes,
stored content)``.  After every operation the sandbox is compared with the
model: directory listing, bytes of the files the operation must not touch,
payload of the (compressed) files read with the standard library, the value
every file reads back to through its fileset, and what ``find`` reports.
"""
import datetime as dt
import hashlib
import os

from vp.gen import c11_histories as H
from vp.gen import filesets as G
from vp.oracle import c11_model as M
from vp.runner import Suite

PROP_ID = "C11"
LEVEL = "exploration"
QUICK_SHARDS = 4
RULE = (
    "Hypothesis draws a history: 2-3 filesets below separate roots, each with "
    "a path template from the grammar of vp/gen/filesets.py (directory "
    "layouts, doy vs month/day, year2, full / partial / no end fields, shared "
    "user placeholders in directory or file part), a handler (user "
    "FileHandler for bytes or pickled objects with reader/writer keyword "
    "arguments, given as module-level functions or as bound methods of a "
    "format object with no / one named / two / **kwargs extra parameters, "
    "optionally with an info method and a writer that refuses 'poison' data; "
    "CSV or NetCDF4 chosen by typhon from .csv/.txt/.asc/.nc/.h5 or "
    "passed explicitly), a compression suffix (none .gz .bz2 .zip .xz), "
    "read_args / write_args / post_reader and a default worker type; a pool "
    "of contents (bytes, objects, CSV tables with int64/float64/str/bool "
    "columns, NetCDF datasets with int16/32/64, float32/64, NaN, datetime64 "
    "coordinates and variables, packed scale_factor/add_offset variables, "
    "scalars, 2-D variables, pseudo groups on inherited and own dimensions, "
    "attributes); and 4-12 operations: write (fs[s:e]=, fs[t]=, fs[slice, "
    "fill]=, write() with name / FileInfo / per-call write_args), overwrite, "
    "read (read, fs[t], fs[s:e], collect, icollect, collect(files=)), move "
    "(target FileSet or path, copy, convert False/True/callable, selection by "
    "period / files= as names, FileInfo or find results / filters / all, "
    "worker_type default/thread/process), delete (same selections, "
    "dry_run) and mirror (copy all, rewrite originals with other content of "
    "the same size, copy again to the same target).  The values of the user "
    "placeholders contain proper prefixes of each other (A/AB, NOAA1/NOAA18) "
    "and white / black filters name the shorter ones; filesets without end "
    "fields get a time_coverage (timedelta or string) that lets files written "
    "late in their directory period reach into the next one, and period "
    "selections begin there.  Oracle = in-memory model with the harness' own name formatter "
    "and coverage model; checked after every step: directory listing = model, "
    "untouched files byte-identical, archives open with gzip/bz2/zipfile/lzma "
    "and hold the handler output, every file reads back to the modelled value "
    "through its fileset, find reports written/moved files under their period "
    "with the modelled times and attributes, empty selections raise "
    "NoFilesError and change nothing; a write the handler refuses raises and "
    "changes nothing; a converting move whose conversion or whose target "
    "writer fails for some files raises, keeps the originals of those files "
    "and leaves every other file readable under its old or its new name.  Non-trivial = a move or delete that "
    "affects at least one file after >= 2 writes.  Distinct = distinct case "
    "hash."
)
ASSUMPTIONS = [
    "layout rule of C01: period selections are only judged for files that are "
    "not longer than one period of the finest directory level (otherwise the "
    "start of the selection is left open)",
    "move without convert is only used between filesets with the same "
    "handler kind and compression suffix (a plain rename cannot re-encode); "
    "a path target is only used with the same handler kind (the returned "
    "fileset is a copy of the source)",
    "target names of one move are distinct (colliding selections are reduced "
    "to a collision-free files= list); all filesets of a history share their "
    "user placeholders; years 1965-2064 so that year2 templates can name "
    "every period",
    "NetCDF filesets use max_threads=1 / max_workers=1 for thread workers "
    "(the netCDF4 library is not thread safe)",
    "a root dimension of a NetCDF dataset carries at least one root variable "
    "or coordinate; group dimensions have names that differ from the "
    "dimensions of their ancestors; every dataset keeps a variable f or "
    "grp/f under every generated fields= selection",
    "packed variables are compared within half a quantisation step per "
    "packing; CSV is read with float_precision='round_trip' and index_col=0",
]
GUARD_S = {"quick": 1500, "thorough": 4 * 3600}

MIN, MAX = dt.datetime.min, dt.datetime.max
BOUND_READER = "handler/bound-method-reader-drops-read_args"


class MFile:
    __slots__ = ("path", "fs", "t0", "t1", "attrs", "stored", "plain")

    def __init__(self, path, fs, t0, t1, attrs, stored, plain=None):
        self.path, self.fs = path, fs
        self.t0, self.t1 = t0, t1
        self.attrs, self.stored = attrs, stored
        self.plain = plain      # what was written (None for moved files)

    def __repr__(self):
        return "MFile(%r, %s..%s, %r)" % (self.path, self.t0, self.t1,
                                          self.attrs)


def sha(path):
    with open(path, "rb") as fh:
        return hashlib.sha1(fh.read()).hexdigest()


def fix_period(start, end):
    if start is not None and end is not None and end <= start:
        start, end = end, start
        if end <= start:
            end = start + dt.timedelta(seconds=1)
    return start, end


def filter_ok(f, filters):
    for key, allowed in (filters or {}).items():
        allowed = allowed if isinstance(allowed, list) else [allowed]
        if key.startswith("!"):
            if f.attrs.get(key[1:]) in allowed:
                return False
        elif f.attrs.get(key) not in allowed:
            return False
    return True


def out_of_workers(exc):
    """fork() failed with EAGAIN / no new thread could be started while
    typhon set up its worker pool: the machine is out of processes, nothing
    can be said about the rest of the case"""
    return isinstance(exc, BlockingIOError) or (
        isinstance(exc, RuntimeError) and "can't start new thread" in str(exc))


class World:
    def __init__(self, case, box, ctx):
        self.case, self.box, self.ctx = case, box, ctx
        self.specs = [dict(s) for s in case["filesets"]]
        self.family = case["family"]
        self.stop = False
        for spec in self.specs:
            if spec["kind"] != "user":
                continue
            ctx.label("handler-" + spec["variant"])
            reader = M.USER_VARIANTS[spec["variant"]][0]
            spec["one_extra_reader"] = reader in M.ONE_EXTRA_READERS
            if spec["one_extra_reader"] and ctx.is_known(BOUND_READER):
                # open finding: read_args never reach such a reader - the
                # class is generated without read_args and counted
                if spec["read_args"]:
                    ctx.fail(BOUND_READER, "reader %s, read_args %r" % (
                        reader, spec["read_args"]))
                    ctx.label("known-bound-reader-without-read_args")
                spec["read_args"] = {}
        self.has_nc = any(s["kind"] == "nc" for s in self.specs)
        self.tmp = box.mkdir("tmp")
        self.scratch = box.mkdir("scratch")
        self.roots = [box.mkdir("fs%d" % k) for k in range(len(self.specs))]
        self.fs = [self.make_fileset(k) for k in range(len(self.specs))]
        self.files = {}
        self.writes = 0
        self.step = -1

    # ---- construction ----------------------------------------------------
    def make_fileset(self, k):
        from typhon.files import CSV, FileHandler, FileSet, NetCDF4
        spec = self.specs[k]
        tpl = spec["template"]
        kwargs = {
            "name": "fs%d" % k,
            "placeholder": G.user_placeholder_arg(tpl),
            "read_args": dict(spec["read_args"]),
            "write_args": dict(spec["write_args"]),
            "temp_dir": self.tmp, "max_processes": 2,
        }
        cov = tpl["coverage_s"]
        if cov is not None:
            if spec.get("coverage_as") == "str" and float(cov).is_integer():
                cov = int(cov)
                kwargs["time_coverage"] = (
                    "%d hours" % (cov // 3600) if cov % 3600 == 0
                    else "%d minutes" % (cov // 60) if cov % 60 == 0
                    else "%d s" % cov)
                self.ctx.label("coverage-as-string")
            else:
                kwargs["time_coverage"] = dt.timedelta(seconds=cov)
            if G.dir_period(tpl) is not None:
                self.ctx.label("coverage-with-temporal-dirs")
        if spec["post"]:
            kwargs["post_reader"] = M.POSTS[spec["post"]]
        if spec["worker_type"]:
            kwargs["worker_type"] = spec["worker_type"]
        if self.has_nc:
            kwargs["max_threads"] = 1
        if spec["kind"] == "user":
            reader, writer, info = M.user_handler_parts(spec)
            kwargs["handler"] = FileHandler(reader=reader, writer=writer,
                                            info=info)
            if info is not None:
                kwargs["info_via"] = "both"
                self.ctx.label("handler-info-method")
            if spec.get("refuse"):
                self.ctx.label("refusing-writer")
        elif spec["handler"] == "explicit":
            kwargs["handler"] = CSV() if spec["kind"] == "csv" else NetCDF4()
        fileset = FileSet(G.template_str(tpl, self.roots[k]), **kwargs)
        if spec["kind"] != "user":
            want = "CSV" if spec["kind"] == "csv" else "NetCDF4"
            self.ctx.check(type(fileset.handler).__name__ == want,
                           "handler/wrong-default-handler", lambda: (
                               "path %r got handler %r" % (fileset.path,
                                                           fileset.handler)))
        return fileset

    def where(self):
        return "step %d of %r" % (self.step, [
            o["op"] for o in self.case["ops"]])

    # ---- model of values ---------------------------------------------------
    def typhon_data(self, plain):
        if self.family in ("bytes", "pickle"):
            return plain
        return M.build_dataset(plain)

    def stored_for(self, writer_spec, value, call_args=None):
        if writer_spec["kind"] == "user":
            args = dict(writer_spec["write_args"])
            args.update(call_args or {})
            return M.user_stored(writer_spec["variant"], value, args)
        if writer_spec["kind"] == "csv":
            return M.csv_written(value)
        return M.nc_written(value)

    def value(self, reader_spec, mf, path=None):
        base = os.path.basename(path or mf.path)
        if reader_spec["kind"] == "user":
            return M.user_value(reader_spec["variant"], mf.stored,
                                reader_spec["read_args"],
                                reader_spec["post"], base)
        if reader_spec["kind"] == "csv":
            c = M.csv_read(mf.stored, reader_spec["read_args"])
        else:
            c = M.nc_read(mf.stored, reader_spec["read_args"])
        return M.table_post(c, reader_spec["post"], base)

    def differs(self, got, exp):
        """None or a description of the difference"""
        if self.family in ("bytes", "pickle"):
            if type(got) is type(exp) and got == exp:
                return None
            return "got %r, expected %r" % (got, exp)
        return M.compare_dataset(got, exp)

    # ---- observations --------------------------------------------------------
    def listing(self):
        out = set()
        for k, root in enumerate(self.roots):
            for dirpath, _, names in os.walk(root):
                for n in names:
                    out.add(os.path.join(dirpath, n))
        return out

    def snapshot(self):
        return {p: sha(p) for p in sorted(self.files)}

    def check_disk(self, mf, unlimited=(), written=True):
        spec = self.specs[mf.fs]
        try:
            payload = M.open_archive(mf.path, spec["comp"])
        except Exception as exc:  # noqa - any failure of the std library
            self.ctx.fail("disk/not-a-%s-archive" % (
                spec["comp"].lstrip(".") or "plain"), "%s: %r; %s" % (
                    mf.path, exc, self.where()))
            return
        if spec["comp"]:
            self.ctx.label(spec["comp"].lstrip("."))
        if spec["kind"] == "user":
            self.ctx.check(payload == mf.stored, "disk/wrong-payload",
                           lambda: "%s holds %r, expected %r; %s" % (
                               mf.path, payload[:200], mf.stored[:200],
                               self.where()))
        elif spec["kind"] == "csv":
            sep = self.case["sep"]
            head = payload.split(b"\n", 1)[0].decode()
            ncol = 1 + len(mf.stored["vars"])
            self.ctx.check(len(head.split(sep)) == ncol,
                           "disk/csv-write_args-not-applied", lambda: (
                               "header %r, separator %r; %s" % (
                                   head, sep, self.where())))
            diff = M.compare_dataset(M.csv_payload(payload, sep), mf.stored)
            self.ctx.check(diff is None, "disk/wrong-csv-payload", lambda: (
                "%s: %s; %s" % (mf.path, diff, self.where())))
        else:
            tmp = os.path.join(self.scratch, "payload.nc")
            with open(tmp, "wb") as fh:
                fh.write(payload)
            try:
                diff = M.check_netcdf_payload(tmp, mf.stored, unlimited,
                                              strict_packing=written)
            finally:
                os.unlink(tmp)
            self.ctx.check(diff is None, "disk/wrong-netcdf-payload",
                           lambda: "%s: %s; %s" % (mf.path, diff,
                                                   self.where()))

    def check_found(self, mf, what, period=None):
        fileset = self.fs[mf.fs]
        q0, q1 = period or (mf.t0, mf.t1)
        if q1 <= q0:
            q1 = q0 + G.US
        found = [f for f in fileset.find(q0, q1, no_files_error=False)
                 if f.path == mf.path]
        self.ctx.check(len(found) == 1, what + "/not-found-under-its-period",
                       lambda: "%r: find(%s, %s) of %r gave %d hits; %s" % (
                           mf, q0, q1, fileset.path, len(found),
                           self.where()))
        for f in found:
            self.ctx.check(list(f.times) == [mf.t0, mf.t1],
                           what + "/wrong-times", lambda: (
                               "%r reported with times %r; %s" % (
                                   mf, f.times, self.where())))
            attrs = dict(mf.attrs)
            if self.specs[mf.fs].get("info"):
                attrs["codec"] = "c1"       # added by the handler's info()
            self.ctx.check(dict(f.attr) == attrs, what + "/wrong-attr",
                           lambda: "%r reported with attr %r; %s" % (
                               mf, f.attr, self.where()))

    def verify(self, before, touched, what):
        """after every operation"""
        ctx = self.ctx
        listing = self.listing()
        model = set(self.files)
        ctx.check(listing == model, what + "/listing-differs", lambda: (
            "unexpected files %r, missing files %r; %s" % (
                sorted(listing - model), sorted(model - listing),
                self.where())))
        left = os.listdir(self.tmp)
        ctx.check(not left, what + "/temporary-files-left", lambda: (
            "%r in temp_dir; %s" % (left, self.where())))
        if listing != model:
            return
        for path, digest in before.items():
            if path in touched or path not in self.files:
                continue
            ctx.check(sha(path) == digest, what + "/untouched-file-changed",
                      lambda: "%s; %s" % (path, self.where()))
        for path in sorted(self.files):
            mf = self.files[path]
            exp = self.value(self.specs[mf.fs], mf)
            got = self.fs[mf.fs].read(path)
            diff = self.differs(got, exp)
            ctx.check(diff is None, what + "/reads-back-different",
                      lambda: "%s through %r: %s; %s" % (
                          path, self.fs[mf.fs].path, diff, self.where()))

    # ---- selections ----------------------------------------------------------
    def files_of(self, i):
        return sorted((f for f in self.files.values() if f.fs == i),
                      key=lambda f: f.path)

    def pick_fs(self, i):
        n = len(self.specs)
        for k in range(n):
            if self.files_of((i + k) % n):
                return (i + k) % n
        return None

    def selection(self, i, sel, allow_flag=True):
        """-> (kwargs for typhon, expected files, NoFilesError expected)"""
        files = self.files_of(i)
        kind = sel["kind"]
        kwargs = {}
        if kind == "files":
            chosen = []
            for k in sel["idx"]:
                f = files[k % len(files)]
                if f not in chosen:
                    chosen.append(f)
            kwargs["files"] = self.as_files(i, chosen, sel["as"])
            self.ctx.label("sel-files-" + sel["as"])
            return kwargs, chosen, False
        filters = sel.get("filters") if kind == "filters" else None
        start, end = fix_period(sel["start"], sel["end"])
        limit = G.dir_period(self.specs[i]["template"])
        if start is not None and limit is not None and any(
                f.t0 < start and f.t1 - f.t0 > limit for f in files):
            start = None
            self.ctx.label("long-file")
        if kind == "all":
            start = end = None
        exp = [f for f in files
               if G.in_period(f, start or MIN, end or MAX)
               and filter_ok(f, filters)]
        if start is not None and limit is not None:
            tpl = self.specs[i]["template"]
            for f in exp:
                boundary = H.next_boundary(tpl, f.t0)
                if f.t0 < boundary <= start:
                    self.ctx.label(
                        "sel-reaches-back-by-coverage"
                        if G.end_style(tpl) == "none" else
                        "sel-reaches-back-by-end-field")
        if start is not None:
            kwargs["start"] = start
        if end is not None:
            kwargs["end"] = end
        if filters:
            kwargs["filters"] = filters
        self.ctx.label("sel-" + kind)
        if allow_flag and sel["no_files_error"] is False:
            kwargs["no_files_error"] = False
        error = not exp and "no_files_error" not in kwargs
        return kwargs, exp, error

    def as_files(self, i, chosen, how):
        if how == "path":
            return [f.path for f in chosen]
        if how == "info":
            return [self.fs[i].get_info(f.path) for f in chosen]
        found = {f.path: f for f in self.fs[i].find(no_files_error=False)}
        return [found[f.path] for f in chosen if f.path in found]

    def worker_kwargs(self, i, op):
        kwargs = {}
        wt = op.get("worker_type")
        if wt:
            kwargs["worker_type"] = wt
        eff = wt or self.specs[i]["worker_type"] or "process"
        self.ctx.label("worker-" + eff)
        if self.has_nc and eff == "thread":
            # the netCDF4 library is not thread safe
            kwargs["max_workers"] = 1
        return kwargs

    def call_selected(self, func, expect_error, what):
        """run a move/delete; -> True if it was carried out"""
        from typhon.files.fileset import NoFilesError
        try:
            result = func()
        except NoFilesError:
            if not expect_error:
                raise
            self.ctx.label("empty-selection")
            return False, None
        self.ctx.check(not expect_error, what + "/empty-selection-accepted",
                       lambda: "no NoFilesError; %s" % self.where())
        return True, result

    # ---- operations --------------------------------------------------------
    def op_write(self, op):
        from typhon.files import FileInfo
        ctx = self.ctx
        i = op["fs"] % len(self.specs)
        spec, fileset = self.specs[i], self.fs[i]
        tpl = spec["template"]
        per = spec["periods"][op["period"] % len(spec["periods"])]
        s, e, attrs = per["s"], per["e"], dict(per["attrs"])
        path = G.format_path(tpl, s, e, attrs, "", self.roots[i])
        plain = self.case["pool"][op["data"] % len(self.case["pool"])]
        data = self.typhon_data(plain)
        before = self.snapshot()
        via = op["via"]
        call_args, unlimited = {}, ()
        if via == "write-args":
            w_opts = M.USER_VARIANTS[spec["variant"]][3] \
                if spec["kind"] == "user" else ()
            if "header" in w_opts:
                call_args = {"header": b"CALL"}
            elif "protocol" in w_opts:
                call_args = {"protocol": 4}
            elif spec["kind"] == "nc" and not M.has_groups(plain) \
                    and plain["dims"]:
                unlimited = (plain["dims"][0]["name"],)
                call_args = {"unlimited_dims": list(unlimited)}
            else:
                via = "write"
        ctx.label("write-" + via)

        def call():
            if via in ("slice", "single"):
                time_key = s if (via == "single" and s == e) else slice(s, e)
                fileset[(time_key, attrs) if attrs else time_key] = data
            elif via == "write":
                name = fileset.get_filename((s, e), fill=attrs or None)
                ctx.check(name == path, "write/get_filename-differs",
                          lambda: "expected %r got %r" % (path, name))
                fileset.write(data, name)
            elif via == "write-info":
                fileset.write(data, FileInfo(path))
            else:
                fileset.write(data, path, **call_args)

        if spec.get("refuse") and M.is_poison(plain):
            # the handler cannot store this: the error must come through and
            # nothing may change (an existing file of that name stays)
            try:
                call()
            except M.WriteRefused:
                ctx.label("write-refused")
            else:
                ctx.fail("write/refused-write-not-reported", self.where())
            self.verify(before, set(), "write-refused")
            return
        call()
        if path in self.files:
            ctx.label("overwrite")
        t0, t1 = G.model_times(tpl, s, e)
        mf = MFile(path, i, t0, t1, attrs,
                   self.stored_for(spec, plain, call_args), plain)
        self.files[path] = mf
        self.writes += 1
        self.verify(before, {path}, "write")
        if os.path.exists(path):
            self.check_disk(mf, unlimited)
            self.check_found(mf, "write", (s, e))

    def op_read(self, op):
        from typhon.files import FileInfo
        from typhon.files.fileset import NoFilesError
        ctx = self.ctx
        i = self.pick_fs(op["fs"] % len(self.specs))
        if i is None:
            ctx.label("noop")
            return
        spec, fileset = self.specs[i], self.fs[i]
        files = self.files_of(i)
        before = self.snapshot()
        how = op["how"]
        ctx.label("read-" + how)
        what = "read/" + how
        if how == "read-args":
            # per-call read arguments override those of the fileset
            r_opts = M.USER_VARIANTS[spec["variant"]][2] \
                if spec["kind"] == "user" else ()
            if "strip" in r_opts and not (
                    spec["one_extra_reader"] and ctx.is_known(BOUND_READER)):
                f = files[op["file"] % len(files)]
                call_args = {"strip": 1 + op["frac"]}
                merged = dict(spec, read_args=dict(spec["read_args"],
                                                   **call_args))
                got = fileset.read(f.path, **call_args)
                diff = self.differs(got, self.value(merged, f))
                ctx.check(diff is None, what + "/wrong-content", lambda: (
                    "%r with %r: %s; %s" % (f, call_args, diff,
                                            self.where())))
            else:
                how = "read"
        if how in ("read", "read-info"):
            f = files[op["file"] % len(files)]
            arg = f.path if how == "read" else FileInfo(f.path)
            diff = self.differs(fileset.read(arg), self.value(spec, f))
            ctx.check(diff is None, what + "/wrong-content", lambda: (
                "%r: %s; %s" % (f, diff, self.where())))
        elif how == "read-args":
            pass
        elif how == "item":
            f = files[op["file"] % len(files)]
            t = f.t0 + (f.t1 - f.t0) * op["frac"] / 2
            # (C16: timestamps at the resolution of the template)
            t = G.truncate(t, G.resolution_of(spec["template"]))
            limit = G.dir_period(spec["template"])
            if not f.t0 <= t <= f.t1 or (
                    limit is not None and t - f.t0 > limit):
                t = f.t0
            filters = None
            if f.attrs and op["frac"] == 1:
                name = sorted(f.attrs)[0]
                filters = {name: f.attrs[name]}
            got = fileset[t] if filters is None else fileset[t, filters]
            cands = [g for g in files if g.t0 <= t <= g.t1
                     and filter_ok(g, filters)]
            diffs = [self.differs(got, self.value(spec, g)) for g in cands]
            ctx.check(any(d is None for d in diffs), what + "/wrong-content",
                      lambda: "fs[%s] (filters %r) is not the content of a "
                      "covering file %r: %s; %s" % (t, filters, cands, diffs,
                                                    self.where()))
        elif how == "collect-files":
            chosen = []
            for k in (op["sel"].get("idx") or [op["file"]]):
                f = files[k % len(files)]
                if f not in chosen:
                    chosen.append(f)
            how_files = op["sel"].get("as", "path")
            infos, data = fileset.collect(
                files=self.as_files(i, chosen, how_files), return_info=True)
            ctx.check([x.path for x in infos] == [f.path for f in chosen],
                      what + "/wrong-files", lambda: "%r; %s" % (
                          infos, self.where()))
            for f, got in zip(chosen, data):
                diff = self.differs(got, self.value(spec, f))
                ctx.check(diff is None, what + "/wrong-content", lambda: (
                    "%r: %s; %s" % (f, diff, self.where())))
        else:
            sel = dict(op["sel"])
            if sel["kind"] == "files":
                sel["kind"] = "period"
            kwargs, exp, _ = self.selection(i, sel, allow_flag=False)
            start, end = kwargs.get("start"), kwargs.get("end")
            filters = kwargs.get("filters")
            try:
                if how == "slice":
                    key = slice(start, end)
                    got = fileset[key] if filters is None \
                        else fileset[key, filters]
                elif how == "collect":
                    got = fileset.collect(**kwargs)
                else:
                    got = list(fileset.icollect(**kwargs))
            except NoFilesError:
                ctx.check(not exp, what + "/NoFilesError-although-files",
                          lambda: "%r %r; %s" % (kwargs, exp, self.where()))
                ctx.label("empty-selection")
                got = None
            if got is not None:
                ctx.check(bool(exp), what + "/empty-selection-accepted",
                          lambda: "%r gave %r; %s" % (kwargs, got,
                                                      self.where()))
                exp = sorted(exp, key=lambda f: (f.t0, f.t1))
                ctx.check(len(got) == len(exp), what + "/wrong-count",
                          lambda: "%d contents for %r; %s" % (
                              len(got), exp, self.where()))
                if len(got) == len(exp):
                    self.match_sorted(got, exp, spec, what)
        self.verify(before, set(), "read")

    def match_sorted(self, got, exp, spec, what):
        """contents in time order; files with equal times in any order"""
        pos = 0
        while pos < len(exp):
            end = pos
            while end < len(exp) and (exp[end].t0, exp[end].t1) == (
                    exp[pos].t0, exp[pos].t1):
                end += 1
            pending = list(range(pos, end))
            for k in range(pos, end):
                hit = None
                for idx in pending:
                    if self.differs(got[k],
                                    self.value(spec, exp[idx])) is None:
                        hit = idx
                        break
                if hit is None:
                    diff = self.differs(got[k], self.value(spec, exp[k]))
                    self.ctx.fail(what + "/wrong-content", (
                        "content %d is none of %r: %s; %s" % (
                            k, exp[pos:end], diff, self.where())))
                    return
                pending.remove(hit)
            pos = end

    def target_of(self, f, j):
        tpl = self.specs[j]["template"]
        res = G.resolution_of(tpl)
        s2, e2 = G.truncate(f.t0, res), G.truncate(f.t1, res)
        path = G.format_path(tpl, f.t0, f.t1, f.attrs, "", self.roots[j])
        t0, t1 = G.model_times(tpl, s2, e2)
        return path, t0, t1

    def refusal_pair(self, convert):
        """(source, target) filesets such that a converting move hands the
        target's refusing writer something it cannot store, or None"""
        for i, src in enumerate(self.specs):
            if src["kind"] != "user":
                return None
            for f in self.files_of(i):
                value = self.value(src, f)
                if convert == "callable":
                    value = M.user_converted(value)
                if not M.is_poison(value):
                    continue
                for j, dst in enumerate(self.specs):
                    if j != i and dst.get("refuse"):
                        return i, j
        return None

    def op_move(self, op):
        from typhon.files import FileSet
        from typhon.files.fileset import NoFilesError
        ctx = self.ctx
        n = len(self.specs)
        i = self.pick_fs(op["fs"] % n)
        if i is None:
            ctx.label("noop")
            return
        j = op["to"] % n
        if j == i:
            j = (i + 1) % n
        convert, copy = op["convert"], op["copy"]
        target_as = op["target_as"]
        sel = op["sel"]
        if op.get("aim") in ("refusal", "refusal-copy"):
            aimed = self.refusal_pair(convert)
            if aimed is not None:
                i, j = aimed
                copy = op["aim"] == "refusal-copy"
                target_as = "fileset"
                sel = dict(sel, kind="all")
                if not convert or convert == "raises":
                    convert = True
        src, dst = self.specs[i], self.specs[j]
        if (src["kind"], src["comp"]) != (dst["kind"], dst["comp"]) \
                and not convert:
            convert = True
        if target_as == "path" and src["kind"] != dst["kind"]:
            target_as = "fileset"
        kwargs, exp, error = self.selection(i, sel)
        # distinct target names
        plan, taken = [], set()
        for f in exp:
            path, t0, t1 = self.target_of(f, j)
            if path in taken:
                continue
            taken.add(path)
            plan.append((f, path, t0, t1))
        if len(plan) < len(exp):
            ctx.label("collision-reduced")
            exp = [p[0] for p in plan]
            kwargs = {"files": self.as_files(i, exp, "path")}
            error = False
        kwargs.update(self.worker_kwargs(i, op))
        writer = dst if target_as == "fileset" else src
        conv_arg = convert
        if convert == "callable":
            conv_arg = M.convert_user if src["kind"] == "user" \
                else M.convert_table
        target = self.fs[j] if target_as == "fileset" \
            else G.template_str(dst["template"], self.roots[j])
        before = self.snapshot()
        if convert == "raises":
            # a failing conversion must not cost the originals
            try:
                self.fs[i].move(target, convert=M.convert_raises, copy=copy,
                                **kwargs)
            except M.ConvertError:
                ctx.label("convert-raises")
            except NoFilesError:
                ctx.check(error, "move/NoFilesError-although-files",
                          lambda: "%r; %s" % (exp, self.where()))
            else:
                ctx.check(not exp, "move/failed-conversion-not-reported",
                          lambda: "%r; %s" % (exp, self.where()))
            self.verify(before, set(), "move-failed-conversion")
            return
        # what each selected file becomes; which writes the handler refuses
        outcome = {}
        for f, path, t0, t1 in plan:
            if convert:
                value = self.value(src, f)
                if convert == "callable":
                    value = M.user_converted(value) \
                        if src["kind"] == "user" \
                        else M.table_converted(value)
                if writer.get("refuse") and M.is_poison(value):
                    outcome[f.path] = None
                else:
                    outcome[f.path] = self.stored_for(writer, value)
            else:
                outcome[f.path] = f.stored
        if any(v is None for v in outcome.values()):
            self.failing_move(i, j, plan, outcome, before, copy, lambda: (
                self.fs[i].move(target, convert=conv_arg, copy=copy,
                                **kwargs)))
            return
        done, ret = self.call_selected(
            lambda: self.fs[i].move(target, convert=conv_arg, copy=copy,
                                    **kwargs), error, "move")
        touched = set()
        moved = []
        if done:
            for f, path, t0, t1 in plan:
                stored = outcome[f.path]
                if path in self.files:
                    ctx.label("move-overwrites")
                new = MFile(path, j, t0, t1, dict(f.attrs), stored)
                touched.add(path)
                if not copy:
                    del self.files[f.path]
                    touched.add(f.path)
                self.files[path] = new
                moved.append((f, new))
        if moved:
            ctx.label("move", "copy" if copy else "no-copy",
                      "target-" + target_as,
                      {False: "plain-move", None: "plain-move",
                       True: "convert",
                       "callable": "convert-callable"}[convert])
            names_src = set(G.placeholders_of(src["template"]))
            names_dst = set(G.placeholders_of(dst["template"]))
            if "doy" in names_dst and "doy" not in names_src:
                ctx.label("doy-target")
            if "doy" in names_src and "doy" not in names_dst:
                ctx.label("doy-source")
            if dst["comp"] and dst["comp"] != src["comp"]:
                ctx.label("compress-target")
            if src["comp"] and not dst["comp"]:
                ctx.label("decompress-target")
            if G.end_style(dst["template"]) != "none" and G.end_style(
                    src["template"]) == "none":
                ctx.label("end-added")
            if src["kind"] != dst["kind"]:
                ctx.label("cross-kind")
            if self.writes >= 2:
                ctx.nontrivial = True
        self.verify(before, touched, "move")
        if done:
            if target_as == "fileset":
                ctx.check(ret is self.fs[j], "move/wrong-return-value",
                          lambda: repr(ret))
            else:
                ctx.check(isinstance(ret, FileSet) and ret.path == target
                          and ret is not self.fs[i],
                          "move/wrong-return-value", lambda: "%r; %s" % (
                              ret, self.where()))
        for f, new in moved:
            if not os.path.exists(new.path):
                continue
            if not convert:
                ctx.check(sha(new.path) == before[f.path],
                          "move/bytes-changed", lambda: "%s -> %s; %s" % (
                              f.path, new.path, self.where()))
            self.check_disk(new, written=False)
            self.check_found(new, "move")
            if target_as == "path" and isinstance(ret, FileSet):
                # the returned copy of the source reads the new files
                diff = self.differs(ret.read(new.path),
                                    self.value(src, new))
                ctx.check(diff is None, "move/returned-fileset-reads-"
                          "different", lambda: "%s: %s; %s" % (
                              new.path, diff, self.where()))

    def failing_move(self, i, j, plan, outcome, before, copy, call):
        """move(convert=...) with a target handler that cannot store some of
        the selected files: the error comes through, the refused files keep
        their originals, every other file is either moved or left alone -
        nothing is lost.  Which of the other files were handled before the
        error depends on the workers, so the model follows the disk and the
        history ends here."""
        ctx = self.ctx
        try:
            call()
        except M.WriteRefused:
            ctx.label("move-write-refused",
                      "move-write-refused-" + ("copy" if copy else "no-copy"))
        else:
            ctx.fail("move-failed-write/error-not-reported", self.where())
        touched = set()
        for f, path, t0, t1 in plan:
            old_there = os.path.isfile(f.path)
            new_there = os.path.isfile(path)
            new_changed = new_there and (path not in before
                                         or sha(path) != before[path])
            if outcome[f.path] is None or copy:
                ctx.check(old_there and sha(f.path) == before[f.path],
                          "move-failed-write/original-lost", lambda: (
                              "%r (write refused: %r, copy: %r); %s" % (
                                  f, outcome[f.path] is None, copy,
                                  self.where())))
            if outcome[f.path] is None:
                ctx.check(not new_changed and (new_there or
                                               path not in before),
                          "move-failed-write/target-damaged", lambda: (
                              "%s; %s" % (path, self.where())))
                continue
            handled = new_changed if copy else not old_there
            if not handled:
                ctx.check(old_there, "move-failed-write/data-lost",
                          lambda: "%r; %s" % (f, self.where()))
                continue
            ctx.check(new_there, "move-failed-write/data-lost", lambda: (
                "%r is neither at its old place nor at %s; %s" % (
                    f, path, self.where())))
            touched.add(path)
            if not copy:
                del self.files[f.path]
                touched.add(f.path)
            self.files[path] = MFile(path, j, t0, t1, dict(f.attrs),
                                     outcome[f.path])
        if self.writes >= 2:
            ctx.nontrivial = True
        self.verify(before, touched, "move-failed-write")
        self.stop = True

    def op_mirror(self, op):
        """copy a whole fileset, rewrite some originals with other content
        of the same size, copy again to the same target: every copy must
        hold what its original holds NOW"""
        ctx = self.ctx
        n = len(self.specs)
        i = self.pick_fs(op["fs"] % n)
        if i is None or n < 2:
            ctx.label("noop")
            return
        src = self.specs[i]
        order = [(op["to"] + k) % n for k in range(n)]
        order = [j for j in order if j != i]
        same = [j for j in order if (self.specs[j]["kind"],
                                     self.specs[j]["comp"]) == (
                                         src["kind"], src["comp"])]
        j = (same or order)[0]
        copy_all = {
            "op": "move", "fs": i, "to": j, "target_as": op["target_as"],
            "copy": True, "convert": False, "aim": None,
            "worker_type": op["worker_type"],
            "sel": {"kind": "all", "start": None, "end": None,
                    "no_files_error": None}}
        self.op_move(copy_all)
        if self.stop:
            return
        originals = [f for f in self.files_of(i) if f.plain is not None]
        rewritten = 0
        for k in sorted({k % len(originals) for k in op["rewrite"]}
                        if originals else ()):
            f = originals[k]
            plain = M.same_size_variant(f.plain)
            if src.get("refuse") and M.is_poison(plain):
                continue
            before = self.snapshot()
            size = os.path.getsize(f.path)
            self.fs[i].write(self.typhon_data(plain), f.path)
            f.stored = self.stored_for(src, plain)
            f.plain = plain
            self.verify(before, {f.path}, "rewrite")
            rewritten += 1
            if os.path.getsize(f.path) == size and sha(f.path) != before[
                    f.path]:
                ctx.label("rewrite-same-size")
        if rewritten:
            ctx.label("mirror-again" if same else "mirror-again-converting")
        self.op_move(copy_all)

    def op_delete(self, op):
        ctx = self.ctx
        i = self.pick_fs(op["fs"] % len(self.specs))
        if i is None:
            ctx.label("noop")
            return
        kwargs, exp, error = self.selection(i, op["sel"])
        kwargs.update(self.worker_kwargs(i, op))
        before = self.snapshot()
        dry = op["dry_run"]
        done, _ = self.call_selected(
            lambda: self.fs[i].delete(dry_run=dry, **kwargs), error,
            "delete")
        touched = set()
        if done and not dry:
            for f in exp:
                del self.files[f.path]
                touched.add(f.path)
        if done and exp:
            ctx.label("dry-run" if dry else "delete")
            if not dry and self.writes >= 2:
                ctx.nontrivial = True
        self.verify(before, touched, "dry-run" if dry else "delete")

    def run(self):
        ops = {"write": self.op_write, "read": self.op_read,
               "move": self.op_move, "delete": self.op_delete,
               "mirror": self.op_mirror}
        for k, op in enumerate(self.case["ops"]):
            self.step = k
            try:
                ops[op["op"]](op)
            except (BlockingIOError, RuntimeError) as exc:
                if not out_of_workers(exc):
                    raise
                self.ctx.label("resource-exhausted")
                return
            if self.stop:
                return


def check_history(case, ctx):
    ctx.label("family-" + case["family"])
    for spec in case["filesets"]:
        ctx.label({"user": "user", "csv": "csv", "nc": "netcdf"}[
            spec["kind"]])
        if spec["post"]:
            ctx.label("post_reader")
        if spec["kind"] != "user":
            ctx.label("handler-" + spec["handler"])
    if case["family"] == "nc":
        for c in case["pool"]:
            names = [v["name"] for v in c["vars"]]
            if any(v["enc"] for v in c["vars"]):
                ctx.label("nc-packed")
            if "grp/v" in names or "grp/sub/z" in names:
                ctx.label("nc-group-inherited-dim")
            if "grp/w" in names:
                ctx.label("nc-group-own-dim")
            if all("/" in x for x in names):
                ctx.label("nc-no-root-variable")
            if any(d["coord"] and d["coord"]["dtype"].startswith("datetime")
                   for d in c["dims"]):
                ctx.label("nc-time-coordinate")
            if any(v["dtype"].startswith("int") for v in c["vars"]):
                ctx.label("nc-int")
            if any(None in v["values"] for v in c["vars"]):
                ctx.label("nc-nan")
    with G.Sandbox() as box:
        World(case, box, ctx).run()


# --------------------------------------------------------------------------
# single-file filesets
# --------------------------------------------------------------------------
def check_single(case, ctx):
    try:
        _check_single(case, ctx)
    except (BlockingIOError, RuntimeError) as exc:
        if not out_of_workers(exc):
            raise
        ctx.label("resource-exhausted")


def _check_single(case, ctx):
    from typhon.files import FileHandler, FileSet
    family, kind = case["family"], case["kind"]
    s, e = case["coverage"]
    ctx.label("single-" + family)

    def handler():
        if kind == "user":
            return FileHandler(reader=M.bytes_reader_plain,
                               writer=M.bytes_writer_plain)
        return None

    def equal(got, plain):
        if kind == "user":
            return None if got == plain else "got %r expected %r" % (got,
                                                                      plain)
        return M.compare_dataset(got, plain)

    def stored(plain):
        if kind == "user":
            return plain
        return M.csv_written(plain) if kind == "csv" else M.nc_written(plain)

    read_args = {"index_col": 0, "float_precision": "round_trip"} \
        if kind == "csv" else {}
    plain = case["data"]
    data = plain if kind == "user" else M.build_dataset(plain)
    with G.Sandbox() as box:
        tmp = box.mkdir("tmp")
        src_path = os.path.join(box.mkdir("src"), case["name"])
        src = FileSet(src_path, handler=handler(), time_coverage=(s, e),
                      read_args=read_args, temp_dir=tmp, max_processes=2,
                      max_threads=1)
        ctx.check(src.single_file, "single/not-recognised", src_path)
        if case["copy"]:
            src[s:e] = data
        else:
            src.write(data, src_path)
        ctx.check(os.path.isfile(src_path), "single/not-written", src_path)
        content = stored(plain)
        diff = equal(src.read(src_path), content)
        ctx.check(diff is None, "single/reads-back-different", lambda: diff)
        diff = equal(src[s], content)
        ctx.check(diff is None, "single/item-reads-different", lambda: diff)
        found = list(src.find(s, e + G.US))
        ctx.check([f.path for f in found] == [src_path]
                  and list(found[0].times) == [s, e], "single/find",
                  lambda: repr(found))
        # ---- move to a multi-file fileset --------------------------------
        tspec = case["targets"][0]
        tpl = tspec["template"]
        root = box.mkdir("dst")
        convert = case["convert"]
        if tspec["comp"] != case["comp"] and not convert:
            convert = True
        cov = tpl["coverage_s"]
        dst = FileSet(G.template_str(tpl, root), handler=handler(),
                      read_args=read_args, temp_dir=tmp, max_threads=1,
                      time_coverage=None if cov is None
                      else dt.timedelta(seconds=cov))
        conv_arg = convert
        if convert == "callable":
            conv_arg = M.convert_user if kind == "user" else M.convert_table
            content = M.user_converted(content) if kind == "user" \
                else M.table_converted(content)
        if convert:
            content = stored(content)
        digest = sha(src_path)
        ret = src.move(dst, convert=conv_arg, copy=case["copy"])
        ctx.check(ret is dst, "single/move-wrong-return-value", repr(ret))
        res = G.resolution_of(tpl)
        new_path = G.format_path(tpl, s, e, {}, "", root)
        t0, t1 = G.model_times(tpl, G.truncate(s, res), G.truncate(e, res))
        ctx.label("single-move", "single-copy" if case["copy"]
                  else "single-no-copy")
        listing = sorted(os.path.join(d, n) for d, _, ns in os.walk(box.root)
                         for n in ns)
        expect = sorted([new_path] + ([src_path] if case["copy"] else []))
        ctx.check(listing == expect, "single/move-listing-differs", lambda: (
            "files %r, expected %r (convert=%r copy=%r)" % (
                listing, expect, convert, case["copy"])))
        if listing != expect:
            return
        if not convert:
            ctx.check(sha(new_path) == digest, "single/move-bytes-changed",
                      new_path)
        try:
            payload = M.open_archive(new_path, tspec["comp"])
        except Exception as exc:  # noqa
            ctx.fail("single/not-an-archive", "%s %r" % (new_path, exc))
            payload = None
        if payload is not None and kind == "user":
            ctx.check(payload == content, "single/wrong-payload",
                      lambda: repr(payload[:100]))
        diff = equal(dst.read(new_path), content)
        ctx.check(diff is None, "single/moved-reads-different", lambda: diff)
        q1 = t1 if t1 > t0 else t0 + G.US
        found = [f for f in dst.find(t0, q1, no_files_error=False)]
        ctx.check([f.path for f in found] == [new_path]
                  and list(found[0].times) == [t0, t1],
                  "single/moved-not-found", lambda: "%r, expected %s %s..%s"
                  % (found, new_path, t0, t1))
        ctx.nontrivial = True
        # ---- delete --------------------------------------------------------
        if case["copy"] and case["delete"] != "none":
            dry = case["delete"] == "dry"
            src.delete(dry_run=dry)
            ctx.check(os.path.exists(src_path) == dry,
                      "single/delete-dry" if dry else "single/delete",
                      src_path)
            ctx.check(os.path.exists(new_path), "single/delete-took-copy",
                      new_path)
            ctx.label("single-delete-dry" if dry else "single-delete")
        ctx.check(not os.listdir(tmp), "single/temporary-files-left",
                  lambda: repr(os.listdir(tmp)))


def concurrent_readers_check(case, ctx):
    from vp.props.c10_parallel import check_concurrent_readers
    check_concurrent_readers(case, ctx)
    ctx.labels = {("xz" if lab.endswith("-xz") else lab) for lab in ctx.labels}


def concurrent_readers_cases():
    from vp.props.c10_parallel import concurrent_cases
    return concurrent_cases()


def suites(tier):
    return [
        Suite("bytes", check_history, strategy=H.histories("bytes"),
              examples={"quick": 60, "thorough": 500}),
        Suite("pickle", check_history, strategy=H.histories("pickle"),
              examples={"quick": 15, "thorough": 120}),
        Suite("csv", check_history, strategy=H.histories("csv"),
              examples={"quick": 45, "thorough": 400}),
        Suite("netcdf", check_history, strategy=H.histories("nc", 10),
              examples={"quick": 36, "thorough": 300}),
        Suite("mixed", check_history, strategy=H.histories("mixed", 8),
              examples={"quick": 15, "thorough": 120}),
        Suite("single-file", check_single, strategy=H.single_cases(),
              examples={"quick": 20, "thorough": 160}),
        # compressed files with the same base name in different directories,
        # read by truly concurrent threads that meet at a barrier inside the
        # decompress block (shared with C10)
        Suite("concurrent-readers", concurrent_readers_check,
              cases=concurrent_readers_cases),
    ]
