"""C06 - GeoIndex.query returns exactly the points within the radius.

Oracle: dense distance matrix in long double (vp/oracle/sphere.py), chord for
the default metric, great-circle arc for metric='haversine'.  The random
shuffle inside GeoIndex is owned by the case: numpy.random.shuffle is replaced
for the duration of the call by a function applying the permutation stored in
the case (or the global generator is seeded from the case).
"""
import itertools
import math

import numpy as np
from hypothesis import strategies as st

from vp.runner import Suite
from vp.gen import points as P
from vp.oracle import sphere as S

PROP_ID = "C06"
LEVEL = "exploration"
QUICK_SHARDS = 4
RULE = (
    "Hypothesis draws build and query points from shared clusters (centres "
    "anywhere with extra weight on poles / date line / equator, members at "
    "{0, 1/2, 1-1e-3, 1+1e-3, 3} x radius from the centre measured in the "
    "metric under test, some around the antipode, duplicates, optional tiling "
    "to several hundred points), a radius log-uniform in 1 m .. 20000 km "
    "written as number or unit string, metric, tree class, leaf size and the "
    "shuffle permutation (explicit permutation applied through a replaced "
    "numpy.random.shuffle, seeded real shuffle, or shuffle off); every case is "
    "also run under drawn variant configurations, and for <= 4 build points "
    "under all permutations.  All permutations of <= 5 build points are "
    "enumerated for a fixed family of geometries.  Oracle = long-double "
    "distance matrix.  Non-trivial = at least one expected pair and one "
    "expected non-pair.  Distinct = distinct case hash."
)
ASSUMPTIONS = [
    "lat / lon are finite 1-d numpy arrays, lat in [-90, 90], lon in "
    "[-180, 180] (documented input domain); no NaN positions",
    "the sphere is the one of typhon.constants.earth_radius",
    "pairs whose reference distance is within 1e-9*r + 1e-7 km of r (for "
    "haversine additionally the conditioning of the double-precision "
    "haversine formula near the antipode, <= 0.26 m) may be reported or not",
    "KD trees only with the default metric (scikit-learn rejects haversine)",
    "radius <= 20000 km, so the exact antipode (20037 km) is never inside",
]

UNITS, UNIT_CLASS = P.UNITS, P.UNIT_CLASS
radius_km_exact, radius_argument = P.radius_km_exact, P.radius_argument
PinnedShuffle = P.PinnedShuffle


def run_query(build, query, config):
    """-> (pairs, distances or None, effective permutation or None)"""
    from typhon.geographical import GeoIndex
    kwargs = {}
    if config["metric_arg"] is not None:
        kwargs["metric"] = config["metric_arg"]
    if config["tree"] is not None:
        kwargs["tree_class"] = config["tree"]
    if config["leaf_size"] is not None:
        kwargs["leaf_size"] = config["leaf_size"]
    sh = config["shuffle"]
    if sh["mode"] == "off":
        kwargs["shuffle"] = False
    elif sh.get("explicit_true"):
        kwargs["shuffle"] = True
    r = radius_argument(config["radius"])
    with PinnedShuffle(sh):
        index = GeoIndex(build[0].copy(), build[1].copy(), **kwargs)
        if config["return_distance"]:
            pairs, dist = index.query(query[0].copy(), query[1].copy(), r)
        else:
            pairs = index.query(query[0].copy(), query[1].copy(), r=r,
                                return_distance=False)
            dist = None
        perm = None if index.shuffler is None else \
            [int(x) for x in index.shuffler]
    return pairs, dist, perm


def compare(ctx, tag, config, pairs, dist, ref, must, may, kind, describe):
    """pairs / distances of one query against the reference matrix
    (vectorised: big cases have millions of pairs)"""
    nb, nq = ref.shape
    pairs = np.asarray(pairs)
    if pairs.size == 0:
        pb = pq = np.zeros(0, dtype=int)
    else:
        ctx.check(pairs.ndim == 2 and pairs.shape[0] == 2,
                  "pairs/shape" + tag,
                  lambda: "pairs has shape %r\n%s" % (pairs.shape, describe()))
        if not (pairs.ndim == 2 and pairs.shape[0] == 2):
            return
        ctx.check(np.issubdtype(pairs.dtype, np.integer), "pairs/dtype" + tag,
                  lambda: "pairs has dtype %r\n%s" % (pairs.dtype, describe()))
        if not np.issubdtype(pairs.dtype, np.integer):
            return
        pb, pq = pairs[0].astype(np.int64), pairs[1].astype(np.int64)
    bad = (pb < 0) | (pb >= nb) | (pq < 0) | (pq >= nq)
    ctx.check(not bad.any(), "pairs/index-out-of-range" + tag, lambda: (
        "pairs outside %d build x %d query points: %r\n%s"
        % (nb, nq, list(zip(pb[bad][:10].tolist(), pq[bad][:10].tolist())),
           describe())))
    if bad.any():
        return
    lin = pb * nq + pq
    ndist = np.unique(lin).size
    ctx.check(ndist == lin.size, "pairs/duplicates" + tag, lambda: (
        "%d pairs, %d distinct\n%s" % (lin.size, ndist, describe())))
    hit = np.zeros((nb, nq), dtype=bool)
    hit[pb, pq] = True
    missing = must & ~hit
    extra = hit & ~may
    wrong = bool(missing.any() or extra.any())
    ctx.check(not wrong, "pairs/wrong-set" + tag, lambda: (
        "missing (build, query) pairs %r, unexpected pairs %r\n%s" % (
            [(int(a), int(b), float(ref[a, b]))
             for a, b in list(zip(*np.nonzero(missing)))[:8]],
            [(int(a), int(b), float(ref[a, b]))
             for a, b in list(zip(*np.nonzero(extra)))[:8]], describe())))
    if dist is None or wrong:
        return
    dist = np.asarray(dist)
    ctx.check(dist.shape == (lin.size,), "distances/shape" + tag, lambda: (
        "distances has shape %r for %d pairs\n%s"
        % (dist.shape, lin.size, describe())))
    if dist.shape != (lin.size,) or not lin.size:
        return
    want = ref[pb, pq]
    tol = S.value_tol_km(want, kind)
    err = np.abs(dist.astype(S.LD) - want)
    ok = err <= tol
    ctx.check(bool(ok.all()), "distances/wrong-value" + tag, lambda: (
        "pair %r: distance %.12g km, reference %.12g km (tolerance %.3g)\n%s"
        % ((int(pb[np.argmin(ok)]), int(pq[np.argmin(ok)])),
           float(dist[np.argmin(ok)]), float(want[np.argmin(ok)]),
           float(tol[np.argmin(ok)]), describe())))


def check_query(case, ctx):
    build = (np.array(case["build"]["lat"], dtype=float),
             np.array(case["build"]["lon"], dtype=float))
    query = (np.array(case["query"]["lat"], dtype=float),
             np.array(case["query"]["lon"], dtype=float))
    nb, nq = build[0].size, query[0].size
    configs = [case["config"]] + list(case.get("variants", []))
    refs = {}
    for ci, config in enumerate(configs):
        kind = "arc" if config["metric_arg"] == "haversine" else "chord"
        if kind not in refs:
            refs[kind] = S.distance_matrix(build[0], build[1], query[0],
                                           query[1], kind)
        ref = refs[kind]
        r = radius_km_exact(config["radius"])
        band = S.band_km(r, ref, kind)
        must = ref < r - band
        may = ref <= r + band
        n_exp = int(np.count_nonzero(must))

        def describe(config=config, r=r):
            return ("config=%r radius_km=%.12g\nbuild lat=%r lon=%r\nquery "
                    "lat=%r lon=%r" % (
                        config, float(r),
                        case["build"]["lat"][:20], case["build"]["lon"][:20],
                        case["query"]["lat"][:20], case["query"]["lon"][:20]))

        pairs, dist, perm = run_query(build, query, config)
        tag = "" if config["return_distance"] else "/return_distance=False"
        compare(ctx, tag, config, pairs, dist, ref, must, may, kind, describe)

        # labels (main configuration and variants alike)
        if kind == "arc":
            ctx.label("haversine")
        if config["tree"] == "KD":
            ctx.label("kd")
        if config["leaf_size"] is not None:
            ctx.label("leaf-%d" % config["leaf_size"])
        rad = config["radius"]
        if rad["style"] == "number":
            ctx.label("units-number")
        else:
            ctx.label("units-" + (UNIT_CLASS[rad["unit"]] if rad["unit"]
                                  else "bare-string"))
        if not config["return_distance"]:
            ctx.label("no-distance")
        ctx.label("shuffle-" + config["shuffle"]["mode"])
        if perm is not None:
            if perm == list(range(nb)):
                ctx.label("perm-identity")
            hits_b = np.nonzero(must.any(axis=1))[0]
            if perm[0] != 0 and perm[0] in hits_b:
                ctx.label("perm-moves-hit-to-0")
        first = 0 if perm is None else perm[0]
        if n_exp == 1 and must[first, 0] and np.count_nonzero(may) == 1:
            ctx.label("only-00")
        if ci == 0:
            if n_exp == 0:
                ctx.label("empty")
            if n_exp == nb * nq:
                ctx.label("all-pairs")
            if n_exp and n_exp < nb * nq:
                ctx.nontrivial = True
            near = np.abs(ref - r) <= S.LD(2e-3) * r
            if near.any():
                ctx.label("straddle-r")
            if (must & ~may).any():    # never
                raise RuntimeError("harness: inconsistent bands")
            if (may & ~must).any():
                ctx.label("in-band")

        # every permutation of a small build set (the schedule, enumerated)
        if ci == 0 and nb <= 4 and config["shuffle"]["mode"] == "perm" \
                and case.get("all_perms", True):
            ctx.label("all-perms")
            for pm in itertools.permutations(range(nb)):
                cfg = dict(config)
                cfg["shuffle"] = {"mode": "perm", "perm": list(pm)}
                pairs, dist, _ = run_query(build, query, cfg)
                compare(ctx, tag, cfg, pairs, dist, ref, must, may, kind,
                        lambda cfg=cfg: "permutation %r\n%s" % (
                            cfg["shuffle"]["perm"], describe()))

    # geometry labels
    blat, blon = case["build"]["lat"], case["build"]["lon"]
    qlat, qlon = case["query"]["lat"], case["query"]["lon"]
    if any(P.near_pole(v) for v in blat + qlat):
        ctx.label("pole")
    ang = S.angle_matrix(build[0], build[1], query[0], query[1]) \
        if nb * nq <= 250000 else None
    if ang is not None and (ang > S.PI - S.LD(1e-3)).any():
        ctx.label("antipode")
    if blon and qlon and (max(blon + qlon) - min(blon + qlon)) > 180.0 \
            and (max(blon + qlon) > 179.0 or min(blon + qlon) < -179.0):
        ctx.label("dateline")
    if len({(a, b) for a, b in zip(blat, blon)}) < nb:
        ctx.label("dup-build")
    if nb == 1:
        ctx.label("single-build-point")
    if nb > 40:
        ctx.label("build>40")
    if nb > 400:
        ctx.label("build>400")


# --------------------------------------------------------------------------
# strategies
# --------------------------------------------------------------------------
def radius_specs(r_nominal=None):
    """radius spec; value * factor(unit) is the radius in km"""
    @st.composite
    def build(draw):
        if r_nominal is None:
            r = draw(st.one_of(
                st.floats(-3.0, math.log10(20000.0)).map(lambda e: 10.0 ** e),
                st.sampled_from([0.001, 0.05, 1.0, 5.0, 100.0, 1000.0,
                                 5000.0, 12000.0, 20000.0])))
        else:
            r = r_nominal
        style = draw(st.sampled_from(["number", "number", "space", "space",
                                      "nospace"]))
        if style == "number":
            unit = None
        else:
            unit = draw(st.one_of(
                st.sampled_from(["km", "m", "cm", "miles", "mi", "ft", "yd"]),
                st.sampled_from(sorted(UNITS)), st.none()))
        num, den = UNITS[unit or "km"]
        value = float("%.6g" % (r * den / num))
        value = min(value, float("%.6g" % (20000.0 * den / num)))
        as_int = style == "number" and value.is_integer() and draw(
            st.booleans())
        return {"value": value, "unit": unit, "style": style,
                "as_int": as_int}
    return build()


permutations_of = P.permutations_of


@st.composite
def shuffle_specs(draw, n):
    mode = draw(st.sampled_from(["perm"] * 6 + ["seed", "seed", "off", "off"]))
    if mode == "perm":
        return {"mode": "perm", "perm": draw(permutations_of(n)),
                "explicit_true": draw(st.booleans())}
    if mode == "seed":
        return {"mode": "seed", "seed": draw(st.integers(0, 2 ** 32 - 1))}
    return {"mode": "off"}


@st.composite
def configs(draw, n, radius, metric=None):
    if metric is None:
        metric = draw(st.sampled_from(["minkowski", "haversine"]))
    if metric == "haversine":
        metric_arg, tree = "haversine", draw(st.sampled_from([None, "Ball"]))
    else:
        metric_arg = draw(st.sampled_from([None, "minkowski"]))
        tree = draw(st.sampled_from([None, "Ball", "KD", "KD"]))
    return {"metric_arg": metric_arg, "tree": tree,
            "leaf_size": draw(st.sampled_from([None, 1, 2, 40])),
            "shuffle": draw(shuffle_specs(n)),
            "radius": radius,
            "return_distance": draw(st.sampled_from([True] * 4 + [False]))}


def respell(radius):
    """another spelling of (nearly) the same radius; the reference radius of
    a variant is recomputed from its own spelling"""
    r_km = float(radius_km_exact(radius))
    return radius_specs(r_km)


@st.composite
def query_cases(draw, tier="quick", big=False):
    radius = draw(radius_specs())
    r_km = float(radius_km_exact(radius))
    metric = draw(st.sampled_from(["minkowski", "haversine"]))
    kind = "arc" if metric == "haversine" else "chord"
    if big:
        tile = {"copies": [(2, 13), (1, 13)] if tier == "quick"
                else [(2, 125), (1, 4)]}
        sizes = [(10, 40), (1, 12)]
    else:
        tile = draw(st.sampled_from([None, None, None, {"copies": (1, 4)}]))
        sizes = [(1, 30), (1, 20)]
    cloud = draw(P.clouds(r_km, None, n_sets=2, metric=kind, allow_nan=False,
                          allow_far=True, tile=tile, sizes=sizes))
    b, q = cloud["sets"]
    if draw(st.sampled_from([False] * 7 + [True])) and len(b["lat"]) <= 1500:
        q = b          # query the build points themselves
    n = len(b["lat"])
    config = draw(configs(n, radius, metric))
    nvar = draw(st.integers(0, 1 if big else 3))
    variants = []
    for _ in range(nvar):
        variants.append(draw(configs(
            n, draw(st.one_of(st.just(radius), respell(radius))))))
    return {"build": {"lat": b["lat"], "lon": b["lon"]},
            "query": {"lat": q["lat"], "lon": q["lon"]},
            "config": config, "variants": variants}


def small_perm_cases():
    """all permutations of <= 5 build points for a fixed family of
    geometries (points on the equator / a meridian through the pole)"""
    for geom in ("equator", "pole"):
        for n in range(1, 6):
            if geom == "equator":
                blat = [0.0] * n
                blon = [float(i) for i in range(n)]
                queries = [([0.0], [0.0]), ([0.0], [float(n // 2)]),
                           ([0.0, 0.0], [0.0, float(n - 1)])]
            else:
                blat = [90.0 - i for i in range(n)]
                blon = [180.0 if i % 2 else 0.0 for i in range(n)]
                queries = [([90.0], [77.0]), ([89.0], [180.0])]
            for qlat, qlon in queries:
                for r in (50.0, 120.0, 1000.0):
                    for metric_arg in (None, "haversine"):
                        for rd in (True, False):
                            for pm in itertools.permutations(range(n)):
                                yield {
                                    "build": {"lat": blat, "lon": blon},
                                    "query": {"lat": qlat, "lon": qlon},
                                    "all_perms": False,
                                    "config": {
                                        "metric_arg": metric_arg,
                                        "tree": None, "leaf_size": None,
                                        "shuffle": {"mode": "perm",
                                                    "perm": list(pm)},
                                        "radius": {"value": r, "unit": None,
                                                   "style": "number"},
                                        "return_distance": rd},
                                    "variants": []}


# --------------------------------------------------------------------------
# RangeTree (typhon/trees.py): the 1-d sibling with the same shuffle scheme
# --------------------------------------------------------------------------
def check_rangetree(case, ctx):
    from typhon.trees import RangeTree
    build = np.array(case["build"], dtype=float)
    query = np.array(case["query"], dtype=float)
    r = float(case["r"])
    diff = np.abs(build[:, None].astype(S.LD) - query[None, :].astype(S.LD))
    band = S.LD(1e-9) * (S.LD(1) + S.LD(r))
    must = diff < r - band
    may = diff <= r + band
    kwargs = {}
    if case["tree"] is not None:
        kwargs["tree_class"] = case["tree"]
    sh = case["shuffle"]
    if sh["mode"] == "off":
        kwargs["shuffle"] = False
    with PinnedShuffle(sh):
        tree = RangeTree(build.copy(), **kwargs)
        pairs = tree.query_radius(query.copy(), r)

    def describe():
        return "build=%r query=%r r=%r tree=%r shuffle=%r" % (
            case["build"], case["query"], r, case["tree"], sh)
    compare(ctx, "/rangetree", case, pairs, None, diff, must, may, "chord",
            describe)
    ctx.label("rangetree", "shuffle-" + sh["mode"])
    n_exp = int(np.count_nonzero(must))
    if n_exp == 0:
        ctx.label("rangetree-empty")
    if n_exp and n_exp < must.size:
        ctx.nontrivial = True


@st.composite
def rangetree_cases(draw):
    val = st.one_of(st.integers(-12, 12).map(lambda k: k / 4.0),
                    st.floats(-1e3, 1e3, allow_nan=False))
    build = draw(st.lists(val, min_size=1, max_size=30))
    query = draw(st.lists(val, min_size=1, max_size=12))
    r = draw(st.one_of(st.integers(0, 12).map(lambda k: k / 4.0),
                       st.floats(0.0, 50.0, allow_nan=False)))
    mode = draw(st.sampled_from(["perm", "perm", "perm", "seed", "off"]))
    if mode == "perm":
        sh = {"mode": "perm", "perm": draw(permutations_of(len(build)))}
    elif mode == "seed":
        sh = {"mode": "seed", "seed": draw(st.integers(0, 2 ** 32 - 1))}
    else:
        sh = {"mode": "off"}
    return {"build": build, "query": query, "r": r, "shuffle": sh,
            "tree": draw(st.sampled_from([None, "Ball", "KD"]))}


def suites(tier):
    return [
        Suite("query", check_query, strategy=query_cases(tier),
              examples={"quick": 330, "thorough": 7000}),
        Suite("query-big", check_query, strategy=query_cases(tier, big=True),
              examples={"quick": 45, "thorough": 1000}),
        Suite("small-perms-exhaustive", check_query, cases=small_perm_cases,
              exhaustive=True),
        Suite("rangetree", check_rangetree, strategy=rangetree_cases(),
              examples={"quick": 100, "thorough": 2000}),
    ]
