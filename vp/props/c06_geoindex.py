"""C06 - GeoIndex.query returns exactly the points within the radius.

Oracle: dense distance matrix in long double (vp/oracle/sphere.py), chord for
the default metric, great-circle arc for metric='haversine'.  The random
shuffle inside GeoIndex is owned by the case: numpy.random.shuffle is replaced
for the duration of the call by a function applying the permutation stored in
the case (or the global generator is seeded from the case).
"""
import itertools
import math

import numpy as np
from hypothesis import strategies as st

from vp.runner import Suite
from vp.gen import points as P
from vp.oracle import sphere as S

PROP_ID = "C06"
LEVEL = "exploration"
QUICK_SHARDS = 4
RULE = (
    "Hypothesis draws build and query points from shared clusters (centres "
    "anywhere with extra weight on poles / date line / equator, members at "
    "{0, 1/2, 1-1e-3, 1+1e-3, 3} x radius from the centre measured in the "
    "metric under test, some around the antipode, duplicates, optional tiling "
    "to several hundred points), a radius log-uniform in 1 m .. 20000 km "
    "written as number or unit string, metric, tree class, leaf size and the "
    "shuffle permutation (explicit permutation applied through a replaced "
    "numpy.random.shuffle, seeded real shuffle, or shuffle off); every case is "
    "also run under drawn variant configurations, and for <= 4 build points "
    "under all permutations.  All permutations of <= 5 build points are "
    "enumerated for a fixed family of geometries.  Oracle = long-double "
    "distance matrix.  Non-trivial = at least one expected pair and one "
    "expected non-pair.  Distinct = distinct case hash."
)
ASSUMPTIONS = [
    "lat / lon are finite 1-d numpy arrays, lat in [-90, 90], lon in "
    "[-180, 180] (documented input domain); no NaN positions",
    "the sphere is the one of typhon.constants.earth_radius",
    "pairs whose reference distance is within 1e-9*r + 1e-7 km of r (for "
    "haversine additionally the conditioning of the double-precision "
    "haversine formula near the antipode, <= 0.26 m) may be reported or not",
    "KD trees only with the default metric (scikit-learn rejects haversine)",
    "radius <= 20000 km, so the exact antipode (20037 km) is never inside",
]

UNITS, UNIT_CLASS = P.UNITS, P.UNIT_CLASS
radius_km_exact, radius_argument = P.radius_km_exact, P.radius_argument
PinnedShuffle = P.PinnedShuffle


def run_query(build, query, config, ctx=None):
    """-> (pairs, distances or None, effective permutation or None)"""
    from typhon.geographical import GeoIndex
    kwargs = {}
    if config["metric_arg"] is not None:
        kwargs["metric"] = config["metric_arg"]
    if config["tree"] is not None:
        kwargs["tree_class"] = config["tree"]
    if config["leaf_size"] is not None:
        kwargs["leaf_size"] = config["leaf_size"]
    sh = config["shuffle"]
    if sh["mode"] == "off":
        kwargs["shuffle"] = False
    elif sh.get("explicit_true"):
        kwargs["shuffle"] = True
    r = radius_argument(config["radius"])
    given = [build[0].copy(), build[1].copy(), query[0].copy(),
             query[1].copy()]
    with PinnedShuffle(sh):
        index = GeoIndex(given[0], given[1], **kwargs)
        if config["return_distance"]:
            pairs, dist = index.query(given[2], given[3], r)
        else:
            pairs = index.query(given[2], given[3], r=r,
                                return_distance=False)
            dist = None
        perm = None if index.shuffler is None else \
            [int(x) for x in index.shuffler]
    if ctx is not None:
        inputs_unchanged(ctx, given, [build[0], build[1], query[0],
                                      query[1]], config)
    return pairs, dist, perm


def inputs_unchanged(ctx, given, originals, config):
    names = ("build lat", "build lon", "query lat", "query lon")
    for name, arr, orig in zip(names, given, originals):
        same = arr.dtype == orig.dtype and arr.shape == orig.shape \
            and np.array_equal(arr, orig)
        ctx.check(same, "input/modified", lambda: (
            "GeoIndex / query changed the %s array it was given: %r -> %r "
            "(config %r)" % (name, orig[:10], arr[:10], config)))


def compare(ctx, tag, config, pairs, dist, ref, must, may, kind, describe):
    """pairs / distances of one query against the reference matrix
    (vectorised: big cases have millions of pairs)"""
    nb, nq = ref.shape
    pairs = np.asarray(pairs)
    if pairs.size == 0:
        pb = pq = np.zeros(0, dtype=int)
    else:
        ctx.check(pairs.ndim == 2 and pairs.shape[0] == 2,
                  "pairs/shape" + tag,
                  lambda: "pairs has shape %r\n%s" % (pairs.shape, describe()))
        if not (pairs.ndim == 2 and pairs.shape[0] == 2):
            return
        ctx.check(np.issubdtype(pairs.dtype, np.integer), "pairs/dtype" + tag,
                  lambda: "pairs has dtype %r\n%s" % (pairs.dtype, describe()))
        if not np.issubdtype(pairs.dtype, np.integer):
            return
        pb, pq = pairs[0].astype(np.int64), pairs[1].astype(np.int64)
    bad = (pb < 0) | (pb >= nb) | (pq < 0) | (pq >= nq)
    ctx.check(not bad.any(), "pairs/index-out-of-range" + tag, lambda: (
        "pairs outside %d build x %d query points: %r\n%s"
        % (nb, nq, list(zip(pb[bad][:10].tolist(), pq[bad][:10].tolist())),
           describe())))
    if bad.any():
        return
    lin = pb * nq + pq
    ndist = np.unique(lin).size
    ctx.check(ndist == lin.size, "pairs/duplicates" + tag, lambda: (
        "%d pairs, %d distinct\n%s" % (lin.size, ndist, describe())))
    hit = np.zeros((nb, nq), dtype=bool)
    hit[pb, pq] = True
    missing = must & ~hit
    extra = hit & ~may
    wrong = bool(missing.any() or extra.any())
    ctx.check(not wrong, "pairs/wrong-set" + tag, lambda: (
        "missing (build, query) pairs %r, unexpected pairs %r\n%s" % (
            [(int(a), int(b), float(ref[a, b]))
             for a, b in list(zip(*np.nonzero(missing)))[:8]],
            [(int(a), int(b), float(ref[a, b]))
             for a, b in list(zip(*np.nonzero(extra)))[:8]], describe())))
    if dist is None or wrong:
        return
    dist = np.asarray(dist)
    ctx.check(dist.shape == (lin.size,), "distances/shape" + tag, lambda: (
        "distances has shape %r for %d pairs\n%s"
        % (dist.shape, lin.size, describe())))
    if dist.shape != (lin.size,) or not lin.size:
        return
    want = ref[pb, pq]
    tol = S.value_tol_km(want, kind)
    err = np.abs(dist.astype(S.LD) - want)
    ok = err <= tol
    ctx.check(bool(ok.all()), "distances/wrong-value" + tag, lambda: (
        "pair %r: distance %.12g km, reference %.12g km (tolerance %.3g)\n%s"
        % ((int(pb[np.argmin(ok)]), int(pq[np.argmin(ok)])),
           float(dist[np.argmin(ok)]), float(want[np.argmin(ok)]),
           float(tol[np.argmin(ok)]), describe())))


def typed_arrays(pset, dtypes):
    """(lat, lon) arrays in the dtypes of the case (whole degrees may come
    as integer arrays); the oracle converts them to long double itself"""
    out = []
    for name, dtype in zip(("lat", "lon"), dtypes or ("float64", "float64")):
        arr = np.array(pset[name], dtype=float)
        if dtype != "float64":
            cast = arr.astype(dtype)
            if not np.array_equal(cast.astype(float), arr):
                raise RuntimeError("harness: %s values are not whole" % name)
            arr = cast
        out.append(arr)
    return tuple(out)


def check_query(case, ctx):
    dtypes = case.get("dtypes") or {}
    build = typed_arrays(case["build"], dtypes.get("build"))
    query = typed_arrays(case["query"], dtypes.get("query"))
    for arr in build + query:
        if arr.dtype != np.float64:
            ctx.label("integer-array", "dtype-%s" % arr.dtype)
    nb, nq = build[0].size, query[0].size
    configs = [case["config"]] + list(case.get("variants", []))
    refs = {}
    for ci, config in enumerate(configs):
        kind = "arc" if config["metric_arg"] == "haversine" else "chord"
        if kind not in refs:
            refs[kind] = S.distance_matrix(build[0], build[1], query[0],
                                           query[1], kind)
        ref = refs[kind]
        r = radius_km_exact(config["radius"])
        band = S.band_km(r, ref, kind) \
            + S.LD(P.radius_rel_slack(config["radius"])) * r
        must = ref < r - band
        may = ref <= r + band
        n_exp = int(np.count_nonzero(must))

        def describe(config=config, r=r):
            return ("config=%r radius_km=%.12g\nbuild lat=%r lon=%r\nquery "
                    "lat=%r lon=%r" % (
                        config, float(r),
                        case["build"]["lat"][:20], case["build"]["lon"][:20],
                        case["query"]["lat"][:20], case["query"]["lon"][:20]))

        pairs, dist, perm = run_query(build, query, config, ctx)
        tag = "" if config["return_distance"] else "/return_distance=False"
        compare(ctx, tag, config, pairs, dist, ref, must, may, kind, describe)

        # labels (main configuration and variants alike)
        if kind == "arc":
            ctx.label("haversine")
        if config["tree"] == "KD":
            ctx.label("kd")
        if config["leaf_size"] is not None:
            ctx.label("leaf-%d" % config["leaf_size"])
        rad = config["radius"]
        if rad["style"] == "number":
            ctx.label("units-number")
            if rad.get("np_type"):
                ctx.label("radius-np-" + rad["np_type"])
                if rad["np_type"] in ("int16", "uint16") \
                        and rad["value"] * 1000 > P.NP_INT_TYPES[
                            rad["np_type"]]:
                    ctx.label("radius-np-16bit-overflows-in-metres")
        else:
            ctx.label("units-" + (UNIT_CLASS[rad["unit"]] if rad["unit"]
                                  else "bare-string"))
        if rad.get("fmt"):
            txt = radius_argument(rad)
            num = rad["fmt"]["num"]
            if num in ("exp", "EXP"):
                ctx.label("spelling-exponent")
            if txt.lstrip().startswith((".", "+.")):
                ctx.label("spelling-no-leading-zero")
            if txt.lstrip().startswith("+"):
                ctx.label("spelling-plus")
            if txt != txt.strip():
                ctx.label("spelling-blanks")
        if not config["return_distance"]:
            ctx.label("no-distance")
        ctx.label("shuffle-" + config["shuffle"]["mode"])
        if perm is not None:
            if perm == list(range(nb)):
                ctx.label("perm-identity")
            hits_b = np.nonzero(must.any(axis=1))[0]
            if perm[0] != 0 and perm[0] in hits_b:
                ctx.label("perm-moves-hit-to-0")
        first = 0 if perm is None else perm[0]
        if n_exp == 1 and must[first, 0] and np.count_nonzero(may) == 1:
            ctx.label("only-00")
        if ci == 0:
            if n_exp == 0:
                ctx.label("empty")
            if n_exp == nb * nq:
                ctx.label("all-pairs")
            if n_exp and n_exp < nb * nq:
                ctx.nontrivial = True
            near = np.abs(ref - r) <= S.LD(2e-3) * r
            if near.any():
                ctx.label("straddle-r")
            if (must & ~may).any():    # never
                raise RuntimeError("harness: inconsistent bands")
            if (may & ~must).any():
                ctx.label("in-band")

        # every permutation of a small build set (the schedule, enumerated)
        if ci == 0 and nb <= 4 and config["shuffle"]["mode"] == "perm" \
                and case.get("all_perms", True):
            ctx.label("all-perms")
            for pm in itertools.permutations(range(nb)):
                cfg = dict(config)
                cfg["shuffle"] = {"mode": "perm", "perm": list(pm)}
                pairs, dist, _ = run_query(build, query, cfg, ctx)
                compare(ctx, tag, cfg, pairs, dist, ref, must, may, kind,
                        lambda cfg=cfg: "permutation %r\n%s" % (
                            cfg["shuffle"]["perm"], describe()))

    if case.get("block_sizes"):
        side, n = ("query", nq) if nq > nb else ("build", nb)
        ctx.label("many-%s-points" % side)
        for blk in (1024, 2048, 4096):
            if n > blk and n % blk:
                ctx.label("many-%s-points>%d-not-multiple" % (side, blk))
        if nq > 2048 and must[:, 2048:].any():
            ctx.label("hit-beyond-query-2048")
    if case.get("meridional"):
        ctx.label("meridional")
        if must.any() and config["metric_arg"] != "haversine":
            dlat = np.abs(build[0][:, None] - query[0][None, :])
            arc_deg = float(r / S.radius_km()) * 180.0 / math.pi
            if (dlat[must] > arc_deg).any():
                ctx.label("meridional-pair-beyond-arc-band")
            if query[0].min() > build[0].max() + arc_deg \
                    or query[0].max() < build[0].min() - arc_deg:
                ctx.label("meridional-all-queries-beyond-arc-band")
    # geometry labels
    blat, blon = case["build"]["lat"], case["build"]["lon"]
    qlat, qlon = case["query"]["lat"], case["query"]["lon"]
    if any(P.near_pole(v) for v in blat + qlat):
        ctx.label("pole")
    ang = S.angle_matrix(build[0], build[1], query[0], query[1]) \
        if nb * nq <= 250000 else None
    if ang is not None and (ang > S.PI - S.LD(1e-3)).any():
        ctx.label("antipode")
    if blon and qlon and (max(blon + qlon) - min(blon + qlon)) > 180.0 \
            and (max(blon + qlon) > 179.0 or min(blon + qlon) < -179.0):
        ctx.label("dateline")
    if len({(a, b) for a, b in zip(blat, blon)}) < nb:
        ctx.label("dup-build")
    if nb == 1:
        ctx.label("single-build-point")
    if nb > 40:
        ctx.label("build>40")
    if nb > 400:
        ctx.label("build>400")


# --------------------------------------------------------------------------
# strategies
# --------------------------------------------------------------------------
def radius_specs(r_nominal=None):
    """radius spec; value * factor(unit) is the radius in km"""
    @st.composite
    def build(draw):
        if r_nominal is None:
            r = draw(st.one_of(
                st.floats(-3.0, math.log10(20000.0)).map(lambda e: 10.0 ** e),
                st.floats(-3.0, math.log10(20000.0)).map(lambda e: 10.0 ** e),
                st.sampled_from([0.001, 0.05, 1.0, 5.0, 100.0, 1000.0,
                                 5000.0, 12000.0, 20000.0]),
                st.integers(1, 150).map(float),
                st.integers(1, 20000).map(float)))
        else:
            r = r_nominal
        style = draw(st.sampled_from(["number", "number", "space", "space",
                                      "nospace"]))
        if style == "number":
            unit = None
        else:
            unit = draw(st.one_of(
                st.sampled_from(["km", "m", "cm", "miles", "mi", "ft", "yd"]),
                st.sampled_from(sorted(UNITS)), st.none()))
        fmt = draw(P.text_formats()) if style != "number" else None
        if fmt and fmt["num"] in ("nozero", "plus-nozero"):
            # '.5 km': prefer a unit in which the number is below one
            cands = [u for u in ("km", "miles", "mi", "kilometers", "m",
                                 "meters", "yd", "ft", "feet", "cm")
                     if 1e-4 <= r * UNITS[u][1] / UNITS[u][0] < 1.0]
            if cands:
                unit = draw(st.sampled_from(cands))
        num, den = UNITS[unit or "km"]
        value = float("%.6g" % (r * den / num))
        value = min(value, float("%.6g" % (20000.0 * den / num)))
        as_int = style == "number" and value.is_integer() and draw(
            st.booleans())
        spec = {"value": value, "unit": unit, "style": style,
                "as_int": as_int}
        if fmt is not None:
            spec["fmt"] = fmt
        if style == "number" and draw(st.sampled_from([False, True])):
            # the number as NumPy scalar (same reference radius)
            spec["np_type"] = draw(st.sampled_from(
                sorted(P.np_scalar_types(value))))
        return spec
    return build()


permutations_of = P.permutations_of


@st.composite
def shuffle_specs(draw, n):
    mode = draw(st.sampled_from(["perm"] * 6 + ["seed", "seed", "off", "off"]))
    if mode == "perm":
        return {"mode": "perm", "perm": draw(permutations_of(n)),
                "explicit_true": draw(st.booleans())}
    if mode == "seed":
        return {"mode": "seed", "seed": draw(st.integers(0, 2 ** 32 - 1))}
    return {"mode": "off"}


@st.composite
def configs(draw, n, radius, metric=None):
    if metric is None:
        metric = draw(st.sampled_from(["minkowski", "haversine"]))
    if metric == "haversine":
        metric_arg, tree = "haversine", draw(st.sampled_from([None, "Ball"]))
    else:
        metric_arg = draw(st.sampled_from([None, "minkowski"]))
        tree = draw(st.sampled_from([None, "Ball", "KD", "KD"]))
    return {"metric_arg": metric_arg, "tree": tree,
            "leaf_size": draw(st.sampled_from([None, 1, 2, 40])),
            "shuffle": draw(shuffle_specs(n)),
            "radius": radius,
            "return_distance": draw(st.sampled_from([True] * 4 + [False]))}


def respell(radius):
    """another spelling of (nearly) the same radius; the reference radius of
    a variant is recomputed from its own spelling"""
    r_km = float(radius_km_exact(radius))
    return radius_specs(r_km)


@st.composite
def query_cases(draw, tier="quick", big=False):
    radius = draw(radius_specs())
    r_km = float(radius_km_exact(radius))
    metric = draw(st.sampled_from(["minkowski", "haversine"]))
    kind = "arc" if metric == "haversine" else "chord"
    if big:
        tile = {"copies": [(2, 13), (1, 13)] if tier == "quick"
                else [(2, 125), (1, 4)]}
        sizes = [(10, 40), (1, 12)]
    else:
        tile = draw(st.sampled_from([None, None, None, {"copies": (1, 4)}]))
        sizes = [(1, 30), (1, 20)]
    cloud = draw(P.clouds(r_km, None, n_sets=2, metric=kind, allow_nan=False,
                          allow_far=True, tile=tile, sizes=sizes))
    b, q = cloud["sets"]
    if draw(st.sampled_from([False] * 7 + [True])) and len(b["lat"]) <= 1500:
        q = b          # query the build points themselves
    n = len(b["lat"])
    config = draw(configs(n, radius, metric))
    nvar = draw(st.integers(0, 1 if big else 3))
    variants = []
    for _ in range(nvar):
        variants.append(draw(configs(
            n, draw(st.one_of(st.just(radius), respell(radius))))))
    return {"build": {"lat": b["lat"], "lon": b["lon"]},
            "query": {"lat": q["lat"], "lon": q["lon"]},
            "config": config, "variants": variants}


BLOCK_SIZES = [1023, 1024, 1025, 2047, 2048, 2049, 2050, 3000, 4095, 4096,
               4097, 5000, 6000]


@st.composite
def block_size_cases(draw):
    """Many points on one side (counts straddling plausible internal block
    sizes 1024 / 2048 / 4096, up to 6000) against 1-8 points on the other:
    the members of a small cloud are repeated cyclically (optionally rotated
    about the axis) and put into a drawn order, so that hits occur at every
    position of the long array; the reference matrix stays small."""
    radius = draw(radius_specs())
    r_km = float(radius_km_exact(radius))
    metric = draw(st.sampled_from(["minkowski", "haversine"]))
    kind = "arc" if metric == "haversine" else "chord"
    cloud = draw(P.clouds(r_km, None, n_sets=2, metric=kind, allow_nan=False,
                          allow_far=False, sizes=[(1, 8), (3, 30)],
                          max_clusters=3))
    few, base = cloud["sets"]
    n = draw(st.one_of(st.sampled_from(BLOCK_SIZES),
                       st.sampled_from(BLOCK_SIZES),
                       st.integers(2049, 6000)))
    m = len(base["lat"])
    dlon = draw(st.sampled_from([0.0, 0.0, 0.0, 1e-4, 360.0 * m / n]))
    order = draw(P.permutations_of(n))
    lat, lon = [], []
    for k in order:
        lat.append(base["lat"][k % m])
        lon.append(P._rotate(base["lon"][k % m], (k // m) * dlon))
    many = {"lat": lat, "lon": lon}
    few = {"lat": few["lat"], "lon": few["lon"]}
    if draw(st.sampled_from([True, True, False])):
        b, q = few, many
    else:
        b, q = many, few
    config = draw(configs(len(b["lat"]), radius, metric))
    return {"build": b, "query": q, "config": config, "variants": [],
            "all_perms": False, "block_sizes": True}


def small_perm_cases():
    """all permutations of <= 5 build points for a fixed family of
    geometries (points on the equator / a meridian through the pole)"""
    for geom in ("equator", "pole"):
        for n in range(1, 6):
            if geom == "equator":
                blat = [0.0] * n
                blon = [float(i) for i in range(n)]
                queries = [([0.0], [0.0]), ([0.0], [float(n // 2)]),
                           ([0.0, 0.0], [0.0, float(n - 1)])]
            else:
                blat = [90.0 - i for i in range(n)]
                blon = [180.0 if i % 2 else 0.0 for i in range(n)]
                queries = [([90.0], [77.0]), ([89.0], [180.0])]
            for qlat, qlon in queries:
                for r in (50.0, 120.0, 1000.0):
                    for metric_arg in (None, "haversine"):
                        for rd in (True, False):
                            for pm in itertools.permutations(range(n)):
                                yield {
                                    "build": {"lat": blat, "lon": blon},
                                    "query": {"lat": qlat, "lon": qlon},
                                    "all_perms": False,
                                    "config": {
                                        "metric_arg": metric_arg,
                                        "tree": None, "leaf_size": None,
                                        "shuffle": {"mode": "perm",
                                                    "perm": list(pm)},
                                        "radius": {"value": r, "unit": None,
                                                   "style": "number"},
                                        "return_distance": rd},
                                    "variants": []}


# --------------------------------------------------------------------------
# RangeTree (typhon/trees.py): the 1-d sibling with the same shuffle scheme
# --------------------------------------------------------------------------
def check_rangetree(case, ctx):
    from typhon.trees import RangeTree
    build = np.array(case["build"], dtype=float)
    query = np.array(case["query"], dtype=float)
    r = float(case["r"])
    diff = np.abs(build[:, None].astype(S.LD) - query[None, :].astype(S.LD))
    band = S.LD(1e-9) * (S.LD(1) + S.LD(r))
    must = diff < r - band
    may = diff <= r + band
    kwargs = {}
    if case["tree"] is not None:
        kwargs["tree_class"] = case["tree"]
    sh = case["shuffle"]
    if sh["mode"] == "off":
        kwargs["shuffle"] = False
    with PinnedShuffle(sh):
        tree = RangeTree(build.copy(), **kwargs)
        pairs = tree.query_radius(query.copy(), r)

    def describe():
        return "build=%r query=%r r=%r tree=%r shuffle=%r" % (
            case["build"], case["query"], r, case["tree"], sh)
    compare(ctx, "/rangetree", case, pairs, None, diff, must, may, "chord",
            describe)
    ctx.label("rangetree", "shuffle-" + sh["mode"])
    n_exp = int(np.count_nonzero(must))
    if n_exp == 0:
        ctx.label("rangetree-empty")
    if n_exp == 1 and sh["mode"] == "perm" and sh["perm"][0] != 0 \
            and must[sh["perm"][0], 0] and np.count_nonzero(may) == 1:
        ctx.label("rangetree-only-00-moved")
    if n_exp and n_exp < must.size:
        ctx.nontrivial = True


@st.composite
def rangetree_cases(draw):
    val = st.one_of(st.integers(-12, 12).map(lambda k: k / 4.0),
                    st.floats(-1e3, 1e3, allow_nan=False))
    build = draw(st.lists(val, min_size=1, max_size=30))
    query = draw(st.lists(val, min_size=1, max_size=12))
    r = draw(st.one_of(st.integers(0, 12).map(lambda k: k / 4.0),
                       st.floats(0.0, 50.0, allow_nan=False)))
    mode = draw(st.sampled_from(["perm", "perm", "perm", "seed", "off"]))
    if mode == "perm":
        sh = {"mode": "perm", "perm": draw(permutations_of(len(build)))}
    elif mode == "seed":
        sh = {"mode": "seed", "seed": draw(st.integers(0, 2 ** 32 - 1))}
    else:
        sh = {"mode": "off"}
    if len(build) >= 2 and draw(st.sampled_from([False, False, True])):
        # exactly one hit: query 0 with the build point that the shuffle
        # moves to slot 0 (and that is not point 0)
        r = draw(st.sampled_from([0.25, 1.0, 3.0]))
        q0 = draw(st.integers(-12, 12)) / 4.0
        j = draw(st.integers(1, len(build) - 1))
        far = 2.0 * r + 10.0
        build = [q0 + far * (i + 1) * (1 if i % 2 else -1)
                 for i in range(len(build))]
        build[j] = q0 + draw(st.sampled_from([0.0, r / 2.0, -r / 2.0]))
        query = [q0] + [q0 + far * (len(build) + 2 + i) + r * 3
                        for i in range(draw(st.integers(0, 2)))]
        sh = {"mode": "perm",
              "perm": [j] + [i for i in range(len(build)) if i != j]}
    return {"build": build, "query": query, "r": r, "shuffle": sh,
            "tree": draw(st.sampled_from([None, "Ball", "KD"]))}


# --------------------------------------------------------------------------
# meridional pairs just inside a large chord radius
# --------------------------------------------------------------------------
@st.composite
def meridional_cases(draw):
    """One tight build cluster and 1-3 query points that are ALL displaced
    (nearly) along the meridian, in the same direction, by a chord just
    below (some just above) a large radius: for the chord metric the
    latitude difference of such a pair exceeds r / R, the arc the same
    length would span.  Also across the pole."""
    r = draw(st.one_of(
        st.floats(3.0, math.log10(12500.0)).map(lambda e: 10.0 ** e),
        st.sampled_from([1000.0, 2000.0, 5000.0, 10000.0])))
    radius = draw(radius_specs(r))
    r_km = float(radius_km_exact(radius))
    metric = draw(st.sampled_from(["minkowski"] * 4 + ["haversine"]))
    kind = "arc" if metric == "haversine" else "chord"
    lat0 = draw(st.one_of(st.floats(-89.0, 89.0), P.latitudes()))
    lon0 = draw(P.longitudes())
    nb = draw(st.integers(1, 4))
    blat, blon = [lat0], [lon0]
    for _ in range(nb - 1):
        la, lo = S.destination(lat0, lon0, draw(st.sampled_from(
            [90.0, 270.0, 90.0, 270.0, 0.0, 180.0])),
            draw(st.sampled_from([0.0, 1e-6, 1e-4, 1e-3])))
        blat.append(la)
        blon.append(lo)
    bearing = draw(st.sampled_from([0.0, 180.0]))
    # measured from the build point that is foremost in that direction
    k = max(range(nb), key=lambda i: blat[i] if bearing == 0.0 else -blat[i])
    nq = draw(st.integers(1, 3))
    factors = [draw(st.sampled_from([1 - 1e-4, 1 - 3e-4, 1 - 1e-3]))]
    for _ in range(nq - 1):
        factors.append(draw(st.sampled_from(
            [1 - 1e-4, 1 - 3e-4, 1 - 1e-3, 1 + 1e-4, 1 + 1e-3, 1.5])))
    qlat, qlon = [], []
    for f in factors:
        ang = P._angle_for(f * r_km, kind)
        dev = draw(st.sampled_from([0.0, 0.0, 1e-3, -1e-3]))
        la, lo = S.destination(blat[k], blon[k], bearing + dev, ang)
        qlat.append(la)
        qlon.append(lo)
    config = draw(configs(nb, radius, metric))
    return {"build": {"lat": blat, "lon": blon},
            "query": {"lat": qlat, "lon": qlon},
            "config": config, "variants": [], "all_perms": False,
            "meridional": True}


# --------------------------------------------------------------------------
# histories of queries on one GeoIndex, query arrays updated in place
# --------------------------------------------------------------------------
def check_history(case, ctx):
    from typhon.geographical import GeoIndex
    config = case["config"]
    build = (np.array(case["build"]["lat"], dtype=float),
             np.array(case["build"]["lon"], dtype=float))
    kind = "arc" if config["metric_arg"] == "haversine" else "chord"
    kwargs = {}
    if config["metric_arg"] is not None:
        kwargs["metric"] = config["metric_arg"]
    if config["tree"] is not None:
        kwargs["tree_class"] = config["tree"]
    if config["leaf_size"] is not None:
        kwargs["leaf_size"] = config["leaf_size"]
    if config["shuffle"]["mode"] == "off":
        kwargs["shuffle"] = False
    given_build = [build[0].copy(), build[1].copy()]
    with PinnedShuffle(config["shuffle"]):
        index = GeoIndex(given_build[0], given_build[1], **kwargs)
    refs = {}
    live = None            # the caller's query buffers
    ctx.label("history", "history-%d-queries" % len(case["steps"]))
    if kind == "arc":
        ctx.label("haversine")
    for k, step in enumerate(case["steps"]):
        qset = case["queries"][step["q"]]
        qlat = np.array(qset["lat"], dtype=float)
        qlon = np.array(qset["lon"], dtype=float)
        if step["inplace"] and live is not None \
                and live[0].shape == qlat.shape:
            live[0][:] = qlat        # same ndarray objects, new values
            live[1][:] = qlon
            ctx.label("inplace-update" if step["q"] != prev_q
                      else "same-arrays-again")
        else:
            live = [qlat.copy(), qlon.copy()]
            ctx.label("fresh-arrays")
        prev_q = step["q"]
        if step["q"] not in refs:
            refs[step["q"]] = S.distance_matrix(build[0], build[1], qlat,
                                                qlon, kind)
        ref = refs[step["q"]]
        r = radius_km_exact(step["radius"])
        band = S.band_km(r, ref, kind) \
            + S.LD(P.radius_rel_slack(step["radius"])) * r
        must = ref < r - band
        may = ref <= r + band
        arg = radius_argument(step["radius"])
        if step["return_distance"]:
            pairs, dist = index.query(live[0], live[1], arg)
        else:
            pairs = index.query(live[0], live[1], arg, return_distance=False)
            dist = None
        inputs_unchanged(ctx, given_build + live,
                         [build[0], build[1], qlat, qlon], config)

        def describe(k=k, step=step, r=r):
            return ("query %d of the history on one GeoIndex: %r radius_km="
                    "%.12g\nconfig=%r\nbuild=%r\nqueries=%r\nsteps=%r" % (
                        k, step, float(r), config, case["build"],
                        case["queries"], case["steps"]))
        tag = "" if step["return_distance"] else "/return_distance=False"
        compare(ctx, tag, config, pairs, dist, ref, must, may, kind, describe)
        n_exp = int(np.count_nonzero(must))
        if n_exp and n_exp < must.size:
            ctx.nontrivial = True


@st.composite
def history_cases(draw):
    radius = draw(radius_specs())
    r_km = float(radius_km_exact(radius))
    metric = draw(st.sampled_from(["minkowski", "haversine"]))
    kind = "arc" if metric == "haversine" else "chord"
    cloud = draw(P.clouds(r_km, None, n_sets=2, metric=kind, allow_nan=False,
                          allow_far=False, sizes=[(1, 20), (1, 8)]))
    b, q0 = cloud["sets"]
    queries = [q0]
    for _ in range(draw(st.integers(1, 3))):
        f = draw(st.sampled_from([0.5, 1 - 1e-3, 1 + 1e-3, 3.0, 10.0]))
        queries.append(P.shifted(q0, f * r_km, draw(st.sampled_from(
            P.BEARINGS + [45.0])), 0))
    if draw(st.booleans()):
        queries.append({k: v[::-1] for k, v in q0.items()})
    config = draw(configs(len(b["lat"]), radius, metric))
    steps = []
    for _ in range(draw(st.integers(2, 5))):
        steps.append({
            "q": draw(st.integers(0, len(queries) - 1)),
            "inplace": draw(st.sampled_from([True, True, True, False])),
            "radius": draw(st.one_of(st.just(radius), st.just(radius),
                                     respell(radius))),
            "return_distance": draw(st.sampled_from([True] * 4 + [False]))})
    return {"build": {"lat": b["lat"], "lon": b["lon"]},
            "queries": [{"lat": q["lat"], "lon": q["lon"]} for q in queries],
            "config": config, "steps": steps}


# --------------------------------------------------------------------------
# whole-degree grids given as integer arrays
# --------------------------------------------------------------------------
@st.composite
def integer_grid_cases(draw):
    """Points on whole degrees, lat and / or lon of build and / or query
    points given as int64 / int32 arrays (np.arange-style grids); radii from
    centimetres (coincident places) to thousands of km."""
    lat = st.one_of(st.integers(-90, 90), st.integers(-3, 3),
                    st.sampled_from([-90, 90, 0, 45]))
    lon = st.one_of(st.integers(-180, 180), st.integers(-3, 3),
                    st.sampled_from([-180, 180, 0, 13]))
    nb = draw(st.integers(1, 12))
    nq = draw(st.integers(1, 6))
    b = [(draw(lat), draw(lon)) for _ in range(nb)]
    q = [draw(st.sampled_from(b)) if draw(st.booleans())
         else (draw(lat), draw(lon)) for _ in range(nq)]
    r = draw(st.one_of(
        st.sampled_from([1e-4, 1e-3, 0.01, 0.5, 50.0, 111.0, 112.0, 160.0,
                         250.0, 1000.0, 5000.0]),
        st.floats(-4.0, 4.0).map(lambda e: 10.0 ** e)))
    radius = draw(radius_specs(r))
    metric = draw(st.sampled_from(["minkowski"] * 3 + ["haversine"]))
    kinds = ["float64", "int64", "int64", "int32"]
    dtypes = {"build": [draw(st.sampled_from(kinds)) for _ in range(2)],
              "query": [draw(st.sampled_from(kinds)) for _ in range(2)]}
    config = draw(configs(nb, radius, metric))
    variants = [draw(configs(nb, draw(st.one_of(st.just(radius),
                                                 respell(radius)))))
                for _ in range(draw(st.integers(0, 1)))]
    return {"build": {"lat": [float(p[0]) for p in b],
                      "lon": [float(p[1]) for p in b]},
            "query": {"lat": [float(p[0]) for p in q],
                      "lon": [float(p[1]) for p in q]},
            "dtypes": dtypes, "config": config, "variants": variants}


# --------------------------------------------------------------------------
# histories over SEVERAL indexes (built one after the other, queried in any
# order; equal sizes, so that anything shared between indexes shows)
# --------------------------------------------------------------------------
def build_index(case_index):
    from typhon.geographical import GeoIndex
    config = case_index["config"]
    kwargs = {}
    if config["metric_arg"] is not None:
        kwargs["metric"] = config["metric_arg"]
    if config["tree"] is not None:
        kwargs["tree_class"] = config["tree"]
    if config["leaf_size"] is not None:
        kwargs["leaf_size"] = config["leaf_size"]
    if config["shuffle"]["mode"] == "off":
        kwargs["shuffle"] = False
    lat = np.array(case_index["lat"], dtype=float)
    lon = np.array(case_index["lon"], dtype=float)
    given = [lat.copy(), lon.copy()]
    with PinnedShuffle(config["shuffle"]):
        index = GeoIndex(given[0], given[1], **kwargs)
    return {"index": index, "given": given, "orig": (lat, lon),
            "kind": "arc" if config["metric_arg"] == "haversine" else "chord",
            "config": config}


def check_index_history(case, ctx):
    live = {}
    ctx.label("index-history", "indexes-%d" % len(case["indexes"]))
    sizes = [len(ix["lat"]) for ix in case["indexes"]]
    if len(set(sizes)) < len(sizes):
        ctx.label("indexes-of-equal-size")
    last_built = None
    for k, op in enumerate(case["ops"]):
        i = op["i"]
        if op["op"] == "build":
            live[i] = build_index(case["indexes"][i])
            if i in [o["i"] for o in case["ops"][:k] if o["op"] == "build"]:
                ctx.label("rebuild")
            last_built = i
            continue
        ent = live[i]
        if last_built != i:
            ctx.label("query-after-other-index-was-built")
        qset = case["queries"][op["q"]]
        qlat = np.array(qset["lat"], dtype=float)
        qlon = np.array(qset["lon"], dtype=float)
        ref = S.distance_matrix(ent["orig"][0], ent["orig"][1], qlat, qlon,
                                ent["kind"])
        r = radius_km_exact(op["radius"])
        band = S.band_km(r, ref, ent["kind"]) \
            + S.LD(P.radius_rel_slack(op["radius"])) * r
        must = ref < r - band
        may = ref <= r + band
        given_q = [qlat.copy(), qlon.copy()]
        arg = radius_argument(op["radius"])
        if op["return_distance"]:
            pairs, dist = ent["index"].query(given_q[0], given_q[1], arg)
        else:
            pairs = ent["index"].query(given_q[0], given_q[1], arg,
                                       return_distance=False)
            dist = None
        inputs_unchanged(ctx, ent["given"] + given_q,
                         list(ent["orig"]) + [qlat, qlon], ent["config"])

        def describe(k=k, op=op, r=r):
            return ("operation %d of a history over %d indexes: %r radius_km="
                    "%.12g\nindexes=%r\nqueries=%r\nops=%r" % (
                        k, len(case["indexes"]), op, float(r),
                        case["indexes"], case["queries"], case["ops"]))
        tag = "" if op["return_distance"] else "/return_distance=False"
        compare(ctx, tag, ent["config"], pairs, dist, ref, must, may,
                ent["kind"], describe)
        n_exp = int(np.count_nonzero(must))
        if n_exp and n_exp < must.size:
            ctx.nontrivial = True


@st.composite
def index_history_cases(draw):
    radius = draw(radius_specs())
    r_km = float(radius_km_exact(radius))
    cloud = draw(P.clouds(r_km, None, n_sets=2, metric="chord",
                          allow_nan=False, allow_far=False,
                          sizes=[(2, 16), (1, 6)]))
    b, q0 = cloud["sets"]
    n = len(b["lat"])
    psets = [b]
    for _ in range(draw(st.integers(1, 2))):
        how = draw(st.sampled_from(["shifted", "shifted", "permuted", "same",
                                    "shorter"]))
        if how == "shifted":
            psets.append(P.shifted(b, draw(st.sampled_from(
                [0.5, 1 - 1e-3, 1 + 1e-3, 3.0, 10.0])) * r_km, draw(
                    st.sampled_from(P.BEARINGS + [45.0])), 0))
        elif how == "permuted":
            pm = draw(P.permutations_of(n))
            psets.append({k: [v[i] for i in pm] for k, v in b.items()})
        elif how == "same":
            psets.append(b)
        else:
            m = draw(st.integers(1, n))
            psets.append({k: v[:m] for k, v in b.items()})
    indexes = []
    for ps in psets:
        cfg = draw(configs(len(ps["lat"]), radius))
        if cfg["shuffle"]["mode"] == "off" and draw(st.booleans()):
            cfg["shuffle"] = {"mode": "perm", "perm": draw(
                P.permutations_of(len(ps["lat"])))}
        indexes.append({"lat": ps["lat"], "lon": ps["lon"], "config": cfg})
    queries = [q0, {"lat": b["lat"], "lon": b["lon"]}]
    if draw(st.booleans()):
        queries.append(P.shifted(q0, r_km * 0.5, 90.0, 0))
    order = draw(st.permutations(range(len(indexes))))
    ops = [{"op": "build", "i": i} for i in order]
    for _ in range(draw(st.integers(2, 6))):
        i = draw(st.integers(0, len(indexes) - 1))
        if draw(st.sampled_from([False] * 5 + [True])):
            ops.append({"op": "build", "i": i})
        else:
            ops.append({
                "op": "query", "i": i,
                "q": draw(st.integers(0, len(queries) - 1)),
                "radius": draw(st.one_of(st.just(radius), st.just(radius),
                                         respell(radius))),
                "return_distance": draw(st.sampled_from(
                    [True] * 4 + [False]))})
    return {"indexes": indexes,
            "queries": [{"lat": q["lat"], "lon": q["lon"]} for q in queries],
            "ops": ops}


def suites(tier):
    return [
        Suite("query", check_query, strategy=query_cases(tier),
              examples={"quick": 330, "thorough": 7000}),
        Suite("query-big", check_query, strategy=query_cases(tier, big=True),
              examples={"quick": 45, "thorough": 1000}),
        Suite("small-perms-exhaustive", check_query, cases=small_perm_cases,
              exhaustive=True),
        Suite("rangetree", check_rangetree, strategy=rangetree_cases(),
              examples={"quick": 100, "thorough": 2000}),
        Suite("meridional", check_query, strategy=meridional_cases(),
              examples={"quick": 40, "thorough": 1000}),
        Suite("query-histories", check_history, strategy=history_cases(),
              examples={"quick": 60, "thorough": 1500}),
        Suite("integer-grid", check_query, strategy=integer_grid_cases(),
              examples={"quick": 50, "thorough": 1200}),
        Suite("index-histories", check_index_history,
              strategy=index_history_cases(),
              examples={"quick": 60, "thorough": 1500}),
        Suite("block-sizes", check_query, strategy=block_size_cases(),
              examples={"quick": 25, "thorough": 400}),
    ]
