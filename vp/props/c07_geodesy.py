"""C07 - geodesy: coordinate conversions invert each other, distances are metrics.

Oracles (all independent of typhon.geodesy):
  * textbook closed forms (geodetic -> ECEF, ECEF -> spherical, ENU -> ECEF,
    ellipsoid radii, great-circle arc from the chord of unit vectors)
    evaluated in numpy.longdouble (x87 80 bit);
  * round trips and composed-vs-direct routes with the tolerances of the
    property statement (1 cm, 1e-7 degrees; LOS 1e-6 deg, azimuth
    1e-6 deg / sin(za));
  * metric axioms for the two distance functions;
  * histories: the same oracles before, between and after generated
    sequences of calls on ellipsoids that share the semimajor axis or the
    eccentricity with the model (no state may leak from call to call).
"""
import numpy as np
from hypothesis import strategies as st

from vp.oracle.c07_guard import Guarded
from vp.runner import Suite

PROP_ID = "C07"
LEVEL = "exploration"
QUICK_SHARDS = 4
RULE = (
    "One case = one ellipsoid model + a batch of 1-40 positions "
    "(lat in [-88, 88] weighted on 0, +-88, +-1 rad and the geodetic "
    "counterparts of a geocentric latitude of 1 rad, a common latitude for "
    "the whole batch, lon in [-720, 720] weighted on 0/+-90/+-180/+-360, "
    "h in [-10 km, 1000 km] weighted on 0 and the limits) handed to typhon as "
    "Python/NumPy scalars one by one, 0-d arrays, 1-D, 2-D arrays or "
    "broadcastable mixtures; LOS cases add zenith angles in [1e-3, 180-1e-3] "
    "and azimuths at least 1e-3 deg away from 0/+-180 (log-weighted towards "
    "these limits), the LOS vector is handed back scaled by a clearly "
    "non-unit or an almost-unit factor (1 +- 1e-9 .. 1e-2) or rounded to "
    "float32 / 5-6 decimals; distance cases are 3-8 points on the sphere built from "
    "free points plus copies, antipodes, poles, same-meridian/parallel "
    "points and 360 deg aliases, evaluated as full n x n matrices, plus a "
    "common longitude shift, and (one case in three) 2-6 whole-degree "
    "points as int8..int64 latitudes and uint8..uint64/int16/int32 "
    "longitudes compared with the float64 evaluation.  An enumerated grid of special latitudes x "
    "longitudes x heights x ellipsoids is run through scalar and 1-D calls.  "
    "History cases (and half of the conversion cases, in short form) put a "
    "generated sequence of 1-8 calls of other public functions "
    "(get_ellipsoid_semiminor_axis, ellipsoid_r_geocentric/_geodetic, "
    "line_ellipsoid_intersect, geodetic2cart/cart2geodetic, ellipsoid2d, "
    "ellipsoidcurvradius, due north/south line-of-sight round trips, and "
    "out-of-domain calls that may raise: polar axis, origin, r = 0, "
    "latitude/longitude out of range) on related ellipsoids - (a, 0), (a, e/2), (a, e'), "
    "(k a, e), ellipsoid2d(model, inc), ellipsoidcurvradius(model, lat, az), "
    "the other models, as tuple/list/array - before and between the identity "
    "checks, each call compared with its own closed form; the identity "
    "checks run at the start and at the end of the history (or only at the "
    "end, so that the related ellipsoids are seen first) and the raw results "
    "for the model must be bitwise unchanged.  "
    "Non-trivial = conversions: eccentric ellipsoid, or some |lat| > 1 deg "
    "with non-zero height; LOS: every case; distances: at least one pair "
    "with 0 < arc < 180 deg; histories: some step uses an ellipsoid that "
    "shares the semimajor axis or the eccentricity with the model without "
    "being equal to it.  Distinct = distinct case hash."
)
ASSUMPTIONS = [
    "|latitude| <= 88 deg for the conversions (statement); zenith angle in "
    "[1e-3, 180-1e-3] and |azimuth| in [1e-3, 180-1e-3] deg (singular cases "
    "are excluded by the statement); longitude in [-180, 180] for "
    "geocentricposlos2cart (it rejects others by contract)",
    "tunnel_distance is called with scalars and 1-D arrays only (its "
    "docstring: 'single number or numpy array'; it stacks columns, so N-d "
    "input is not supported and not claimed)",
    "numpy.longdouble is the x87 80-bit type (eps 1.1e-19)",
    "every typhon.geodesy call goes through the guard of "
    "vp/oracle/c07_guard.py: ndarray arguments bitwise unchanged, results of "
    "earlier calls bitwise unchanged by later calls and not sharing memory "
    "with new results, numpy error state and warnings filters unchanged "
    "after the call (also when it raised)",
    "integer coordinate arrays: numpy computes sin/cos of (u)int8 in float16 "
    "and of (u)int16 in float32; the tolerance is 16 eps of that precision",
    "state that typhon.geodesy keeps between calls survives between the "
    "cases of one shard process; the check cannot reset it, so every case "
    "compares all results (also those for the derived ellipsoids) with "
    "harness-side closed forms instead of relying on a fresh process",
    "float64 conditioning of the haversine formula is part of the tolerance: "
    "arc errors up to min(2e-15*tan(arc/2), 6e-8) rad near antipodes",
]

LD = np.longdouble
PI = LD(4) * np.arctan(LD(1))
D2R = PI / LD(180)
R2D = LD(180) / PI

ELLIPSOIDS = ["SphericalEarth", "WGS84", "SphericalVenus", "SphericalMars",
              "EllipsoidMars", "SphericalJupiter"]
RAD1 = 57.29577951308232          # 1 rad in degrees (np.deg2rad -> 1.0)
# geodetic latitude of the surface point whose geocentric latitude is 1 rad
# (tan(gd) = tan(gc) / (1 - e^2)) for the two eccentric models
GD_OF_GC_1RAD = {
    "WGS84": float(np.arctan(np.tan(LD(1)) / (1 - LD(0.0818191908426) ** 2))
                   * R2D),
    "EllipsoidMars": float(np.arctan(np.tan(LD(1)) / (1 - LD(0.1083) ** 2))
                           * R2D),
}
SPECIAL_LATS = [0.0, 88.0, -88.0, RAD1, -RAD1, 45.0, -45.0, 1e-9, -1e-9,
                87.999985, -87.9999, 1.0, -1.0, 60.0] + \
    [s * v for v in GD_OF_GC_1RAD.values() for s in (1, -1)]
SPECIAL_LONS = [0.0, 90.0, -90.0, 180.0, -180.0, 360.0, -360.0, 179.999999999,
                -179.999999999, 270.0, 45.0, -135.0, 1e-9]
SPECIAL_H = [0.0, -1e4, 1e6, 1e-3, -1e-3, 1e5, 400e3]

TOL_M = 0.01          # 1 cm (statement)
TOL_DEG = 1e-7        # (statement)


def ld(a):
    return np.asarray(a, dtype=LD)


def lon_diff(a, b):
    """difference of two longitudes / azimuths in degrees, folded to +-180"""
    d = np.asarray(a, dtype=float) - np.asarray(b, dtype=float)
    return (d + 180.0) % 360.0 - 180.0


# --------------------------------------------------------------------------
# long-double references
# --------------------------------------------------------------------------
def ref_geodetic2cart(a, e, h, lat, lon):
    h, lat, lon = np.broadcast_arrays(ld(h), ld(lat), ld(lon))
    e2 = LD(e) * LD(e)
    phi, lam = lat * D2R, lon * D2R
    n = LD(a) / np.sqrt(1 - e2 * np.sin(phi) ** 2)
    x = (n + h) * np.cos(phi) * np.cos(lam)
    y = (n + h) * np.cos(phi) * np.sin(lam)
    z = (n * (1 - e2) + h) * np.sin(phi)
    return x, y, z


def ref_cart2geocentric(x, y, z):
    r = np.sqrt(x * x + y * y + z * z)
    lat = np.arctan2(z, np.hypot(x, y)) * R2D
    lon = np.arctan2(y, x) * R2D
    return r, lat, lon


def ref_geocentric2cart(r, lat, lon):
    r, lat, lon = np.broadcast_arrays(ld(r), ld(lat), ld(lon))
    phi, lam = lat * D2R, lon * D2R
    return (r * np.cos(phi) * np.cos(lam), r * np.cos(phi) * np.sin(lam),
            r * np.sin(phi))


def ref_r_geodetic(a, e, lat):
    """|ECEF position| of the surface point with geodetic latitude lat"""
    x, y, z = ref_geodetic2cart(a, e, 0.0, lat, 0.0)
    return np.sqrt(x * x + y * y + z * z)


def ref_r_geocentric(a, e, latc):
    """polar equation of the ellipse: r = b / sqrt(1 - e^2 cos^2(latc))"""
    e2 = LD(e) * LD(e)
    b = LD(a) * np.sqrt(1 - e2)
    return b / np.sqrt(1 - e2 * np.cos(ld(latc) * D2R) ** 2)


def ref_los(lat, lon, za, aa):
    """LOS unit vector in ECEF from east-north-up angles (long double)"""
    lat, lon, za, aa = np.broadcast_arrays(ld(lat), ld(lon), ld(za), ld(aa))
    p, l, z, a = lat * D2R, lon * D2R, za * D2R, aa * D2R
    up = (np.cos(p) * np.cos(l), np.cos(p) * np.sin(l), np.sin(p))
    north = (-np.sin(p) * np.cos(l), -np.sin(p) * np.sin(l), np.cos(p))
    east = (-np.sin(l), np.cos(l), np.zeros_like(l))
    cu, cn, ce = np.cos(z), np.sin(z) * np.cos(a), np.sin(z) * np.sin(a)
    return tuple(cu * up[i] + cn * north[i] + ce * east[i] for i in range(3))


def ref_arc_chord(lat1, lon1, lat2, lon2):
    """(arc in rad, chord of the unit sphere), well conditioned everywhere"""
    u1 = ref_geocentric2cart(1.0, lat1, lon1)
    u2 = ref_geocentric2cart(1.0, lat2, lon2)
    u1, u2 = np.broadcast_arrays(np.stack(u1), np.stack(u2))
    chord = np.sqrt(((u1 - u2) ** 2).sum(axis=0))
    anti = np.sqrt(((u1 + u2) ** 2).sum(axis=0))
    arc = np.where(chord <= anti, 2 * np.arcsin(np.minimum(chord / 2, 1)),
                   PI - 2 * np.arcsin(np.minimum(anti / 2, 1)))
    return arc, chord


def arc_tol(arc):
    """float64 error model of the haversine formula (rad): relative part,
    floor from the deg->rad roundings, and the ill-conditioning of
    arcsin(sqrt(a)) as a -> 1 (antipodes): da ~ 4 eps a  =>
    dc = 4 eps tan(c/2), capped by 2 sqrt(4 eps)."""
    arc = np.asarray(arc, dtype=float)
    with np.errstate(all="ignore"):
        t = np.abs(np.tan(arc / 2))
    return 1e-12 * arc + 1e-14 + np.minimum(2e-15 * t, 6e-8)


# --------------------------------------------------------------------------
# conversions
# --------------------------------------------------------------------------
def _mk(values, shape, scalar_type):
    """plain list + shape -> what is handed to typhon"""
    if shape == []:
        v = float(values[0])
        if scalar_type == "py":
            return v
        if scalar_type == "np":
            return np.float64(v)
        return np.array(v)                      # "0d"
    return np.array(values, dtype=float).reshape(shape)


def _shape_ok(ctx, what, out, shape):
    """The results together have the broadcast shape of the arguments (a
    single component may keep a broadcastable smaller shape: geocentric2cart
    returns z without the longitude axes, which loses no information)."""
    try:
        got = np.broadcast(*[np.empty(np.shape(o)) for o in out]).shape \
            if len(out) > 1 else np.shape(out[0])
    except ValueError:
        got = [np.shape(o) for o in out]
    ctx.check(got == shape, "shape/" + what, lambda: (
        "expected result shape %r, got %r" % (shape,
                                              [np.shape(o) for o in out])))


def _finite(ctx, what, *arrs):
    for a in arrs:
        ctx.check(np.all(np.isfinite(np.asarray(a, dtype=float))),
                  "nonfinite/" + what, lambda: repr(a))


def _maxerr(got, exp):
    return float(np.max(np.abs(np.asarray(got, dtype=LD) - exp)))


def convert_checks(ctx, g, name, el, H, LAT, LON):
    """all conversion oracles for one (broadcastable) set of arguments"""
    a, e = el
    shape = np.broadcast(H, LAT, LON).shape
    Hb, LATb, LONb = np.broadcast_arrays(np.asarray(H, float),
                                         np.asarray(LAT, float),
                                         np.asarray(LON, float))
    scale = float(a) + 1e6

    def info():
        return "ellipsoid=%s h=%r lat=%r lon=%r" % (
            name, np.asarray(H).tolist(), np.asarray(LAT).tolist(),
            np.asarray(LON).tolist())

    # ---- geodetic -> cartesian against the closed form ------------------
    xyz = g.geodetic2cart(H, LAT, LON, el)
    _shape_ok(ctx, "geodetic2cart", xyz, shape)
    _finite(ctx, "geodetic2cart", *xyz)
    ref = ref_geodetic2cart(a, e, H, LAT, LON)
    err = max(_maxerr(xyz[i], ref[i]) for i in range(3))
    ctx.check(err <= 1e-12 * scale, "reference/geodetic2cart", lambda: (
        "%s: |xyz - closed form| = %.3e m" % (info(), err)))

    # ---- cartesian -> geodetic round trip -------------------------------
    h2, lat2, lon2 = g.cart2geodetic(xyz[0], xyz[1], xyz[2], el)
    _shape_ok(ctx, "cart2geodetic", (h2, lat2, lon2), shape)
    _finite(ctx, "cart2geodetic", h2, lat2, lon2)
    dh = float(np.max(np.abs(h2 - Hb)))
    dlat = float(np.max(np.abs(lat2 - LATb)))
    dlon = float(np.max(np.abs(lon_diff(lon2, LONb))))
    ctx.check(dh <= TOL_M, "roundtrip/geodetic-cart/height", lambda: (
        "%s: height error %.3e m" % (info(), dh)))
    ctx.check(dlat <= TOL_DEG, "roundtrip/geodetic-cart/lat", lambda: (
        "%s: latitude error %.3e deg" % (info(), dlat)))
    ctx.check(dlon <= TOL_DEG, "roundtrip/geodetic-cart/lon", lambda: (
        "%s: longitude error %.3e deg" % (info(), dlon)))
    ctx.check(np.all(np.abs(lon2) <= 180.0), "range/cart2geodetic-lon",
              lambda: "%s: lon %r" % (info(), lon2))

    # ---- geodetic -> geocentric: direct = composed = closed form --------
    r, latc, lonc = g.geodetic2geocentric(H, LAT, LON, el)
    _shape_ok(ctx, "geodetic2geocentric", (r, latc, lonc), shape)
    _finite(ctx, "geodetic2geocentric", r, latc, lonc)
    rc, latcc, loncc = g.cart2geocentric(xyz[0], xyz[1], xyz[2])
    d = max(float(np.max(np.abs(r - rc))), 0.0)
    da = max(float(np.max(np.abs(latc - latcc))),
             float(np.max(np.abs(lon_diff(lonc, loncc)))))
    ctx.check(d <= TOL_M and da <= TOL_DEG, "composed/geodetic2geocentric",
              lambda: "%s: direct vs composed differ by %.3e m, %.3e deg"
              % (info(), d, da))
    rr, rlat, rlon = ref_cart2geocentric(*ref)
    er = _maxerr(r, rr)
    ela = _maxerr(latc, rlat)
    elo = float(np.max(np.abs(lon_diff(lonc, rlon.astype(float)))))
    ctx.check(er <= 1e-12 * scale and ela <= 1e-10 and elo <= 1e-10,
              "reference/geodetic2geocentric", lambda: (
                  "%s: r error %.3e m, lat error %.3e deg, lon error %.3e deg"
                  % (info(), er, ela, elo)))
    ctx.check(np.all(np.abs(lonc) <= 180.0), "range/cart2geocentric-lon",
              lambda: "%s: lon %r" % (info(), lonc))

    # ---- geocentric -> cartesian -> geocentric --------------------------
    xyz2 = g.geocentric2cart(r, latc, lonc)
    _shape_ok(ctx, "geocentric2cart", xyz2, shape)
    d = max(float(np.max(np.abs(np.asarray(xyz2[i]) - np.asarray(xyz[i]))))
            for i in range(3))
    ctx.check(d <= TOL_M, "roundtrip/cart-geocentric", lambda: (
        "%s: cart -> geocentric -> cart moved the point by %.3e m"
        % (info(), d)))

    # ---- geodetic -> geocentric -> geodetic -----------------------------
    h3, lat3, lon3 = g.geocentric2geodetic(r, latc, lonc, el)
    _shape_ok(ctx, "geocentric2geodetic", (h3, lat3, lon3), shape)
    dh = float(np.max(np.abs(h3 - Hb)))
    dlat = float(np.max(np.abs(lat3 - LATb)))
    dlon = float(np.max(np.abs(lon_diff(lon3, LONb))))
    ctx.check(dh <= TOL_M and dlat <= TOL_DEG and dlon <= TOL_DEG,
              "roundtrip/geodetic-geocentric", lambda: (
                  "%s: errors %.3e m, %.3e deg lat, %.3e deg lon"
                  % (info(), dh, dlat, dlon)))
    hc, latc2, lonc2 = g.cart2geodetic(*xyz2, el)
    d = float(np.max(np.abs(h3 - hc)))
    da = max(float(np.max(np.abs(lat3 - latc2))),
             float(np.max(np.abs(lon_diff(lon3, lonc2)))))
    ctx.check(d <= TOL_M and da <= TOL_DEG, "composed/geocentric2geodetic",
              lambda: "%s: direct vs composed differ by %.3e m, %.3e deg"
              % (info(), d, da))

    # ---- points on the ellipsoid: radius --------------------------------
    zero = H * 0.0 if np.ndim(H) else (np.array(0.0) if isinstance(
        H, np.ndarray) else type(H)(0.0))
    r0, latc0, _ = g.geodetic2geocentric(zero, LAT, LON, el)
    rgd = g.ellipsoid_r_geodetic(el, LAT)
    rgc = g.ellipsoid_r_geocentric(el, latc0)
    ctx.check(np.shape(rgd) == np.shape(LAT), "shape/ellipsoid_r_geodetic",
              lambda: "%r for lat shape %r" % (np.shape(rgd), np.shape(LAT)))
    ctx.check(np.shape(rgc) == np.shape(latc0),
              "shape/ellipsoid_r_geocentric",
              lambda: "%r for lat shape %r" % (np.shape(rgc),
                                               np.shape(latc0)))
    e1 = float(np.max(np.abs(r0 - rgd) / r0))
    e2 = float(np.max(np.abs(r0 - rgc) / r0))
    ctx.check(e1 <= 1e-9, "radius/ellipsoid_r_geodetic", lambda: (
        "%s: |r(h=0) - ellipsoid_r_geodetic| / r = %.3e" % (info(), e1)))
    ctx.check(e2 <= 1e-9, "radius/ellipsoid_r_geocentric", lambda: (
        "%s: |r(h=0) - ellipsoid_r_geocentric(lat_c)| / r = %.3e"
        % (info(), e2)))
    e1 = _maxerr(rgd, ref_r_geodetic(a, e, LAT)) / float(a)
    e2 = _maxerr(rgc, ref_r_geocentric(a, e, latc0)) / float(a)
    ctx.check(e1 <= 1e-12, "reference/ellipsoid_r_geodetic", lambda: (
        "%s: relative error %.3e" % (info(), e1)))
    ctx.check(e2 <= 1e-12, "reference/ellipsoid_r_geocentric", lambda: (
        "%s: relative error %.3e" % (info(), e2)))

    # ---- the drawn latitude taken as a geocentric one -------------------
    R = a + H
    xyz3 = g.geocentric2cart(R, LAT, LON)
    _shape_ok(ctx, "geocentric2cart", xyz3, shape)
    ref3 = ref_geocentric2cart(ld(a) + ld(H), LAT, LON)
    err = max(_maxerr(xyz3[i], ref3[i]) for i in range(3))
    ctx.check(err <= 1e-12 * scale, "reference/geocentric2cart", lambda: (
        "%s (lat geocentric, r=a+h): |xyz - closed form| = %.3e m"
        % (info(), err)))
    r4, lat4, lon4 = g.cart2geocentric(*xyz3)
    Rb = a + Hb
    d = float(np.max(np.abs(r4 - Rb)))
    da = max(float(np.max(np.abs(lat4 - LATb))),
             float(np.max(np.abs(lon_diff(lon4, LONb)))))
    ctx.check(d <= TOL_M and da <= TOL_DEG, "roundtrip/geocentric-cart",
              lambda: "%s (lat geocentric, r=a+h): errors %.3e m, %.3e deg"
              % (info(), d, da))
    h5, lat5, lon5 = g.geocentric2geodetic(R, LAT, LON, el)
    _shape_ok(ctx, "geocentric2geodetic", (h5, lat5, lon5), shape)
    _finite(ctx, "geocentric2geodetic", h5, lat5, lon5)
    r6, lat6, lon6 = g.geodetic2geocentric(h5, lat5, lon5, el)
    d = float(np.max(np.abs(r6 - Rb)))
    da = max(float(np.max(np.abs(lat6 - LATb))),
             float(np.max(np.abs(lon_diff(lon6, LONb)))))
    ctx.check(d <= TOL_M and da <= TOL_DEG, "roundtrip/geocentric-geodetic",
              lambda: "%s (lat geocentric, r=a+h): errors %.3e m, %.3e deg"
              % (info(), d, da))
    # the geodetic result must also be right, not only invertible
    refx = ref_geodetic2cart(a, e, h5, lat5, lon5)
    err = max(_maxerr(xyz3[i], refx[i]) for i in range(3))
    ctx.check(err <= TOL_M, "reference/geocentric2geodetic", lambda: (
        "%s (lat geocentric, r=a+h): the geodetic result is %.3e m away "
        "from the input position" % (info(), err)))


def convert_labels(ctx, case, el):
    lat = np.asarray(case["lat"], float)
    lon = np.asarray(case["lon"], float)
    h = np.asarray(case["h"], float)
    ctx.label(case["ell"], "kind-" + case["kind"])
    if case["kind"] == "2d":
        ctx.label("array-2d")
    if np.any(np.abs(np.abs(lat) - RAD1) < 5e-9):
        ctx.label("lat-1rad")
    for v in GD_OF_GC_1RAD.values():
        if np.any(np.abs(np.abs(lat) - v) < 5e-9):
            ctx.label("lat-gd-of-gc-1rad")
    if np.any(np.abs(lat) >= 87.9):
        ctx.label("lat-88")
    if np.any(lat == 0):
        ctx.label("equator")
    if np.any(h < 0):
        ctx.label("neg-height")
    if np.any(h == 0):
        ctx.label("h0")
    if np.any(np.abs(np.abs(lon) - 180.0) < 1e-6):
        ctx.label("dateline")
    if np.any(np.abs(lon) > 180.0):
        ctx.label("lon-beyond-180")
    if lat.size > 1 and np.all(lat == lat.flat[0]):
        ctx.label("common-lat")
    ctx.nontrivial = bool(el[1] > 0 or np.any(
        (np.abs(lat)[:, None] > 1.0) & (h[None, :] != 0)))


def check_convert(case, ctx):
    from typhon import geodesy
    g = Guarded(geodesy, ctx)
    name = case["ell"]
    el = g.ellipsoidmodels()[name]
    convert_labels(ctx, case, el)
    kind = case["kind"]
    # a short history of calls on related ellipsoids before / between the
    # identity checks (see check_history)
    steps = case.get("history") or []
    if steps:
        ctx.label("convert-with-history")
    if kind in ("scalar", "0d"):
        for i in range(len(case["lat"])):
            if steps:
                history_step(ctx, g, el, steps[i % len(steps)])
            st_ = ("0d" if kind == "0d" else ("py", "np")[i % 2])
            H = _mk([case["h"][i]], [], st_)
            LAT = _mk([case["lat"][i]], [], st_)
            LON = _mk([case["lon"][i]], [], st_)
            convert_checks(ctx, g, name, el, H, LAT, LON)
        return
    for step in steps:
        history_step(ctx, g, el, step)
    sh = case["shapes"]
    H = _mk(case["h"], sh["h"], "py")
    LAT = _mk(case["lat"], sh["lat"], "py")
    LON = _mk(case["lon"], sh["lon"], "py")
    convert_checks(ctx, g, name, el, H, LAT, LON)


def _clip(v, lo, hi):
    return min(max(v, lo), hi)


def lat_values():
    special = st.sampled_from(SPECIAL_LATS)
    near = st.builds(lambda s, d: _clip(s + d, -88.0, 88.0), special,
                     st.floats(-1e-8, 1e-8))
    return st.one_of(st.floats(-88.0, 88.0), st.floats(-88.0, 88.0), special,
                     near)


def lon_values(lo=-720.0, hi=720.0):
    special = st.sampled_from([v for v in SPECIAL_LONS if lo <= v <= hi])
    near = st.builds(lambda s, d: _clip(s + d, lo, hi), special,
                     st.floats(-1e-7, 1e-7))
    return st.one_of(st.floats(lo, hi), st.floats(-180.0, 180.0), special,
                     near)


def h_values():
    return st.one_of(st.floats(-1e4, 1e6), st.floats(-1e4, 1e4),
                     st.sampled_from(SPECIAL_H))


@st.composite
def shaped(draw, fields, common_ok=()):
    """kind, shapes and value lists for the named fields.
    fields: {name: strategy}."""
    kind = draw(st.sampled_from(["scalar", "scalar", "0d", "1d", "1d", "2d",
                                 "bcast"]))
    names = list(fields)
    out = {"kind": kind}
    common = [n for n in common_ok if draw(st.integers(0, 4)) == 0]

    def vals(name, n):
        if name in common:
            return [draw(fields[name])] * n
        return draw(st.lists(fields[name], min_size=n, max_size=n))

    if kind in ("scalar", "0d"):
        n = draw(st.integers(1, 8))
        for nm in names:
            out[nm] = vals(nm, n)
        out["shapes"] = {nm: [] for nm in names}
    elif kind == "1d":
        n = draw(st.one_of(st.integers(1, 8), st.integers(1, 40)))
        for nm in names:
            out[nm] = vals(nm, n)
        out["shapes"] = {nm: [n] for nm in names}
    elif kind == "2d":
        k, m = draw(st.integers(1, 5)), draw(st.integers(1, 6))
        for nm in names:
            out[nm] = vals(nm, k * m)
        out["shapes"] = {nm: [k, m] for nm in names}
    else:
        # every field gets one of: scalar, (k,1), (1,m), (m,), (k,m)
        k, m = draw(st.integers(1, 5)), draw(st.integers(1, 6))
        options = [[], [k, 1], [1, m], [m], [k, m], [1]]
        out["shapes"] = {}
        for nm in names:
            shp = draw(st.sampled_from(options))
            out["shapes"][nm] = shp
            out[nm] = vals(nm, int(np.prod(shp)) if shp else 1)
    return out


@st.composite
def convert_cases(draw):
    case = draw(shaped({"lat": lat_values(), "lon": lon_values(),
                        "h": h_values()}, common_ok=("lat", "h", "lon")))
    case["ell"] = draw(st.sampled_from(ELLIPSOIDS + ["WGS84",
                                                     "EllipsoidMars"]))
    case["history"] = draw(st.one_of(st.just([]), history_steps(1, 3)))
    return case


def special_grid_cases():
    """special latitudes x longitudes x heights for every model, as scalar
    calls (per-point stop criterion) and as 1-D arrays along a parallel"""
    lons = [0.0, 90.0, -90.0, 180.0, -180.0, 13.0, -135.0, 360.0]
    hs = [0.0, -1e4, 1e6, 1e5]
    for ell in ELLIPSOIDS:
        for lat in SPECIAL_LATS:
            n = len(lons)
            for h in hs:
                yield {"ell": ell, "kind": "scalar", "lat": [lat] * n,
                       "lon": lons, "h": [h] * n,
                       "shapes": {"lat": [], "lon": [], "h": []}}
            yield {"ell": ell, "kind": "1d", "lat": [lat] * n, "lon": lons,
                   "h": [0.0] * n,
                   "shapes": {"lat": [n], "lon": [n], "h": [n]}}
            yield {"ell": ell, "kind": "bcast", "lat": [lat], "lon": lons,
                   "h": hs, "shapes": {"lat": [], "lon": [1, n],
                                       "h": [len(hs), 1]}}


# --------------------------------------------------------------------------
# histories: other public functions on related ellipsoids between the checks
# (typhon.geodesy must not carry state from one call to the next)
# --------------------------------------------------------------------------
HIST_ELLS = ["sphere-same-a", "sphere-same-a", "half-e", "other-e",
             "same-e-other-a", "ellipsoid2d", "curvradius", "curvradius",
             "other-model", "self"]
HIST_BAD = ["bad-polar-axis", "bad-origin", "bad-r0", "bad-lat-range",
            "bad-lon-range", "bad-mean-origin"]
HIST_OPS = ["ns-los", "ns-los", "out-of-domain", "out-of-domain",
            "semiminor", "r_geocentric", "r_geodetic", "intersect",
            "roundtrip", "ellipsoid2d", "curvradius", "surface-radius"]
HIST_LATS = np.array([-88.0, -45.0, -10.0, 0.0, 33.0, 60.0, 88.0])


def ref_curvradius(a, e, lat, az):
    """Euler's formula 1/R = cos^2(az)/M + sin^2(az)/N in long double"""
    e2 = LD(e) * LD(e)
    w = 1 - e2 * np.sin(ld(lat) * D2R) ** 2
    n = LD(a) / np.sqrt(w)
    m = LD(a) * (1 - e2) / (w * np.sqrt(w))
    c, s_ = np.cos(ld(az) * D2R), np.sin(ld(az) * D2R)
    return 1 / (c * c / m + s_ * s_ / n)


def ref_ellipsoid2d_e(a, e, inc):
    rp = ref_r_geocentric(a, e, inc)
    return np.sqrt(np.maximum(1 - (rp / LD(a)) ** 2, 0))


def e2d_close(got, eref):
    """e' = sqrt(1 - (r_p/a)^2): the float64 result carries an absolute
    error of a few eps in e'^2 (cancellation for nearly spherical input)"""
    return abs(float(got) ** 2 - eref ** 2) <= 4e-15 + 1e-12 * eref ** 2


def ref_intersect(x, y, z, dx, dy, dz, a, e, alt):
    """roots d of ((x+d dx)/a')^2 + ((y+d dy)/a')^2 + ((z+d dz)/b')^2 = 1,
    a' = a + alt, b' = a sqrt(1-e^2) + alt; (roots or None, discriminant
    relative to B^2)"""
    x, y, z, dx, dy, dz = [LD(float(np.ravel(v)[0]))
                           for v in (x, y, z, dx, dy, dz)]
    a1 = LD(a) + LD(alt)
    b1 = LD(a) * np.sqrt(1 - LD(e) * LD(e)) + LD(alt)
    A = (dx * dx + dy * dy) / a1 ** 2 + dz * dz / b1 ** 2
    B = 2 * ((x * dx + y * dy) / a1 ** 2 + z * dz / b1 ** 2)
    C = (x * x + y * y) / a1 ** 2 + z * z / b1 ** 2 - 1
    disc = B * B - 4 * A * C
    rel = float(disc / (B * B + 4 * A * abs(C)))
    if disc < 0:
        return None, rel
    sq = np.sqrt(disc)
    return sorted([float((-B - sq) / (2 * A)), float((-B + sq) / (2 * A))]), rel


def derive_ellipsoid(ctx, g, el, step):
    """the ellipsoid a history step works on: related to the model under
    test by a shared semimajor axis or eccentricity, produced by typhon's
    own helpers where they exist (and checked against the closed form)"""
    a, e = float(el[0]), float(el[1])
    kind = step["ell"]
    if kind == "self":
        out = (el[0], el[1])
    elif kind == "sphere-same-a":
        out = (el[0], 0.0)
    elif kind == "half-e":
        out = (el[0], e / 2 if e > 0 else 0.0818191908426)
    elif kind == "other-e":
        out = (el[0], float(step["e"]))
    elif kind == "same-e-other-a":
        out = (a * float(step["scale"]), el[1])
    elif kind == "other-model":
        out = g.ellipsoidmodels()[step["other"]]
    elif kind == "ellipsoid2d":
        out = g.ellipsoid2d(el, step["inc"])
        eref = float(ref_ellipsoid2d_e(a, e, step["inc"]))
        ctx.check(len(out) == 2 and out[0] == el[0]
                  and e2d_close(out[1], eref),
                  "reference/ellipsoid2d", lambda: (
                      "ellipsoid2d(%r, %r) = %r, expected (a, %r)"
                      % (el, step["inc"], out, eref)))
        out = (float(out[0]), float(out[1]))
    else:
        out = g.ellipsoidcurvradius(el, step["lat"], step["az"])
        rref = float(ref_curvradius(a, e, step["lat"], step["az"]))
        ctx.check(len(out) == 2 and out[1] == 0
                  and abs(float(out[0]) - rref) <= 1e-12 * rref,
                  "reference/ellipsoidcurvradius", lambda: (
                      "ellipsoidcurvradius(%r, %r, %r) = %r, expected "
                      "(%r, 0)" % (el, step["lat"], step["az"], out, rref)))
        out = (float(out[0]), float(out[1]))
    A, E = float(out[0]), float(out[1])
    if (A, E) != (a, e):
        if A == a:
            ctx.label("hist-same-a-other-e")
        elif E == e and e > 0:
            ctx.label("hist-same-e-other-a")
    form = step["as"]
    arg = (A, E) if form == "tuple" else ([A, E] if form == "list"
                                          else np.array([A, E]))
    return arg, A, E


def history_step(ctx, g, el, step):
    """one step of a history: a public function on a derived ellipsoid,
    compared with its own closed form"""
    arg, A, E = derive_ellipsoid(ctx, g, el, step)
    op = step["op"]
    ctx.label("hist-ell-" + step["ell"], "hist-op-" + op)

    def info():
        return "history step %s on %s = (%r, %r) [model %r]" % (
            op, step["ell"], A, E, tuple(el))

    if op == "out-of-domain":
        # a call outside the documented domain: it may raise or return
        # anything, but it must leave no trace (the guard compares numpy's
        # error state before and after it, also when it raises)
        bad = step["bad"]
        ctx.label("hist-" + bad)
        ecc = arg if E > 0 else (6378137, 0.0818191908426)
        try:
            if bad == "bad-polar-axis":
                g.cart2geodetic(0.0, 0.0, A + 1e5, ecc)
                g.cart2geodetic(np.array([0.0, 1e6]), np.array([0.0, 0.0]),
                                np.array([A, A]), ecc)
            elif bad == "bad-origin":
                g.cart2geodetic(0.0, 0.0, 0.0, ecc)
            elif bad == "bad-r0":
                g.geocentric2geodetic(0.0, float(step["lat"]),
                                      float(step["lon"]), ecc)
            elif bad == "bad-lat-range":
                g.geocentricposlos2cart(A, 95.0, 0.0, 10.0, 10.0)
            elif bad == "bad-lon-range":
                g.geocentricposlos2cart(A, 10.0, 200.0, 10.0, 10.0)
            else:
                g.geographic_mean(np.array([10.0, -10.0]),
                                  np.array([0.0, 180.0]), 0.0, ecc)
        except Exception as exc:      # noqa - out of domain: any exception
            # is fine, except the guard's verdict (the runner executes as
            # __main__, so its Violation class is matched by name)
            if type(exc).__name__ == "Violation":
                raise
            ctx.label("hist-bad-call-raised")
    elif op == "ns-los":
        # lines of sight due north / south (azimuth exactly 0 / +-180): the
        # cosine of the azimuth is 1 +- rounding
        aa0 = [0.0, 180.0, -180.0][int(step["az"]) % 3]
        zas = np.array([float(step["za"]), 90.0, 180.0 - float(step["za"])])
        lat0, lon0 = float(step["lat"]), float(step["lon"])
        out = g.geocentricposlos2cart(A + float(step["alt"]) + 4e5, lat0,
                                      lon0, zas, aa0)
        rl = ref_los(lat0, lon0, zas, aa0)
        err = max(_maxerr(out[3 + i], rl[i]) for i in range(3))
        ctx.check(err <= 1e-12, "reference/poslos-los", lambda: (
            "%s, lat=%r lon=%r za=%r aa=%r: LOS error %.3e"
            % (info(), lat0, lon0, zas.tolist(), aa0, err)))
        back = g.cartposlos2geocentric(*out)
        dza = float(np.max(np.abs(back[3] - zas)))
        daa = np.deg2rad(np.abs(lon_diff(back[4], aa0)))
        ctx.check(dza <= 1e-6 and np.all(daa <= aa_tol(zas, aa0)),
                  "roundtrip/poslos-north-south", lambda: (
                      "%s, lat=%r lon=%r za=%r aa=%r: got za=%r aa=%r"
                      % (info(), lat0, lon0, zas.tolist(), aa0,
                         back[3].tolist(), back[4].tolist())))
    elif op == "semiminor":
        b = g.get_ellipsoid_semiminor_axis(arg)
        bref = float(LD(A) * np.sqrt(1 - LD(E) * LD(E)))
        ctx.check(abs(float(b) - bref) <= 1e-14 * bref,
                  "reference/get_ellipsoid_semiminor_axis", lambda: (
                      "%s: %r, expected %r" % (info(), b, bref)))
    elif op in ("r_geocentric", "r_geodetic", "surface-radius"):
        lats = HIST_LATS + float(step["lat"]) / 1000.0
        if op != "r_geodetic":
            r = g.ellipsoid_r_geocentric(arg, lats)
            err = _maxerr(r, ref_r_geocentric(A, E, lats)) / A
            ctx.check(err <= 1e-12, "reference/ellipsoid_r_geocentric",
                      lambda: "%s: relative error %.3e (%r)" % (
                          info(), err, np.asarray(r).tolist()))
        if op != "r_geocentric":
            r = g.ellipsoid_r_geodetic(arg, lats)
            err = _maxerr(r, ref_r_geodetic(A, E, lats)) / A
            ctx.check(err <= 1e-12, "reference/ellipsoid_r_geodetic",
                      lambda: "%s: relative error %.3e (%r)" % (
                          info(), err, np.asarray(r).tolist()))
        if op == "surface-radius":
            r0, latc, _ = g.geodetic2geocentric(np.zeros(lats.shape), lats,
                                                float(step["lon"]), arg)
            e1 = float(np.max(np.abs(r0 - g.ellipsoid_r_geodetic(arg, lats))
                              / r0))
            e2 = float(np.max(np.abs(r0 - g.ellipsoid_r_geocentric(arg, latc))
                              / r0))
            ctx.check(e1 <= 1e-9, "radius/ellipsoid_r_geodetic", lambda: (
                "%s: |r(h=0) - ellipsoid_r_geodetic| / r = %.3e"
                % (info(), e1)))
            ctx.check(e2 <= 1e-9, "radius/ellipsoid_r_geocentric", lambda: (
                "%s: |r(h=0) - ellipsoid_r_geocentric(lat_c)| / r = %.3e"
                % (info(), e2)))
    elif op == "intersect":
        pos = g.geocentricposlos2cart(A + 600e3, float(step["lat"]),
                                      float(step["lon"]), float(step["za"]),
                                      float(step["az"]) % 360.0 - 180.0)
        alt = float(step["alt"])
        d = g.line_ellipsoid_intersect(*pos, arg, alt)
        ctx.check(np.shape(d) == (1, 2), "shape/line_ellipsoid_intersect",
                  lambda: "%s: %r" % (info(), np.shape(d)))
        ref, rel = ref_intersect(*pos, A, E, alt)
        if abs(rel) > 1e-6:
            if ref is None:
                ctx.check(np.all(np.isnan(d)), "intersect/hit-reported",
                          lambda: "%s: %r although the line misses the "
                          "ellipsoid" % (info(), d))
                ctx.label("hist-intersect-miss")
            else:
                got = sorted(float(v) for v in np.ravel(d))
                ctx.check(all(abs(p - q) <= 1e-9 * abs(q) + 1e-5
                              for p, q in zip(got, ref)),
                          "reference/line_ellipsoid_intersect", lambda: (
                              "%s, za=%r alt=%r: roots %r, expected %r"
                              % (info(), step["za"], alt, got, ref)))
    elif op == "roundtrip":
        lats = HIST_LATS
        h, lon = float(step["h"]), float(step["lon"])
        xyz = g.geodetic2cart(h, lats, lon, arg)
        ref = ref_geodetic2cart(A, E, h, lats, lon)
        err = max(_maxerr(xyz[i], ref[i]) for i in range(3))
        ctx.check(err <= 1e-12 * (A + 1e6), "reference/geodetic2cart",
                  lambda: "%s: |xyz - closed form| = %.3e m" % (info(), err))
        h2, lat2, lon2 = g.cart2geodetic(*xyz, arg)
        dh = float(np.max(np.abs(h2 - h)))
        dl = max(float(np.max(np.abs(lat2 - lats))),
                 float(np.max(np.abs(lon_diff(lon2, lon)))))
        # The 1 cm claim is made for the offered models.  A derived ellipsoid
        # may be far more eccentric or larger (Jupiter's radius with e = 0.27):
        # the iteration stops at |dB| <= 1e-10 rad, which leaves up to
        # ~1e-10 * (a + h) / (1 - e^2) metres; it is checked against that
        # scale (never tighter than the claimed 1 cm).
        tol_m = max(TOL_M, 4e-10 * (A + abs(h)) / (1.0 - float(E) ** 2))
        ctx.check(dh <= tol_m and dl <= TOL_DEG,
                  "roundtrip/geodetic-cart/derived", lambda: (
                      "%s: errors %.3e m, %.3e deg" % (info(), dh, dl)))
    elif op == "ellipsoid2d":
        out = g.ellipsoid2d(arg, step["inc"])
        eref = float(ref_ellipsoid2d_e(A, E, step["inc"]))
        ctx.check(float(out[0]) == A
                  and e2d_close(out[1], eref),
                  "reference/ellipsoid2d", lambda: (
                      "%s: ellipsoid2d(.., %r) = %r, expected (a, %r)"
                      % (info(), step["inc"], out, eref)))
    else:
        out = g.ellipsoidcurvradius(arg, step["lat"], step["az"])
        rref = float(ref_curvradius(A, E, step["lat"], step["az"]))
        ctx.check(out[1] == 0 and abs(float(out[0]) - rref) <= 1e-12 * rref,
                  "reference/ellipsoidcurvradius", lambda: (
                      "%s: ellipsoidcurvradius(.., %r, %r) = %r, expected "
                      "(%r, 0)" % (info(), step["lat"], step["az"], out,
                                   rref)))


def model_probe(ctx, g, name, el, where):
    """cheap oracles for the model under test, run between history steps"""
    a, e = float(el[0]), float(el[1])
    lats = HIST_LATS
    b = g.get_ellipsoid_semiminor_axis(el)
    bref = float(LD(a) * np.sqrt(1 - LD(e) * LD(e)))
    ctx.check(abs(float(b) - bref) <= 1e-14 * bref,
              "reference/get_ellipsoid_semiminor_axis", lambda: (
                  "%s %s: %r, expected %r" % (name, where, b, bref)))
    rc = g.ellipsoid_r_geocentric(el, lats)
    rd = g.ellipsoid_r_geodetic(el, lats)
    e1 = _maxerr(rc, ref_r_geocentric(a, e, lats)) / a
    e2 = _maxerr(rd, ref_r_geodetic(a, e, lats)) / a
    ctx.check(e1 <= 1e-12, "reference/ellipsoid_r_geocentric", lambda: (
        "%s %s: relative error %.3e" % (name, where, e1)))
    ctx.check(e2 <= 1e-12, "reference/ellipsoid_r_geodetic", lambda: (
        "%s %s: relative error %.3e" % (name, where, e2)))
    return [np.asarray(b, float), np.asarray(rc, float),
            np.asarray(rd, float)]


def snapshot(g, el, H, LAT, LON):
    """raw results of the functions under test, to compare the start and
    the end of a history bit by bit"""
    xyz = g.geodetic2cart(H, LAT, LON, el)
    out = list(xyz) + list(g.cart2geodetic(*xyz, el))
    r, latc, lonc = g.geodetic2geocentric(H, LAT, LON, el)
    out += [r, latc, lonc, g.ellipsoid_r_geodetic(el, LAT),
            g.ellipsoid_r_geocentric(el, latc),
            g.get_ellipsoid_semiminor_axis(el)]
    out += list(g.ellipsoid2d(el, 98.0))
    out += list(g.ellipsoidcurvradius(el, 10.0, 30.0))
    pos = g.geocentricposlos2cart(float(el[0]) + 600e3, 10.0, 20.0, 170.0,
                                  40.0)
    out.append(np.sort(g.line_ellipsoid_intersect(*pos, el, 0.0), axis=-1))
    return [np.array(v, dtype=float) for v in out]


def check_history(case, ctx):
    """identity checks - history of calls on related ellipsoids - the same
    identity checks again: every oracle against its own reference, and the
    results of the model under test must not have changed"""
    from typhon import geodesy
    g = Guarded(geodesy, ctx)
    name = case["ell"]
    el = g.ellipsoidmodels()[name]
    ctx.label("history", name, "hist-len-%d" % min(len(case["steps"]), 8))
    H = np.array(case["h"], float)
    LAT = np.array(case["lat"], float)
    LON = np.array(case["lon"], float)
    first = case["first"]
    if first == "model":
        convert_checks(ctx, g, name, el, H, LAT, LON)
        before = snapshot(g, el, H, LAT, LON)
    else:
        # the related ellipsoids are seen before the model itself
        ctx.label("hist-derived-first")
        before = None
    for k, step in enumerate(case["steps"]):
        history_step(ctx, g, el, step)
        if step["probe"]:
            model_probe(ctx, g, name, el, "after step %d" % k)
    convert_checks(ctx, g, name, el, H, LAT, LON)
    after = snapshot(g, el, H, LAT, LON)
    if before is not None:
        same = all(np.array_equal(p, q, equal_nan=True)
                   for p, q in zip(before, after))
        ctx.check(same, "history/result-changed", lambda: (
            "%s: results before and after the history %r differ:\n%r\n%r"
            % (name, [(s_["ell"], s_["op"]) for s_ in case["steps"]],
               [v.tolist() for v in before], [v.tolist() for v in after])))
    ctx.nontrivial = any(lab.startswith("hist-same-") for lab in ctx.labels)


@st.composite
def history_steps(draw, lo, hi):
    n = draw(st.integers(lo, hi))
    steps = []
    for _ in range(n):
        steps.append({
            "ell": draw(st.sampled_from(HIST_ELLS)),
            "op": draw(st.sampled_from(HIST_OPS)),
            "bad": draw(st.sampled_from(HIST_BAD)),
            "as": draw(st.sampled_from(["tuple", "tuple", "list", "array"])),
            # exactly spherical or clearly eccentric: ellipsoid2d takes
            # sqrt(1 - (r_p/a)^2), which is NaN/noise for 0 < e < ~1e-7 (not
            # a claim of this property, see the report)
            "e": draw(st.one_of(st.floats(1e-3, 0.3), st.sampled_from(
                [0.0, 0.0818191908426, 0.1083]))),
            "scale": draw(st.sampled_from([0.5, 2.0, 1.001])),
            "other": draw(st.sampled_from(ELLIPSOIDS)),
            "inc": draw(st.one_of(st.floats(1.0, 179.0),
                                  st.sampled_from([90.0, 98.0, 45.0]))),
            "lat": draw(st.one_of(st.floats(-88.0, 88.0),
                                  st.sampled_from([0.0, 0.0, 45.0, 88.0]))),
            "az": draw(st.one_of(st.floats(0.0, 360.0),
                                 st.sampled_from([90.0, 90.0, 0.0, 270.0]))),
            "lon": draw(st.floats(-180.0, 180.0)),
            # hits (near nadir) and, between the two limb angles, misses
            "za": draw(st.one_of(st.floats(150.0, 179.0),
                                 st.floats(1.0, 179.0))),
            "alt": draw(st.sampled_from([0.0, 0.0, 1e4, 3e4])),
            "h": draw(st.sampled_from([0.0, -1e4, 1e5, 1e6, 777.7])),
            "probe": draw(st.booleans()),
        })
    return steps


@st.composite
def history_cases(draw):
    n = draw(st.integers(1, 6))
    return {
        "ell": draw(st.sampled_from(ELLIPSOIDS + ["WGS84", "WGS84",
                                                  "EllipsoidMars",
                                                  "EllipsoidMars"])),
        "first": draw(st.sampled_from(["model", "derived"])),
        "steps": draw(history_steps(1, 8)),
        "lat": draw(st.lists(lat_values(), min_size=n, max_size=n)),
        "lon": draw(st.lists(lon_values(), min_size=n, max_size=n)),
        "h": draw(st.lists(h_values(), min_size=n, max_size=n)),
    }


# --------------------------------------------------------------------------
# position + line of sight
# --------------------------------------------------------------------------
def aa_tol(za, aa):
    """float64 error model (rad) of an azimuth recovered from its cosine
    c = cos(aa), where c carries an error dc = K eps / sin(za)^2 (the zenith
    angle itself comes out of an arccos): d(aa) = min(dc / |sin aa|,
    sqrt(2 dc)), K = 32 (sampled worst case K = 3.3 / 1.2).  At za = 1e-3 deg
    this is a pointing error of 7e-6 deg; for za = aa = 45 deg 3e-14 rad."""
    eps = 2.2e-16
    sz = np.sin(np.deg2rad(za))
    sa = np.abs(np.sin(np.deg2rad(aa)))
    dc = 32 * eps / sz ** 2
    return 1e-12 + np.minimum(dc / sa, np.sqrt(2 * dc))


def ref_angles(lat, lon, vx, vy, vz):
    """zenith and azimuth angle (deg, float) of the vector v at the
    geocentric position (lat, lon): east-north-up components in long double,
    za = atan2(|horizontal|, up), aa = atan2(east, north)"""
    lat, lon, vx, vy, vz = np.broadcast_arrays(ld(lat), ld(lon), ld(vx),
                                               ld(vy), ld(vz))
    p, l = lat * D2R, lon * D2R
    up = vx * np.cos(p) * np.cos(l) + vy * np.cos(p) * np.sin(l) \
        + vz * np.sin(p)
    north = -vx * np.sin(p) * np.cos(l) - vy * np.sin(p) * np.sin(l) \
        + vz * np.cos(p)
    east = -vx * np.sin(l) + vy * np.cos(l)
    za = np.arctan2(np.hypot(north, east), up) * R2D
    aa = np.arctan2(east, north) * R2D
    return za.astype(float), aa.astype(float)


def check_los(case, ctx):
    from typhon import geodesy
    g = Guarded(geodesy, ctx)
    a = float(g.ellipsoidmodels()[case["ell"]][0])
    kind = case["kind"]
    ctx.label(case["ell"], "los-kind-" + kind)
    ctx.nontrivial = True
    za_all = np.asarray(case["za"], float)
    aa_all = np.asarray(case["aa"], float)
    if np.any((za_all < 0.1) | (za_all > 179.9)):
        ctx.label("los-near-zenith-nadir")
    if np.any((np.abs(aa_all) < 0.1) | (np.abs(aa_all) > 179.9)):
        ctx.label("los-near-meridian")
    if np.any(np.abs(np.asarray(case["lat"])) >= 87.9):
        ctx.label("lat-88")
    if np.any(np.abs(np.asarray(case["lon"])) == 180.0):
        ctx.label("dateline")
    if kind == "2d":
        ctx.label("array-2d")
    scale = float(case["scale"])
    mode = case.get("los_mode", "scale")
    los_info = "scaled by %r" % scale if mode == "scale" else mode
    ctx.label("los-" + mode)
    if mode == "scale" and scale != 1.0 and abs(scale - 1.0) <= 1.1e-5:
        ctx.label("los-near-unit-length")
    elif mode != "scale":
        ctx.label("los-near-unit-length")

    def one(R, LAT, LON, ZA, AA):
        shape = np.broadcast(R, LAT, LON, ZA, AA).shape or (1,)
        Rb, LATb, LONb, ZAb, AAb = [
            np.broadcast_to(np.asarray(v, float), shape)
            for v in (R, LAT, LON, ZA, AA)]

        def info():
            return "r=%r lat=%r lon=%r za=%r aa=%r" % tuple(
                np.asarray(v).tolist() for v in (R, LAT, LON, ZA, AA))

        out = g.geocentricposlos2cart(R, LAT, LON, ZA, AA)
        _shape_ok(ctx, "geocentricposlos2cart", out, shape)
        _finite(ctx, "geocentricposlos2cart", *out)
        x, y, z, dx, dy, dz = out
        rp = ref_geocentric2cart(Rb, LATb, LONb)
        rl = ref_los(LATb, LONb, ZAb, AAb)
        ep = max(_maxerr((x, y, z)[i], rp[i]) for i in range(3))
        el_ = max(_maxerr((dx, dy, dz)[i], rl[i]) for i in range(3))
        ctx.check(ep <= 1e-12 * (a + 1e6), "reference/poslos-position",
                  lambda: "%s: position error %.3e m" % (info(), ep))
        ctx.check(el_ <= 1e-12, "reference/poslos-los", lambda: (
            "%s: LOS vector differs from the ENU closed form by %.3e"
            % (info(), el_)))
        # the LOS vector handed back: scaled (the function documents that
        # its length does not matter; also lengths of 1 +- 1e-9 .. 1e-5), or
        # with components rounded to float32 / to 5-6 decimals.  The expected
        # angles are those of the vector actually passed (long double).
        if mode == "scale":
            vx, vy, vz = scale * dx, scale * dy, scale * dz
        elif mode == "float32":
            vx, vy, vz = (np.asarray(v).astype("float32").astype(float)
                          for v in (dx, dy, dz))
        else:
            nd = 5 if mode == "round5" else 6
            vx, vy, vz = (np.round(np.asarray(v, float), nd)
                          for v in (dx, dy, dz))
        za_ref, aa_ref = ref_angles(LATb, LONb, vx, vy, vz)
        regular = ((za_ref >= 1e-3) & (za_ref <= 180 - 1e-3)
                   & (np.abs(aa_ref) >= 1e-3) & (np.abs(aa_ref) <= 180 - 1e-3))
        if mode == "scale":
            # a positive factor does not change the direction
            ctx.check(np.all(np.abs(za_ref - ZAb) <= 1e-9) and np.all(
                np.abs(lon_diff(aa_ref, AAb)) * np.sin(np.deg2rad(ZAb))
                <= 1e-9), "harness/los-reference", lambda: (
                    "%s: reference angles %r %r" % (info(), za_ref, aa_ref)))
        elif not np.all(regular):
            ctx.label("los-rounded-into-singular")
        ZAe = np.where(regular, za_ref, ZAb)
        AAe = np.where(regular, aa_ref, AAb)
        back = g.cartposlos2geocentric(x, y, z, vx, vy, vz)
        _shape_ok(ctx, "cartposlos2geocentric", back, shape)
        _finite(ctx, "cartposlos2geocentric", *back)
        r2, lat2, lon2, za2, aa2 = back
        d = float(np.max(np.abs(r2 - Rb)))
        da = max(float(np.max(np.abs(lat2 - LATb))),
                 float(np.max(np.abs(lon_diff(lon2, LONb)))))
        ctx.check(d <= TOL_M and da <= TOL_DEG, "roundtrip/poslos-position",
                  lambda: "%s: errors %.3e m, %.3e deg" % (info(), d, da))
        dza = float(np.max(np.abs(za2 - ZAe)[regular], initial=0.0))
        ctx.check(dza <= 1e-6, "roundtrip/poslos-zenith", lambda: (
            "%s, LOS %s: zenith angle error %.3e deg (got %r, expected %r)"
            % (info(), los_info, dza, za2.tolist(), ZAe.tolist())))
        # a second conversion of the same shape (mirrored zenith angles):
        # the guard verifies that the first results are still what they were
        # and that the new ones do not share memory with them
        out2 = g.geocentricposlos2cart(R, LAT, LON, 180.0 - ZAb, AA)
        rl2 = ref_los(LATb, LONb, 180.0 - ZAb, AAb)
        el2 = max(_maxerr(out2[3 + i], rl2[i]) for i in range(3))
        el1 = max(_maxerr((dx, dy, dz)[i], rl[i]) for i in range(3))
        ctx.check(el2 <= 1e-12 and el1 <= 1e-12, "reference/poslos-los-second",
                  lambda: "%s: after a second call of the same shape the "
                  "LOS vectors differ from the closed form by %.3e (first "
                  "call) and %.3e (second call)" % (info(), el1, el2))
        daa = np.deg2rad(np.abs(lon_diff(aa2, AAe)))
        lim = np.where(regular, aa_tol(ZAe, AAe), np.inf)
        ctx.check(np.all(daa <= lim), "roundtrip/poslos-azimuth", lambda: (
            "%s: azimuth error %.3e deg, tolerance %.3e deg (got %r)"
            % (info(), float(np.rad2deg(np.max(daa))),
               float(np.rad2deg(lim.flat[int(np.argmax(daa - lim))])),
               aa2.tolist())))

    names = ("h", "lat", "lon", "za", "aa")
    if case.get("int_r"):
        # integer-typed radius (the semi-major axes of ellipsoidmodels() are
        # Python ints): whole metres, passed as int / int64 array
        ctx.label("int-radius")

        def radius(h):
            if np.ndim(h) == 0 and not isinstance(h, np.ndarray):
                return int(round(a)) + int(round(float(h)))
            return (np.rint(np.asarray(h, float)).astype("int64")
                    + int(round(a)))
    else:
        def radius(h):
            return a + h
    if kind in ("scalar", "0d"):
        for i in range(len(case["lat"])):
            st_ = ("0d" if kind == "0d" else ("py", "np")[i % 2])
            v = [_mk([case[nm][i]], [], st_) for nm in names]
            one(radius(v[0]), *v[1:])
        return
    v = [_mk(case[nm], case["shapes"][nm], "py") for nm in names]
    one(radius(v[0]), *v[1:])


def edge_angle(lo, hi, eps):
    """angles in [lo+eps, hi-eps], log-weighted towards both ends"""
    span = hi - lo

    def build(kind, u, d):
        if kind == 0:
            return lo + eps + u * (span - 2 * eps)
        off = min(eps * (span / 2 / eps) ** d, span / 2)
        return lo + off if kind == 1 else hi - off
    return st.builds(build, st.sampled_from([0, 0, 1, 2]), st.floats(0, 1),
                     st.floats(0, 1))


@st.composite
def los_cases(draw):
    aa = st.builds(lambda s, v: s * v, st.sampled_from([1.0, -1.0]),
                   edge_angle(0.0, 180.0, 1e-3))
    case = draw(shaped({"h": h_values(), "lat": lat_values(),
                        "lon": lon_values(-180.0, 180.0),
                        "za": edge_angle(0.0, 180.0, 1e-3), "aa": aa},
                       common_ok=("lat", "za", "aa")))
    case["ell"] = draw(st.sampled_from(ELLIPSOIDS))
    # clearly non-unit lengths, and lengths that are "almost" one (a scale
    # applies to every element of the call, so do the rounding modes)
    near = st.builds(lambda s, d: 1.0 + s * d, st.sampled_from([1.0, -1.0]),
                     st.sampled_from([1e-9, 1e-7, 1e-6, 3e-6, 8e-6, 1e-5,
                                      1e-4, 1e-2]))
    case["scale"] = draw(st.one_of(
        st.sampled_from([1.0, 2.0, 0.125, 1e3, 1e-3, 7.3]), near, near))
    case["los_mode"] = draw(st.sampled_from(["scale", "scale", "scale",
                                             "scale", "float32", "round5",
                                             "round6"]))
    case["int_r"] = draw(st.integers(0, 4)) == 0
    return case


# --------------------------------------------------------------------------
# distances
# --------------------------------------------------------------------------
def check_distance(case, ctx):
    from typhon import geodesy
    g = Guarded(geodesy, ctx)
    from typhon import constants
    pts = np.asarray(case["pts"], float)
    lat, lon = pts[:, 0], pts[:, 1]
    n = len(lat)
    R = case["r"]
    RE = float(constants.earth_radius)
    shift = float(case["shift"])
    la1, lo1, la2, lo2 = lat[:, None], lon[:, None], lat[None, :], lon[None, :]
    ref_arc, ref_chord = ref_arc_chord(la1, lo1, la2, lo2)
    ref_arc_f = ref_arc.astype(float)
    tol = arc_tol(ref_arc_f)
    same = (la1 == la2) & (lo1 == lo2)

    ctx.label("dist-n%d" % n, "dist-r-" + ("deg" if R is None else "m"))
    if np.any(ref_arc_f > np.pi - 1e-6):
        ctx.label("antipode")
    if np.any(same & ~np.eye(n, dtype=bool)):
        ctx.label("coincident")
    if np.any(np.abs(lat) == 90):
        ctx.label("pole")
    if np.any((ref_arc_f < 1e-9) & ~same):
        ctx.label("alias-or-tiny")
    if np.any(np.abs(lon) >= 180) or np.any(np.abs(lon + shift) >= 180):
        ctx.label("dateline")
    ctx.nontrivial = bool(np.any((ref_arc_f > 1e-6)
                                 & (ref_arc_f < np.pi - 1e-6)))

    def info():
        return "points(lat,lon)=%r shift=%r r=%r" % (pts.tolist(), shift, R)

    D = g.great_circle_distance(la1, lo1, la2, lo2)
    ctx.check(np.shape(D) == (n, n), "shape/great_circle_distance",
              lambda: repr(np.shape(D)))
    ctx.check(not np.any(np.isnan(D)), "gcd/nan", lambda: (
        "%s: NaN distance\n%r" % (info(), D)))
    ctx.check(np.array_equal(D, D.T), "gcd/asymmetric", lambda: (
        "%s: max |d(p,q)-d(q,p)| = %r deg" % (info(),
                                              float(np.max(np.abs(D - D.T))))))
    ctx.check(np.all(D[same] == 0), "gcd/nonzero-for-coincident", lambda: (
        "%s: d(p,p) = %r" % (info(), D[same].tolist())))
    ctx.check(np.all(D >= 0) and np.all(D <= 180 * (1 + 1e-9)), "gcd/bound",
              lambda: "%s: distances outside [0, 180] deg: %r" % (
                  info(), D.tolist()))
    Drad = np.deg2rad(D)
    err = np.abs(Drad - ref_arc_f)
    ctx.check(np.all(err <= tol), "gcd/reference", lambda: (
        "%s: arc differs from the long-double reference by %.3e rad "
        "(tolerance %.3e)" % (info(), float(err.flat[int(np.argmax(err - tol))]),
                              float(tol.flat[int(np.argmax(err - tol))]))))
    # triangle inequality  d(i,k) <= d(i,j) + d(j,k)
    lhs = Drad[:, None, :]
    rhs = Drad[:, :, None] + Drad[None, :, :]
    slack = (1e-9 * rhs + tol[:, None, :] + tol[:, :, None] + tol[None, :, :])
    ctx.check(np.all(lhs <= rhs + slack), "gcd/triangle", lambda: (
        "%s: triangle inequality violated by %.3e rad"
        % (info(), float(np.max(lhs - rhs - slack)))))
    # common longitude shift
    D2 = g.great_circle_distance(la1, lo1 + shift, la2, lo2 + shift)
    dd = np.abs(np.deg2rad(D2) - Drad)
    lim = 1e-9 * ref_arc_f + 2 * tol + 1e-6 / RE
    ctx.check(np.all(dd <= lim), "gcd/longitude-shift", lambda: (
        "%s: distance changes by %.3e rad under a common longitude shift"
        % (info(), float(np.max(dd)))))
    # radius argument
    if R is not None:
        Dm = g.great_circle_distance(la1, lo1, la2, lo2, r=R)
        ctx.check(np.all(Dm <= np.pi * R * (1 + 1e-9)) and np.all(Dm >= 0),
                  "gcd/bound-metres", lambda: "%s: %r" % (info(), Dm.tolist()))
        ctx.check(np.all(np.abs(Dm - R * Drad) <= 1e-13 * R * np.pi),
                  "gcd/radius-scaling", lambda: (
                      "%s: r * arc != distance: %r vs %r"
                      % (info(), Dm.tolist(), (R * Drad).tolist())))
        ctx.check(np.array_equal(Dm, Dm.T) and np.all(Dm[same] == 0),
                  "gcd/asymmetric", lambda: "%s (r given)" % info())
    # tunnel distance, 1-D calls over all pairs
    i, j = np.meshgrid(np.arange(n), np.arange(n), indexing="ij")
    i, j = i.ravel(), j.ravel()
    T = g.tunnel_distance(lat[i], lon[i], lat[j], lon[j])
    ctx.check(np.shape(T) == (n * n,), "shape/tunnel_distance",
              lambda: repr(np.shape(T)))
    T = np.asarray(T).reshape(n, n)
    ctx.check(not np.any(np.isnan(T)), "tunnel/nan", lambda: info())
    ctx.check(np.array_equal(T, T.T), "tunnel/asymmetric", lambda: (
        "%s: max |t(p,q)-t(q,p)| = %r m" % (info(),
                                            float(np.max(np.abs(T - T.T))))))
    ctx.check(np.all(T[same] == 0), "tunnel/nonzero-for-coincident",
              lambda: "%s: %r" % (info(), T[same].tolist()))
    ctx.check(np.all(T >= 0) and np.all(T <= 2 * RE * (1 + 1e-9)),
              "tunnel/bound", lambda: "%s: %r" % (info(), T.tolist()))
    errt = np.abs(T - (ref_chord * LD(RE)).astype(float))
    ctx.check(np.all(errt <= 1e-12 * RE), "tunnel/reference", lambda: (
        "%s: chord differs from the long-double reference by %.3e m"
        % (info(), float(np.max(errt)))))
    rel = np.abs(T - 2 * RE * np.sin(Drad / 2))
    lim = 1e-9 * T + 1e-6 + RE * np.abs(np.cos(ref_arc_f / 2)) * tol
    ctx.check(np.all(rel <= lim), "chord-arc-relation", lambda: (
        "%s: |tunnel - 2 R sin(arc/2)| = %.3e m"
        % (info(), float(np.max(rel)))))
    lhs = T[:, None, :]
    rhs = T[:, :, None] + T[None, :, :]
    ctx.check(np.all(lhs <= rhs * (1 + 1e-9) + 1e-6), "tunnel/triangle",
              lambda: "%s: violated by %.3e m" % (
                  info(), float(np.max(lhs - rhs))))
    T2 = np.asarray(g.tunnel_distance(lat[i], lon[i] + shift, lat[j],
                                      lon[j] + shift)).reshape(n, n)
    ctx.check(np.all(np.abs(T2 - T) <= 1e-9 * T + 1e-6),
              "tunnel/longitude-shift", lambda: (
                  "%s: changes by %.3e m" % (info(),
                                             float(np.max(np.abs(T2 - T))))))
    int_grid_checks(ctx, g, case, RE)
    # scalar and mixed calls on a few pairs
    for (p, q) in case["scalar_pairs"]:
        p, q = p % n, q % n
        args = (float(lat[p]), float(lon[p]), float(lat[q]), float(lon[q]))
        d = g.great_circle_distance(*args)
        ctx.check(np.ndim(d) == 0, "shape/great_circle_distance",
                  lambda: "scalar call returned shape %r" % (np.shape(d),))
        # scalar and array code paths of sin/cos may differ in the last
        # bit, which the haversine formula amplifies near antipodes
        ctx.check(abs(d - D[p, q]) <= 1e-13 * 180 + np.rad2deg(2 * tol[p, q])
                  and (
            d == 0 if same[p, q] else True), "gcd/scalar-vs-array", lambda: (
                "%r: scalar %r array %r" % (args, d, D[p, q])))
        d2 = g.great_circle_distance(args[2], args[3], args[0], args[1])
        ctx.check(d == d2, "gcd/asymmetric", lambda: "%r: %r vs %r" % (
            args, d, d2))
        t = g.tunnel_distance(*args)
        ctx.check(np.size(t) == 1 and abs(float(np.ravel(t)[0]) - T[p, q])
                  <= 1e-13 * RE, "tunnel/scalar-vs-array", lambda: (
                      "%r: scalar %r array %r" % (args, t, T[p, q])))
        t = g.tunnel_distance(lat, lon, args[2], args[3])
        ctx.check(np.shape(t) == (n,) and np.all(
            np.abs(t - T[:, q]) <= 1e-13 * RE), "tunnel/broadcast-vs-array",
            lambda: "%r: %r vs %r" % (args, t, T[:, q]))


def int_grid_checks(ctx, g, case, RE):
    """whole-degree coordinates in narrow / unsigned integer dtypes: the
    same values as float64 give the reference.  NumPy evaluates sin/cos of
    (u)int8 in float16 and of (u)int16 in float32, so the tolerance follows
    the precision that the argument dtypes select."""
    grid = case.get("int_grid")
    if not grid:
        return
    la = np.array([p[0] for p in grid["pts"]], dtype=grid["lat_dtype"])
    lo = np.array([p[1] for p in grid["pts"]], dtype=grid["lon_dtype"])
    ctx.label("int-grid", "int-grid-lat-" + grid["lat_dtype"],
              "int-grid-lon-" + grid["lon_dtype"])
    eps = max(float(np.finfo(np.deg2rad(v[:1]).dtype).eps) for v in (la, lo))
    laf, lof = la.astype(float), lo.astype(float)
    n = len(la)

    def info():
        return "lat=%r (%s) lon=%r (%s)" % (la.tolist(), la.dtype,
                                            lo.tolist(), lo.dtype)

    D = g.great_circle_distance(la[:, None], lo[:, None], la[None, :],
                                lo[None, :])
    ref, chord = ref_arc_chord(laf[:, None], lof[:, None], laf[None, :],
                               lof[None, :])
    ref = ref.astype(float)
    ctx.check(np.shape(D) == (n, n), "shape/great_circle_distance",
              lambda: repr(np.shape(D)))
    D = np.asarray(D, dtype=float)
    ctx.check(np.array_equal(D, D.T, equal_nan=True), "gcd/asymmetric",
              lambda: "%s: d(p,q) != d(q,p):\n%r" % (info(), D.tolist()))
    # away from the antipode (where arcsin(sqrt(a)) may see a > 1 in low
    # precision) the distance is that of the float64 evaluation
    with np.errstate(all="ignore"):
        tol = (16 * eps * (1 + ref) + np.minimum(
            16 * eps * np.abs(np.tan(ref / 2)), 6 * np.sqrt(eps)))
    far = ref <= np.pi - 8 * np.sqrt(eps)
    err = np.abs(np.deg2rad(D) - ref)
    ctx.check(np.all((err <= tol)[far]), "gcd/integer-coordinates", lambda: (
        "%s: distances [deg] %r, for the same values as float64 %r"
        % (info(), D.tolist(), np.rad2deg(ref).tolist())))
    p, q = 0, n - 1
    d1 = g.great_circle_distance(la[p], lo[p], la[q], lo[q])
    d2 = g.great_circle_distance(la[q], lo[q], la[p], lo[p])
    ctx.check(np.array_equal(d1, d2, equal_nan=True) and (
        not far[p, q] or abs(np.deg2rad(float(d1)) - ref[p, q]) <= tol[p, q]),
        "gcd/integer-coordinates-scalar", lambda: (
            "%s: scalar call on the first and last point: %r one way, %r the "
            "other way, float64: %r" % (info(), d1, d2,
                                        float(np.rad2deg(ref[p, q])))))
    if eps > 1e-6:
        # 8-bit coordinates select float16, in which a planet radius
        # overflows (inf/NaN on the unchanged tree, not claimed): only the
        # angular distance is compared for them
        ctx.label("int-grid-8bit")
        return
    i, j = np.meshgrid(np.arange(n), np.arange(n), indexing="ij")
    i, j = i.ravel(), j.ravel()
    T = np.asarray(g.tunnel_distance(la[i], lo[i], la[j], lo[j]),
                   float).reshape(n, n)
    Tref = (chord * LD(RE)).astype(float)
    ctx.check(np.all(np.abs(T - Tref) <= 16 * eps * RE) and np.array_equal(
        T, T.T), "tunnel/integer-coordinates", lambda: (
            "%s: tunnel distances %r, float64: %r" % (info(), T.tolist(),
                                                      Tref.tolist())))
    # the conversions that take latitude / longitude
    a, e = 6378137, 0.0818191908426
    lat88 = np.clip(la, -88, 88)
    for name, got, ref3 in (
            ("geodetic2cart", g.geodetic2cart(100.0, lat88, lo, (a, e)),
             ref_geodetic2cart(a, e, 100.0, lat88.astype(float), lof)),
            ("geocentric2cart", g.geocentric2cart(7e6, la, lo),
             ref_geocentric2cart(7e6, laf, lof))):
        err3 = max(_maxerr(np.broadcast_to(got[k], (n,)), ref3[k])
                   for k in range(3))
        ctx.check(err3 <= 16 * eps * 7e6, "integer-coordinates/" + name,
                  lambda: "%s: %s is %.3e m away from the float64 "
                  "evaluation" % (info(), name, err3))


@st.composite
def distance_cases(draw):
    latv = st.one_of(st.floats(-90.0, 90.0),
                     st.sampled_from([0.0, 90.0, -90.0, 45.0, -45.0, 88.0,
                                      1e-9, 60.0, -30.0]))
    lonv = st.one_of(st.floats(-360.0, 360.0), st.floats(-180.0, 180.0),
                     st.sampled_from([0.0, 180.0, -180.0, 90.0, -90.0, 360.0,
                                      179.999999, -179.999999, 10.0]),
                     st.integers(-360 * 8, 360 * 8).map(lambda k: k / 8.0))
    nbase = draw(st.integers(1, 4))
    pts = [[draw(latv), draw(lonv)] for _ in range(nbase)]
    nder = draw(st.integers(max(0, 3 - nbase), 4))
    for _ in range(nder):
        la, lo = pts[draw(st.integers(0, len(pts) - 1))]
        op = draw(st.sampled_from(["copy", "antipode", "antipode",
                                   "near-antipode", "meridian", "parallel",
                                   "alias", "near", "pole"]))
        if op == "antipode":
            pts.append([-la, lo - 180.0 if lo > 0 else lo + 180.0])
        elif op == "near-antipode":
            d = draw(st.floats(-1e-4, 1e-4))
            pts.append([_clip(-la + d, -90.0, 90.0),
                        (lo - 180.0 if lo > 0 else lo + 180.0)
                        + draw(st.floats(-1e-4, 1e-4))])
        elif op == "meridian":
            pts.append([draw(latv), lo])
        elif op == "parallel":
            pts.append([la, draw(lonv)])
        elif op == "alias":
            pts.append([la, lo + draw(st.sampled_from([360.0, -360.0]))])
        elif op == "near":
            pts.append([_clip(la + draw(st.floats(-1e-5, 1e-5)), -90.0, 90.0),
                        lo + draw(st.floats(-1e-5, 1e-5))])
        elif op == "pole":
            pts.append([draw(st.sampled_from([90.0, -90.0])), draw(lonv)])
        else:
            pts.append([la, lo])
    shift = draw(st.one_of(
        st.floats(-360.0, 360.0),
        st.integers(-360 * 16, 360 * 16).map(lambda k: k / 16.0),
        st.sampled_from([180.0, -180.0, 360.0, 90.0, 1e-3])))
    r = draw(st.sampled_from([None, 6.3781e6, 6378137.0, 1.0, 3389500.0,
                              69911000.0]))
    pairs = draw(st.lists(st.tuples(st.integers(0, 7), st.integers(0, 7)),
                          min_size=1, max_size=3))
    grid = None
    if draw(st.integers(0, 2)) == 0:
        lat_dtype = draw(st.sampled_from(["int8", "int8", "int16", "int32",
                                          "int64"]))
        lon_dtype = draw(st.sampled_from(["uint8", "uint16", "uint16",
                                          "uint32", "uint32", "uint64",
                                          "int16", "int32"]))
        lon_lo, lon_hi = {"uint8": (0, 255), "int16": (-180, 180),
                          "int32": (-180, 180)}.get(lon_dtype, (0, 359))
        ilat = st.one_of(st.integers(-90, 90),
                         st.sampled_from([-90, -60, 0, 70, 90]))
        ilon = st.one_of(st.integers(lon_lo, lon_hi),
                         st.sampled_from([lon_lo, lon_hi, 1, 90, 180]))
        grid = {"lat_dtype": lat_dtype, "lon_dtype": lon_dtype,
                "pts": draw(st.lists(st.tuples(ilat, ilon).map(list),
                                     min_size=2, max_size=6))}
    return {"pts": pts, "shift": shift, "r": r, "int_grid": grid,
            "scalar_pairs": [list(p) for p in pairs]}


def suites(tier):
    return [
        Suite("convert", check_convert, strategy=convert_cases(),
              examples={"quick": 1100, "thorough": 12000}),
        Suite("special-grid", check_convert, cases=special_grid_cases,
              exhaustive=True),
        Suite("history", check_history, strategy=history_cases(),
              examples={"quick": 450, "thorough": 5000}),
        Suite("los", check_los, strategy=los_cases(),
              examples={"quick": 1000, "thorough": 10000}),
        Suite("distance", check_distance, strategy=distance_cases(),
              examples={"quick": 1200, "thorough": 10000}),
    ]
