"""C03 - IntervalTree queries and FileSet.match report exactly the overlaps.

Oracle: O(n*m) closed-interval comparison over the harness's own list.
"""
import datetime as dt
import itertools

import numpy as np
from hypothesis import strategies as st

from vp.runner import Suite

PROP_ID = "C03"
LEVEL = "exploration"
QUICK_SHARDS = 4
RULE = (
    "Hypothesis draws 1-60 closed intervals with end points on a small lattice "
    "(so touching, nesting, equality, zero are frequent) as int / float / "
    "arbitrary float / datetime, in arbitrary order, as list, tuple list or "
    "ndarray, plus query intervals, points and membership probes; all trees of "
    "<= 3 intervals over {0..3} are enumerated against all queries over "
    "{-1..4}; FileSet.match is run on two generated file populations. "
    "Oracle = brute-force closed-interval comparison.  Non-trivial = at least "
    "one stored interval hit and one missed by some query (trees) / at least "
    "one primary with a partner and one candidate secondary that is not its "
    "partner (match).  Distinct = distinct case hash."
)
ASSUMPTIONS = [
    "stored and query intervals satisfy a <= b (closed intervals)",
    "match: filesets are local directories built by the harness; coverages "
    "have whole-second end points (match compares in seconds)",
]

BASE_DT = dt.datetime(2018, 1, 1)


def conv(kind, v):
    if kind == "int":
        return int(v)
    if kind == "float":
        return v / 4.0
    if kind == "datetime":
        return BASE_DT + dt.timedelta(minutes=int(v))
    return v      # anyfloat: already a float


def build_intervals(case):
    kind = case["kind"]
    ivs = [[conv(kind, a), conv(kind, b)] for a, b in case["intervals"]]
    cont = case["container"]
    if cont == "tuples":
        return kind, ivs, [tuple(iv) for iv in ivs]
    if cont == "ndarray":
        return kind, ivs, np.asarray(ivs)
    return kind, ivs, [list(iv) for iv in ivs]


def overlaps(a, b):
    return a[0] <= b[1] and a[1] >= b[0]


def check_tree(case, ctx):
    from typhon.trees import IntervalTree
    kind, ivs, arg = build_intervals(case)
    n = len(ivs)
    ctx.label("kind-" + kind, "container-" + case["container"])
    lefts = [iv[0] for iv in ivs]
    if any(lefts[i] > lefts[i + 1] for i in range(n - 1)):
        ctx.label("unsorted")
    if len({tuple(iv) for iv in ivs}) < n:
        ctx.label("dup")
    if any(a[0] < b[0] and b[1] < a[1] for a in ivs for b in ivs):
        ctx.label("nested")
    zero = conv(kind, 0) if kind != "anyfloat" else 0.0
    if any(iv[0] == zero and iv[1] == zero for iv in ivs):
        ctx.label("zero-endpoints")
    if any(iv[0] == iv[1] for iv in ivs):
        ctx.label("degenerate")

    tree = IntervalTree(arg)
    lo = min(iv[0] for iv in ivs)
    hi = max(iv[1] for iv in ivs)

    qkind = case.get("query_kind") or kind
    if qkind != kind:
        ctx.label("query-type-%s-on-%s-tree" % (qkind, kind))
    queries = [[conv(qkind, a), conv(qkind, b)] for a, b in case["queries"]]
    any_hit = any_miss = False
    if queries:
        res = tree.query(queries)
        ctx.check(len(res) == len(queries), "query/result-count",
                  "%d results for %d queries" % (len(res), len(queries)))
        for q, r in zip(queries, res):
            exp = [i for i, iv in enumerate(ivs) if overlaps(iv, q)]
            got = sorted(int(x) for x in r)
            if q[0] <= lo and q[1] >= hi:
                ctx.label("covers-all")
            if any(q[0] == iv[1] or q[1] == iv[0] for iv in ivs):
                ctx.label("touch")
            any_hit |= bool(exp)
            any_miss |= len(exp) < n
            ctx.check(got == exp, "query/wrong-indices", lambda: (
                "intervals=%r query=%r expected=%r got=%r" % (ivs, q, exp, r)))

    if queries:
        # the returned lists belong to the caller: editing them in place must
        # not change later answers (history on one tree object)
        for r in res:
            if isinstance(r, list):
                r.append(-7)
                r.reverse()
        again = tree.query(queries)
        for q, r in zip(queries, again):
            exp = [i for i, iv in enumerate(ivs) if overlaps(iv, q)]
            ctx.check(sorted(int(x) for x in r) == exp,
                      "query/answer-changed-after-caller-edited-result",
                      lambda: "intervals=%r query=%r expected=%r got=%r" % (
                          ivs, q, exp, r))

    points = [conv(qkind, p) for p in case["points"]]
    if points:
        res = tree.query_points(points)
        ctx.check(len(res) == len(points), "query_points/result-count", "")
        for p, r in zip(points, res):
            exp = [i for i, iv in enumerate(ivs) if iv[0] <= p <= iv[1]]
            got = sorted(int(x) for x in r)
            any_hit |= bool(exp)
            any_miss |= len(exp) < n
            ctx.check(got == exp, "query_points/wrong-indices", lambda: (
                "intervals=%r point=%r expected=%r got=%r" % (ivs, p, exp, r)))
        for r in res:
            if isinstance(r, list):
                r.append(-7)
        again = tree.query_points(points)
        for p, r in zip(points, again):
            exp = [i for i, iv in enumerate(ivs) if iv[0] <= p <= iv[1]]
            ctx.check(sorted(int(x) for x in r) == exp,
                      "query_points/answer-changed-after-caller-edited-result",
                      lambda: "intervals=%r point=%r expected=%r got=%r" % (
                          ivs, p, exp, r))

    for m in case["members"]:
        if m["as"] == "scalar":
            p = conv(kind, m["v"][0])
            exp = any(iv[0] <= p <= iv[1] for iv in ivs)
            got = p in tree
            item = p
        else:
            q = [conv(kind, m["v"][0]), conv(kind, m["v"][1])]
            exp = any(overlaps(iv, q) for iv in ivs)
            item = tuple(q) if m["as"] == "tuple" else list(q)
            got = item in tree
        ctx.check(bool(got) == exp and isinstance(got, bool),
                  "contains/wrong-answer", lambda: (
                      "intervals=%r item=%r expected=%r got=%r"
                      % (ivs, item, exp, got)))
    ctx.nontrivial = any_hit and any_miss


@st.composite
def tree_cases(draw):
    kind = draw(st.sampled_from(["int", "int", "float", "datetime",
                                 "anyfloat"]))
    container = draw(st.sampled_from(["lists", "tuples", "ndarray"]))
    n = draw(st.one_of(st.integers(1, 6), st.integers(1, 60)))
    if kind == "anyfloat":
        val = st.one_of(
            st.floats(-1e6, 1e6, allow_nan=False, width=64),
            st.floats(allow_nan=False, allow_infinity=False, width=64),
            st.sampled_from([0.0, -0.0, 1.0, -1.0, 0.5]))
        wide = val
    else:
        val = st.integers(-12, 12)
        wide = st.integers(-15, 15)

    def interval(s):
        return st.tuples(s, s).map(lambda t: [min(t), max(t)])

    intervals = draw(st.lists(interval(val), min_size=n, max_size=n))
    if kind == "anyfloat":
        # probes near the stored end points as well as free ones
        ends = sorted({x for iv in intervals for x in iv})
        wide = st.one_of(val, st.sampled_from(ends))
    queries = draw(st.lists(interval(wide), min_size=0, max_size=20))
    if draw(st.booleans()):
        lo = min(iv[0] for iv in intervals)
        hi = max(iv[1] for iv in intervals)
        if kind == "anyfloat":
            queries.append([lo, hi])
        else:
            queries.append([lo - draw(st.integers(0, 2)),
                            hi + draw(st.integers(0, 2))])
    points = draw(st.lists(wide, min_size=0, max_size=20))
    members = draw(st.lists(st.fixed_dictionaries({
        "as": st.sampled_from(["scalar", "tuple", "list"]),
        "v": interval(wide)}), min_size=0, max_size=6))
    query_kind = None
    if kind == "int" and draw(st.integers(0, 2)) == 0:
        query_kind = "float"        # fractional queries on an integer tree
    elif kind == "float" and draw(st.integers(0, 3)) == 0:
        query_kind = "int"
    return {"kind": kind, "container": container, "intervals": intervals,
            "queries": queries, "points": points, "members": members,
            "query_kind": query_kind}


def small_tree_cases():
    ivs = [[a, b] for a in range(4) for b in range(a, 4)]
    queries = [[a, b] for a in range(-1, 5) for b in range(a, 5)]
    points = list(range(-1, 5))
    members = ([{"as": "scalar", "v": [p, p]} for p in points]
               + [{"as": "tuple", "v": q} for q in queries])
    for n in (1, 2, 3):
        for combo in itertools.product(ivs, repeat=n):
            for kind in (("int", "float", "datetime") if n < 3 else ("int",)):
                yield {"kind": kind, "container": "lists",
                       "intervals": [list(c) for c in combo],
                       "queries": queries, "points": points,
                       "members": members}


# --------------------------------------------------------------------------
# FileSet.match
# --------------------------------------------------------------------------
def check_match(case, ctx):
    from vp.gen import filesets as G
    from typhon.files import FileSet
    if case.get("boundary_focus"):
        ctx.label("files-reach-over-a-change-of-the-day")
    with G.Sandbox() as box:
        pops = []
        sets = []
        for k, spec in enumerate(case["sets"]):
            root = box.mkdir("set%d" % k)
            single = spec.get("single")
            if single is not None:
                # a single-file fileset (no placeholder): explicit coverage
                # or the default datetime.min .. datetime.max
                path = root + "/single_%d.dat" % k
                with open(path, "wb"):
                    pass
                cov = single["coverage"]
                t0, t1 = (dt.datetime.min, dt.datetime.max) if cov is None \
                    else cov
                pop = G.Population(root, spec["template"], [G.File(
                    path, "single_%d.dat" % k, t0, t1, {}, t0, t1, "")])
                pop.path = path
                pops.append(pop)
                sets.append(FileSet(path, name="set%d" % k,
                                    time_coverage=None if cov is None
                                    else tuple(cov)))
                ctx.label("single-file-set",
                          "single-default-coverage" if cov is None
                          else "single-explicit-coverage")
                continue
            pop = G.make_population(root, spec["template"], spec["files"])
            pops.append(pop)
            cov_s = spec["template"]["coverage_s"]
            tc = None if cov_s is None else dt.timedelta(seconds=cov_s)
            late = spec.get("late_coverage") and tc is not None
            fs_ = FileSet(pop.path, name="set%d" % k,
                          time_coverage=None if late else tc,
                          placeholder=G.user_placeholder_arg(
                              spec["template"]))
            if late:
                # history: searched before the coverage is made known
                ctx.label("coverage-assigned-late")
                list(fs_.find(no_files_error=False))
                fs_.time_coverage = tc
            if tc is not None:
                ctx.label("coverage-from-time_coverage")
            sets.append(fs_)
        start, end = case["start"], case["end"]
        mi = case["max_interval"]
        if mi is None:
            mi_arg, widen = None, dt.timedelta(0)
        else:
            widen = dt.timedelta(seconds=mi["seconds"])
            mi_arg = {"int": mi["seconds"],
                      "float": float(mi["seconds"]),
                      "str": "%d s" % mi["seconds"],
                      "td": widen}[mi["as"]]
            ctx.label("max_interval-" + mi["as"])
        # expected
        s, e = start - widen, end + widen
        exp1 = sorted([f for f in pops[0].files if G.in_period(f, s, e)],
                      key=lambda f: (f.t0, f.t1))
        exp2 = sorted([f for f in pops[1].files if G.in_period(f, s, e)],
                      key=lambda f: (f.t0, f.t1))
        expected = []
        def shifted(t, delta):
            try:
                return t + delta
            except OverflowError:
                return dt.datetime.min if delta < dt.timedelta(0) \
                    else dt.datetime.max

        for f in exp1:
            partners = [g for g in exp2
                        if shifted(g.t0, -widen) <= f.t1
                        and shifted(g.t1, widen) >= f.t0]
            if partners:
                expected.append((f, partners))
        empty_side = not exp1 or not exp2
        try:
            got = list(sets[0].match(sets[1], start, end, max_interval=mi_arg))
        except Exception as exc:  # noqa
            if empty_side and type(exc).__name__ == "NoFilesError":
                ctx.label("no-files")
                return
            raise
        if empty_side:
            # nothing can match; an empty answer is as good as NoFilesError
            ctx.label("no-files")
        got_plain = [(p.path, [q.path for q in qs]) for p, qs in got]
        # order of primaries (t0, t1) with ties free; partners likewise
        exp_map = {f.path: sorted(g.path for g in ps) for f, ps in expected}
        got_map = {}
        for p, qs in got_plain:
            ctx.check(p not in got_map, "match/primary-twice", p)
            got_map[p] = qs
        ctx.check({p: sorted(q) for p, q in got_map.items()} == exp_map,
                  "match/wrong-matches", lambda: (
                      "template=%r start=%s end=%s max_interval=%r\nexpected=%r\n"
                      "got=%r" % ([s_["template"] for s_ in case["sets"]],
                                  start, end, mi_arg, exp_map, got_plain)))
        for p, qs in got_plain:
            ctx.check(len(qs) == len(set(qs)), "match/partner-twice", qs)
        key1 = {f.path: (f.t0, f.t1) for f in pops[0].files}
        key2 = {f.path: (f.t0, f.t1) for f in pops[1].files}
        seq = [key1[p] for p, _ in got_plain]
        ctx.check(seq == sorted(seq), "match/primaries-not-in-time-order",
                  lambda: repr(got_plain))
        for p, qs in got_plain:
            seq = [key2[q] for q in qs]
            ctx.check(seq == sorted(seq), "match/partners-not-in-time-order",
                      lambda: repr((p, qs)))
        for p, qs in got:
            ctx.check([p.times[0], p.times[1]] == list(key1[p.path]),
                      "match/wrong-times", p)
        # labels / non-triviality
        if expected and any(len(ps) < len(exp2) for _, ps in expected):
            ctx.nontrivial = True
        for pop_ in pops:
            by_name = sorted(pop_.files, key=lambda f: f.path)
            if [(f.t0, f.t1) for f in by_name] != sorted(
                    (f.t0, f.t1) for f in by_name):
                ctx.label("dir-order!=time-order")
        if len(expected) < len(exp1):
            ctx.label("primary-without-partner")
        if any(len(ps) >= 2 for _, ps in expected):
            ctx.label("several-partners")
        span2 = (min(g.t0 for g in exp2), max(g.t1 for g in exp2))
        if any(f.t0 <= span2[0] and f.t1 >= span2[1] for f in exp1) \
                and len(exp2) > 1:
            ctx.label("match-one-covers-all")
        span1 = (min(f.t0 for f in exp1), max(f.t1 for f in exp1))
        if any(g.t0 <= span1[0] and g.t1 >= span1[1] for g in exp2) \
                and len(exp1) > 1:
            ctx.label("secondary-covers-all")


def match_cases():
    from vp.gen import filesets as G
    return G.match_case_strategy()


def suites(tier):
    out = [
        Suite("trees", check_tree, strategy=tree_cases(),
              examples={"quick": 750, "thorough": 20000}),
        Suite("small-trees-exhaustive", check_tree, cases=small_tree_cases,
              exhaustive=True),
    ]
    try:
        from vp.gen import filesets as G  # noqa
        out.append(Suite("match", check_match, strategy=match_cases(),
                         examples={"quick": 150, "thorough": 1500}))
    except ImportError:
        pass
    return out
