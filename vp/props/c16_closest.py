"""C16 - fileset[t] / find_closest return the covering or the nearest file.

Oracle: validity predicate from the statement, evaluated over the harness'
own list of created files.
"""
import datetime as dt

from hypothesis import strategies as st

from vp.gen import filesets as G
from vp.props.c01_find import filters_for, white_ok
from vp.runner import Suite

PROP_ID = "C16"
LEVEL = "exploration"
QUICK_SHARDS = 4
RULE = (
    "Hypothesis draws a template (with/without temporal sub-directories, end "
    "fields, user placeholders), a population with gaps, overlaps, discrete "
    "files and ties, optional filters and exclude lists, and timestamps at "
    "the template's resolution: inside a file, in a gap, on a boundary, "
    "before the first / after the last file, more than one directory period "
    "away from any file, exactly on an existing name.  Oracle = validity "
    "predicate over the harness' file list: admissible candidates are the "
    "files passing filters/exclusion that overlap [t-P, t+P) (P = finest "
    "directory period, all time if none); a covering candidate must be "
    "answered by a covering file, otherwise the answer's min(|t0-t|,|t1-t|) "
    "equals the minimum over the candidates; no candidate -> NoFilesError / "
    "None.  Non-trivial = at least two candidates and none covers t.  "
    "Distinct = distinct case hash."
)
ASSUMPTIONS = [
    "files exactly on the edge of the neighbourhood window may be counted "
    "either way",
    "layout rule of C01 (files in the directory of their start, not longer "
    "than one directory period)",
]


def admissible(f, excl_paths, excl_periods, filters):
    if f.path in excl_paths:
        return False
    if any(f.t0 <= p1 and f.t1 >= p0 for p0, p1 in excl_periods):
        return False
    for key, allowed in (filters or {}).items():
        if key.startswith("!"):
            if key[1:] in f.attrs and white_ok(f.attrs[key[1:]], allowed):
                return False
        elif not white_ok(f.attrs[key], allowed):
            return False
    return True


def dist(f, t):
    return min(abs(f.t0 - t), abs(f.t1 - t))


def read_name(info):
    with open(info.path, "rb") as fh:
        return ("content-of", fh.read().decode())


def check_closest(case, ctx):
    from typhon.files import FileHandler, FileSet
    from typhon.files.fileset import NoFilesError
    tpl = case["template"]
    P = G.typhon_dir_period(tpl)
    temporal_dirs = G.dir_period(tpl) is not None
    ctx.label("dirs-%d" % len(tpl["dirs"]), "end-" + G.end_style(tpl))
    with G.Sandbox() as box:
        root = box.mkdir("tree")
        pop = G.make_population(root, tpl, case["files"], case["distractors"],
                                content=lambda f: f.rel.encode())
        excl_paths = set()
        for i in case["exclude_files"]:
            if pop.files:
                excl_paths.add(pop.files[i % len(pop.files)].path)
        excl_periods = [tuple(p) for p in case["exclude_periods"]]
        cov = tpl["coverage_s"]
        final_cov = None if cov is None else dt.timedelta(seconds=cov)
        late = case.get("coverage_late")
        fileset = FileSet(
            pop.path, name="c16",
            time_coverage=final_cov if late is None else (
                None if late == 0 else dt.timedelta(seconds=late)),
            exclude=(sorted(excl_paths) + excl_periods) or None,
            placeholder=G.user_placeholder_arg(tpl),
            handler=FileHandler(reader=read_name))
        if late is not None:
            # history: the fileset is used (its info cache is filled) with
            # another time_coverage before the final one is assigned
            ctx.label("coverage-assigned-late")
            list(fileset.find(no_files_error=False))
            fileset.time_coverage = final_cov
        truth = pop.by_path()
        shared_filters = {}
        for q in case["queries"]:
            t, filters = q["t"], q["filters"]
            if q.get("reexclude") is not None:
                # history: the exclusion lists of the one object are replaced
                # (or withdrawn) between two queries
                ctx.label("exclusion-replaced")
                rx = q["reexclude"]
                excl_paths = set()
                for i in rx["files"]:
                    if pop.files:
                        excl_paths.add(pop.files[i % len(pop.files)].path)
                excl_periods = [tuple(p) for p in rx["periods"]]
                fileset.exclude_files(sorted(excl_paths))
                if not excl_periods:
                    ctx.label("excluded-periods-withdrawn")
                fileset.exclude_times(
                    excl_periods if excl_periods or rx["empty_as_list"]
                    else None)
            filters_arg = None
            if filters is not None:
                key = repr(sorted(filters.items()))
                if key in shared_filters:
                    ctx.label("filters-dict-reused")
                filters_arg = shared_filters.setdefault(key, dict(filters))
                ctx.check(filters_arg == filters,
                          "closest/callers-filters-dict-modified", lambda: (
                              "filters given as %r are now %r" % (
                                  filters, filters_arg)))
            adm = [f for f in pop.files
                   if admissible(f, excl_paths, excl_periods, filters)]
            if P is None:
                strict = loose = adm
            elif not temporal_dirs:
                # no temporal sub-directory: the neighbourhood is not defined
                # by the statement (typhon uses a year); files within a year
                # must be found, farther ones may be
                strict = [f for f in adm if f.t0 < t + P and f.t1 > t - P]
                loose = adm
            else:
                strict = [f for f in adm if f.t0 < t + P and f.t1 > t - P]
                loose = [f for f in adm if f.t0 <= t + P and f.t1 >= t - P]
            covering = [f for f in strict if f.t0 <= t <= f.t1]
            where = lambda: (
                "t=%s filters=%r template=%r coverage=%r exclude=%r/%r "
                "P=%s\nfiles=%r" % (t, filters, pop.path, cov,
                                    sorted(excl_paths), excl_periods, P,
                                    pop.files))
            try:
                if q["via"] == "getitem":
                    key = t if filters is None else (t, filters_arg)
                    got = fileset[key]
                    ans = None if got is None else \
                        pop.prefix.rstrip("/") + "/" + got[1]
                    ctx.check(got is None or got[0] == "content-of",
                              "getitem/not-read-through-handler", where)
                else:
                    got = fileset.find_closest(t, filters=filters_arg)
                    ans = None if got is None else (
                        got if isinstance(got, str) else got.path)
            except NoFilesError:
                ans = None
            # labels
            if covering:
                ctx.label("covered")
            elif strict:
                ctx.label("gap")
                ds = sorted(dist(f, t) for f in strict)
                if len(ds) > 1 and ds[0] == ds[1]:
                    ctx.label("tie")
            if any(f.t0 == t or f.t1 == t for f in strict):
                ctx.label("boundary")
            if not loose and adm:
                ctx.label("outside-window")
            if filters:
                ctx.label("filtered")
            exact = [f for f in pop.files if f.s == t and f.e == t]
            if exact:
                ctx.label("exact-name")
                if any(not admissible(f, excl_paths, excl_periods, filters)
                       for f in exact):
                    ctx.label("excluded-exact")
            if len(strict) >= 2 and not covering:
                ctx.nontrivial = True
            # oracle
            if ans is None:
                ctx.check(not strict, "closest/nothing-returned", lambda: (
                    "candidates %r; %s" % (strict, where())))
                continue
            ctx.check(ans in truth, "closest/unknown-file", lambda: (
                "got %r; %s" % (ans, where())))
            if ans not in truth:
                continue
            f = truth[ans]
            ctx.check(admissible(f, excl_paths, excl_periods, filters),
                      "closest/inadmissible-file", lambda: (
                          "got %r which is excluded or rejected by the "
                          "filters; %s" % (f, where())))
            ctx.check(f in loose, "closest/far-away-file", lambda: (
                "got %r outside the neighbourhood; %s" % (f, where())))
            if covering:
                ctx.check(f.t0 <= t <= f.t1, "closest/not-the-covering-file",
                          lambda: "got %r although %r cover t; %s" % (
                              f, covering, where()))
            elif strict:
                best = min(dist(g, t) for g in strict)
                ctx.check(dist(f, t) <= best, "closest/not-the-nearest",
                          lambda: "got %r (distance %s) but the minimum is "
                          "%s; %s" % (f, dist(f, t), best, where()))
            if not isinstance(got, (str, tuple)) and q["via"] != "getitem":
                ctx.check(list(got.times) == [f.t0, f.t1],
                          "closest/wrong-times", where)


def check_closest_handler(case, ctx):
    """find_closest on a fileset whose coverage comes from the file handler
    (info_via 'both' / 'handler'): a sequence of queries on ONE object, some
    of them exactly on a file name (the short cut), must each obey the
    validity predicate with the handler's coverage."""
    from typhon.files import FileHandler, FileInfo, FileSet
    from typhon.files.fileset import NoFilesError
    tpl = case["template"]
    via = case["info_via"]
    P = G.typhon_dir_period(tpl)
    ctx.label("handler-coverage", "via-" + via)
    with G.Sandbox() as box:
        root = box.mkdir("tree")
        pop = G.make_population(root, tpl, case["files"])
        if not pop.files:
            return
        truth = {}
        for i, f in enumerate(pop.files):
            add = case["end_extra_s"][i % len(case["end_extra_s"])]
            t1 = f.t1 if add is None else f.t1 + dt.timedelta(seconds=add)
            truth[f.path] = (f.t0, t1, add is not None)

        def info(file_info):
            t0, t1, overridden = truth[file_info.path]
            if via == "handler":
                return FileInfo(file_info.path, [t0, t1], {})
            return FileInfo(file_info.path,
                            [None, t1 if overridden else None], {})

        cov = tpl["coverage_s"]
        fileset = FileSet(
            pop.path, name="c16h", handler=FileHandler(info=info),
            info_via=via, placeholder=G.user_placeholder_arg(tpl),
            time_coverage=None if cov is None else dt.timedelta(seconds=cov))
        for k, t in enumerate(case["ts"]):
            files = [(p, v[0], v[1]) for p, v in truth.items()]
            if P is None:
                strict = loose = files
            else:
                strict = [f for f in files if f[1] < t + P and f[2] > t - P]
                loose = [f for f in files if f[1] <= t + P and f[2] >= t - P]
            covering = [f for f in strict if f[1] <= t <= f[2]]
            where = lambda: "query %d of %r: t=%s via=%s template=%r\n" \
                "truth=%r" % (k, case["ts"], t, via, pop.path, truth)
            try:
                got = fileset.find_closest(t)
            except NoFilesError:
                got = None
            if any(f.s == t and f.e == t for f in pop.files) and k:
                ctx.label("exact-name-after-other-queries")
            if got is None:
                ctx.check(not strict, "closest/nothing-returned", where)
                continue
            path = got if isinstance(got, str) else got.path
            ctx.check(path in truth, "closest/unknown-file", where)
            if path not in truth:
                continue
            t0, t1, _ = truth[path]
            ctx.check((path, t0, t1) in loose, "closest/far-away-file", where)
            if covering:
                ctx.label("covered")
                ctx.check(t0 <= t <= t1, "closest/not-the-covering-file",
                          lambda: "got %r (%s .. %s) although %r cover t; %s"
                          % (path, t0, t1, covering, where()))
            elif strict:
                best = min(min(abs(f[1] - t), abs(f[2] - t)) for f in strict)
                ctx.check(min(abs(t0 - t), abs(t1 - t)) <= best,
                          "closest/not-the-nearest", where)
                ctx.nontrivial = ctx.nontrivial or len(strict) >= 2
            if not isinstance(got, str):
                ctx.check(list(got.times) == [t0, t1], "closest/wrong-times",
                          lambda: "got %r; %s" % (got.times, where()))
        if any(v[2] for v in truth.values()):
            ctx.label("handler-overrides-end")
            ctx.nontrivial = True


def check_single(case, ctx):
    import os
    from typhon.files import FileSet
    ctx.label("single-file")
    with G.Sandbox() as box:
        path = os.path.join(box.root, "single.dat")
        with open(path, "wb"):
            pass
        cov = case["coverage"]
        fileset = FileSet(path, name="single",
                          time_coverage=None if cov is None else tuple(cov))
        for t in case["ts"]:
            got = fileset.find_closest(t)
            ans = got if isinstance(got, str) or got is None else got.path
            ctx.check(ans == path, "single/wrong-answer", repr((t, got)))
        ctx.nontrivial = len(case["ts"]) > 1


@st.composite
def closest_cases(draw):
    tpl = draw(G.templates(allow_wild=draw(st.integers(0, 4)) == 0))
    last = tpl["file"][-1]
    if last[0] == "lit" and last[1].endswith(".gz"):
        last[1] = last[1][:-3]      # fileset[t] reads the file: keep it plain
    files = draw(G.populations(tpl, min_files=0, max_files=14))
    planned = G.plan_population(tpl, files, "")
    distract = G.distractors_for(tpl, files, draw)
    res = G.resolution_of(tpl)
    unit = G.RES_DELTA[res]
    P = G.typhon_dir_period(tpl)
    bounds = sorted({f.t0 for f in planned} | {f.t1 for f in planned})
    queries = []
    for _ in range(draw(st.integers(2, 6))):
        if bounds and draw(st.integers(0, 6)) > 0:
            b = draw(st.sampled_from(bounds))
            offs = [dt.timedelta(0), unit, -unit, 2 * unit, -2 * unit,
                    dt.timedelta(hours=1), -dt.timedelta(hours=1),
                    dt.timedelta(days=1), -dt.timedelta(days=1)]
            if P is not None:
                offs += [P, -P, P + unit, -(P + unit), P - unit, -(P - unit),
                         3 * P, -3 * P]
            if len(bounds) > 1:
                b2 = draw(st.sampled_from(bounds))
                offs.append((b2 - b) / 2)          # middle of a gap / file
            t = G.truncate(b + draw(st.sampled_from(offs)), res)
        else:
            t = draw(G.instants(res))
        if not G.year_ok(tpl, t.year):
            t = t.replace(year=2018, day=min(t.day, 28))
        rx = None
        if queries and draw(st.integers(0, 5)) == 0:
            periods = []
            if bounds and draw(st.booleans()):
                a = draw(st.sampled_from(bounds))
                periods.append([a, a + draw(st.sampled_from(
                    [dt.timedelta(0), unit, dt.timedelta(hours=3)]))])
            rx = {"files": draw(st.lists(st.integers(0, 30), max_size=2)),
                  "periods": periods, "empty_as_list": draw(st.booleans())}
        queries.append({"t": t, "reexclude": rx,
                        "filters": (queries[0]["filters"]
                                    if queries
                                    and queries[0]["filters"] is not None
                                    and draw(st.booleans())
                                    else draw(filters_for(tpl))),
                        "via": draw(st.sampled_from(["find_closest",
                                                     "find_closest",
                                                     "getitem"]))})
    excl_files = draw(st.lists(st.integers(0, 30), max_size=2)) \
        if draw(st.integers(0, 2)) == 0 else []
    excl_periods = []
    if bounds and draw(st.integers(0, 3)) == 0:
        a = draw(st.sampled_from(bounds))
        excl_periods.append([a, a + draw(st.sampled_from(
            [dt.timedelta(0), unit, dt.timedelta(hours=3)]))])
    late = draw(st.sampled_from([None, None, None, 0, 1, 7200]))
    return {"template": tpl, "files": files, "distractors": distract,
            "exclude_files": excl_files, "exclude_periods": excl_periods,
            "queries": queries, "coverage_late": late}


@st.composite
def closest_handler_cases(draw):
    tpl = draw(G.templates(max_dirs=3, allow_wild=False, allow_ms=False,
                           allow_user=False))
    last = tpl["file"][-1]
    if last[0] == "lit" and last[1].endswith(".gz"):
        last[1] = last[1][:-3]
    files = draw(G.populations(tpl, min_files=1, max_files=8))
    planned = G.plan_population(tpl, files, "")
    res = G.resolution_of(tpl)
    unit = G.RES_DELTA[res]
    limit = G.dir_period(tpl)
    extras = []
    for f in planned:
        room = None if limit is None else \
            int((limit - (f.t1 - f.t0)).total_seconds())
        choices = [c for c in (None, 60, 50 * 60, 3600, 7200)
                   if c is None or room is None or c <= room]
        extras.append(draw(st.sampled_from(choices)))
    starts = [f.t0 for f in planned]
    ts = []
    for _ in range(draw(st.integers(2, 5))):
        base = draw(st.sampled_from(starts))
        offs = [dt.timedelta(0), dt.timedelta(0), unit, 5 * unit,
                dt.timedelta(minutes=50), dt.timedelta(minutes=10),
                -unit, dt.timedelta(hours=1, minutes=30)]
        Pt = G.typhon_dir_period(tpl)
        if Pt is not None:
            # a file that starts between t - 2P and t - P and reaches (through
            # the handler's end) into the neighbourhood of t
            offs += [Pt + dt.timedelta(minutes=20), Pt + 2 * unit,
                     Pt + Pt / 4, Pt + Pt / 2]
        off = draw(st.sampled_from(offs))
        t = G.truncate(base + off, res)
        if not G.year_ok(tpl, t.year):
            t = base
        ts.append(t)
    return {"template": tpl, "files": files, "end_extra_s": extras or [None],
            "info_via": draw(st.sampled_from(["both", "both", "handler"])),
            "ts": ts}


@st.composite
def single_cases(draw):
    t0 = draw(G.instants("second"))
    cov = draw(st.one_of(st.none(), st.just(
        [t0, t0 + dt.timedelta(days=draw(st.integers(0, 30)))])))
    ts = draw(st.lists(G.instants("second"), min_size=1, max_size=4))
    return {"coverage": cov, "ts": ts}


def suites(tier):
    return [
        Suite("closest", check_closest, strategy=closest_cases(),
              examples={"quick": 200, "thorough": 3000}),
        Suite("single-file", check_single, strategy=single_cases(),
              examples={"quick": 20, "thorough": 200}),
        Suite("closest-handler", check_closest_handler,
              strategy=closest_handler_cases(),
              examples={"quick": 100, "thorough": 1500}),
    ]
