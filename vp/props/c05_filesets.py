"""C05 - collocating filesets equals collocating all their data, for any
process count, bundle mode, output kind and split into files.

Oracle: the long-double brute force of C04 over the *complete* data of both
filesets restricted to the period; the multiset of (idA, idB) summed over
everything yielded / written must equal it.
"""
import contextlib
import datetime as dt
import io
import os
import pickle

import numpy as np
from hypothesis import strategies as st

from vp.gen import filesets as G
from vp.gen import points as P
from vp.props import c04_collocate as C4
from vp.runner import Suite

PROP_ID = "C05"
LEVEL = "exploration"
QUICK_SHARDS = 4
GUARD_S = {"quick": 1500, "thorough": 5 * 3600}
RULE = (
    "Hypothesis draws two tracks of points (cluster generator of C04 along a "
    "time line: members at {0, 1/2, 1-1e-3, 1+1e-3, 3} x max_distance, times "
    "at {0, M-1, M, M+1, 3M} s around the cluster times, NaN positions, "
    "duplicates; ids unique), sorts each track by time and cuts it into 1-8 "
    "files at generated cut points (different for the two filesets, one file "
    "may cover several or all files of the other, gaps) whose name-derived "
    "coverage is [floor_s(first), ceil_s(last)]; files are stored with a "
    "pickle FileHandler.  Each data set is collocated under 3-5 generated "
    "configurations: processes 1-4, bundle None/'primary'/'daily', output "
    "in memory or to a Collocations fileset (read back with "
    "read_mode='compact'), a second split of the same data, a period cutting "
    "through files or none, one unreadable file with skip_file_errors.  "
    "Oracle = brute force (long double chord, |dt| < max_interval, window) "
    "over the concatenated data; multiset equality for every configuration.  "
    "Non-trivial = at least 2 file matches contribute pairs and some primary "
    "file has >= 2 partner files.  Distinct = distinct case hash."
)
ASSUMPTIONS = [
    "primary points have pairwise different times (duplicates are moved by "
    "whole milliseconds), so that output names - the time span of the "
    "primaries held - can only collide for two results of one primary file "
    "(known finding)",
    "every point is stored in exactly one file whose name coverage contains "
    "its time (harness construction)",
    "worker processes are forked by typhon; the interleaving of their result "
    "queue is produced by the OS (sampled, not owned)",
    "max_interval is a whole number of seconds; pairs within the ambiguity "
    "band of max_distance may be reported or not",
]

TEMPLATE = {
    "dirs": [],
    "file": [["lit", "t_"], ["ph", "year"], ["ph", "month"], ["ph", "day"],
             ["ph", "hour"], ["ph", "minute"], ["ph", "second"], ["lit", "-"],
             ["ph", "end_year"], ["ph", "end_month"], ["ph", "end_day"],
             ["ph", "end_hour"], ["ph", "end_minute"], ["ph", "end_second"],
             ["lit", ".pkl"]],
    "user": {}, "coverage_s": None,
}
OUT_TEMPLATE = ("{year}{month}{day}T{hour}{minute}{second}{millisecond}-"
                "{end_year}{end_month}{end_day}T{end_hour}{end_minute}"
                "{end_second}{end_millisecond}.nc")
BASE = C4.BASE


class ReadFailure(Exception):
    pass


class PickleReader:
    """FileHandler reader: a pickled point set -> xarray.Dataset"""

    def __init__(self, broken=(), delays=None):
        self.broken = set(broken)
        self.delays = delays or {}

    def __call__(self, file_info, **kwargs):
        delay = self.delays.get(os.path.basename(file_info.path), 0)
        if delay:
            # generated read delay: earlier files may finish after later ones
            import time
            time.sleep(delay)
        if os.path.basename(file_info.path) in self.broken:
            raise ReadFailure("cannot read %s" % file_info.path)
        with open(file_info.path, "rb") as fh:
            pset = pickle.load(fh)
        layout = {"dim": "n", "labels": pset["labels"]}
        return C4.make_dataset(pset, layout)


class PatientPoll:
    """Schedule owned by the harness: every `is_alive()` poll of the parent
    first gives the worker up to `wait` seconds to finish.  This is a legal
    timing (the worker happens to finish - and to put its last results -
    exactly between two steps of the parent's loop) that the OS scheduler
    produces only rarely."""

    def __init__(self, wait):
        self.wait = wait

    def __enter__(self):
        import multiprocessing
        import typhon.collocations.collocator as cc
        self.cc, self.saved = cc, cc.Process
        wait = self.wait

        class PatientProcess(multiprocessing.Process):
            def is_alive(self):
                self.join(wait)
                return super().is_alive()
        cc.Process = PatientProcess
        return self

    def __exit__(self, *exc):
        self.cc.Process = self.saved
        return False


class LogCapture:
    """collects the error messages typhon's collocator logs in the parent
    process (the runner disables logging globally)"""

    def __init__(self):
        import logging
        self.records = []
        outer = self

        class Handler(logging.Handler):
            def emit(self, record):
                outer.records.append(record.getMessage())
        self.handler = Handler(level=logging.ERROR)

    def __enter__(self):
        import logging
        self.logger = logging.getLogger("typhon.collocations.collocator")
        self.prev_disable = logging.root.manager.disable
        logging.disable(logging.WARNING)
        self.prev_propagate = self.logger.propagate
        self.logger.propagate = False
        self.logger.addHandler(self.handler)
        return self

    def __exit__(self, *exc):
        import logging
        self.logger.removeHandler(self.handler)
        self.logger.propagate = self.prev_propagate
        logging.disable(self.prev_disable)
        return False

    def text(self):
        return "\n".join(m for m in self.records
                         if "hours elapsed" not in m)


def floor_s(ms):
    return BASE + dt.timedelta(seconds=ms // 1000)


def ceil_s(ms):
    return BASE + dt.timedelta(seconds=-((-ms) // 1000))


TEMPLATE_START_ONLY = {
    "dirs": [],
    "file": [["lit", "t_"], ["ph", "year"], ["ph", "month"], ["ph", "day"],
             ["ph", "hour"], ["ph", "minute"], ["ph", "second"],
             ["lit", ".pkl"]],
    "user": {}, "coverage_s": None,
}


DAILY_DIR = [["ph", "year"], ["lit", "-"], ["ph", "month"], ["lit", "-"],
             ["ph", "day"]]


def split_track(pset, cuts, start_only=False):
    """sort by time and cut; returns list of point sets (plain dicts)"""
    n = len(pset["id"])
    order = sorted(range(n), key=lambda i: (pset["t_ms"][i], pset["id"][i]))
    bounds = sorted({c % n for c in cuts if c % n})
    pieces, lo = [], 0
    for b in bounds + [n]:
        idx = order[lo:b]
        lo = b
        if idx:
            pieces.append({k: [pset[k][i] for i in idx]
                           for k in ("lat", "lon", "t_ms", "id")})
    # files of one fileset need distinct names: merge pieces with one name
    merged = []
    for piece in pieces:
        name = (floor_s(piece["t_ms"][0]),
                None if start_only else ceil_s(piece["t_ms"][-1]))
        if merged and merged[-1][0] == name:
            for k in piece:
                merged[-1][1][k] += piece[k]
        else:
            merged.append((name, piece))
    return [p for _, p in merged]


def write_fileset(root, pieces, name, broken_index=None, start_only=False,
                  daily_dirs=False, delays_ms=()):
    from typhon.files import FileHandler, FileSet
    os.makedirs(root, exist_ok=True)
    specs, names = [], []
    template = TEMPLATE_START_ONLY if start_only else TEMPLATE
    if daily_dirs:
        template = dict(template, dirs=[DAILY_DIR])
    coverage = max(
        (ceil_s(p["t_ms"][-1]) - floor_s(p["t_ms"][0])).total_seconds()
        for p in pieces) if start_only else None
    for k, piece in enumerate(pieces):
        s, e = floor_s(piece["t_ms"][0]), ceil_s(piece["t_ms"][-1])
        if start_only:
            e = s + dt.timedelta(seconds=coverage)
        rel = G.format_path(template, s, e, {}, "")
        os.makedirs(os.path.dirname(os.path.join(root, rel)), exist_ok=True)
        piece = dict(piece)
        # unique labels in arbitrary (here: reversed) order
        piece["labels"] = list(range(len(piece["id"]) * 3, 0, -3))
        with open(os.path.join(root, rel), "wb") as fh:
            pickle.dump(piece, fh)
        names.append(os.path.basename(rel))
        specs.append((s, e))
    broken = []
    if broken_index is not None and names:
        broken = [names[broken_index % len(names)]]
    delays = {names[k]: delays_ms[k % len(delays_ms)] / 1000.0
              for k in range(len(names))
              if delays_ms and delays_ms[k % len(delays_ms)]}
    fs = FileSet(G.template_str(template, root), name=name,
                 handler=FileHandler(reader=PickleReader(broken, delays)))
    if start_only:
        # history: the fileset is searched (its info cache is filled) before
        # the files' duration is made known through time_coverage
        list(fs.find(no_files_error=False))
        fs.time_coverage = dt.timedelta(seconds=coverage)
    return fs, specs, broken


def ids_of(dataset, names):
    pairs = np.asarray(dataset["Collocations/pairs"].values).astype("int64")
    ids1 = np.asarray(dataset[names[0] + "/id"].values).astype("int64")
    ids2 = np.asarray(dataset[names[1] + "/id"].values).astype("int64")
    return [(int(ids1[a]), int(ids2[b])) for a, b in zip(pairs[0], pairs[1])]


def verify_points(ctx, dataset, names, sets, index, what, where):
    """every stored point carries the original time, position and payload of
    the point with its id (also after a round trip through a file)"""
    for g, name in enumerate(names):
        ids = np.asarray(dataset[name + "/id"].values).astype("int64")
        t = np.asarray(dataset[name + "/time"].values).astype(
            "datetime64[ms]").astype("int64")
        lat = np.asarray(dataset[name + "/lat"].values, dtype=float)
        lon = np.asarray(dataset[name + "/lon"].values, dtype=float)
        pay = np.asarray(dataset[name + "/payload"].values, dtype=float)
        base_ms = np.datetime64(BASE, "ms").astype("int64")
        for k, pid in enumerate(ids):
            i = index[g].get(int(pid))
            ctx.check(i is not None, what + "/unknown-point-id", lambda: (
                "%s/id holds %r; %s" % (name, pid, where())))
            if i is None:
                return
            p = sets[g]
            ok = (int(t[k] - base_ms) == p["t_ms"][i]
                  and lat[k] == p["lat"][i] and lon[k] == p["lon"][i]
                  and pay[k].tolist() == [p["id"][i] * 1.5, -p["id"][i]])
            ctx.check(ok, what + "/point-data-changed", lambda: (
                "%s point id %d: time %r lat %r lon %r payload %r, original "
                "t_ms %r lat %r lon %r; %s" % (
                    name, pid, int(t[k] - base_ms), lat[k], lon[k],
                    pay[k].tolist(), p["t_ms"][i], p["lat"][i], p["lon"][i],
                    where())))
            if not ok:
                return


def check_filesets(case, ctx):
    from typhon.collocations import Collocations, Collocator
    from typhon.files.fileset import NoFilesError
    sets = case["cloud"]["sets"]
    r_km = float(P.radius_km_exact(case["max_distance"]))
    m_s = case["max_interval_s"]
    period = case["period"]
    names = ["A", "B"]
    if period is None:
        start = end = None
        start_ms = end_ms = None
    else:
        start_ms, end_ms = period["start_ms"], period["end_ms"]
        start = BASE + dt.timedelta(milliseconds=start_ms)
        end = BASE + dt.timedelta(milliseconds=end_ms)
        ctx.label("period")
    full = C4.expected_pairs(sets[0], sets[1], r_km, m_s, start_ms, end_ms)
    if m_s >= 86400:
        ctx.label("max_interval>=1day")
    where0 = lambda: "max_distance=%r max_interval=%rs period=%r" % (
        case["max_distance"], m_s, period)

    index = [{int(v): k for k, v in enumerate(sets[g]["id"])}
             for g in range(2)]
    with G.Sandbox() as box:
        splits = {}
        start_only = case.get("start_only") or [False, False]
        for k, cuts in enumerate(case["splits"]):
            splits[k] = [split_track(sets[0], cuts[0], start_only[0]),
                         split_track(sets[1], cuts[1], start_only[1])]
        if any(start_only):
            ctx.label("start-only-names+late-time_coverage")
        if case.get("daily_dirs"):
            ctx.label("daily-sub-directories")
        days = {floor_s(t).date() for g in sets for t in g["t_ms"]}
        if len(days) > 1:
            ctx.label("data-crosses-midnight")
        reference_files = None
        for ci, cfg in enumerate(case["configs"]):
            pieces = splits[cfg["split"] % len(splits)]
            root = box.mkdir("cfg%d" % ci)
            broken = cfg["broken"]
            filesets, coverages, broken_names = [], [], []
            for f in range(2):
                fs, cov, bad = write_fileset(
                    os.path.join(root, names[f]), pieces[f], names[f],
                    broken[1] if broken and broken[0] == f else None,
                    start_only[f], bool(case.get("daily_dirs")),
                    (cfg.get("delays_ms") or [[], []])[f])
                filesets.append(fs)
                coverages.append(cov)
                broken_names.append(bad)
            # expected for this configuration
            exp_must, exp_may = set(full.must), set(full.may)
            lost_ids = set()
            if broken:
                f = broken[0]
                k = broken[1] % len(pieces[f])
                lost_ids = set(pieces[f][k]["id"])
                exp_must = {p for p in exp_must if p[f] not in lost_ids}
                ctx.label("broken-file")
            # labels on the file structure
            n_matches, max_partners = 0, 0
            widen = dt.timedelta(seconds=m_s)
            for (s0, e0) in coverages[0]:
                partners = [1 for (s1, e1) in coverages[1]
                            if s1 - widen <= e0 and e1 + widen >= s0]
                n_matches += len(partners)
                max_partners = max(max_partners, len(partners))
            if any(all(s1 >= s0 and e1 <= e0 for (s1, e1) in coverages[1])
                   for (s0, e0) in coverages[0]) and len(coverages[1]) > 1:
                ctx.label("one-covers-all")
            if period is not None and any(
                    s < start < e or s < end < e
                    for cov in coverages for (s, e) in cov):
                ctx.label("period-cuts-file")
            kwargs = {"max_interval": m_s,
                      "max_distance": P.radius_argument(case["max_distance"]),
                      "processes": cfg["processes"], "bundle": cfg["bundle"],
                      "skip_file_errors": bool(broken)}
            if period is not None:
                kwargs["start"], kwargs["end"] = start, end
            where = lambda: "%s config=%r\nfiles A=%r\nfiles B=%r" % (
                where0(), cfg, coverages[0], coverages[1])
            collocator = Collocator()
            got, yielded = [], []
            out_fs = None
            crashed = 0
            capture = LogCapture()
            try:
                schedule = contextlib.nullcontext()
                if cfg.get("schedule") == "patient-poll":
                    schedule = PatientPoll(0.4)
                    ctx.label("schedule-worker-finishes-before-poll")
                with P.PinnedShuffle(case["shuffle"]), capture, schedule, \
                        contextlib.redirect_stdout(io.StringIO()), \
                        contextlib.redirect_stderr(io.StringIO()):
                    if cfg["output"] == "memory":
                        for item in collocator.collocate_filesets(
                                filesets, **kwargs):
                            if isinstance(item, type):
                                crashed += 1      # ProcessCrashed marker
                                continue
                            data = item[0]
                            yielded.append(data)
                            got += ids_of(data, names)
                            verify_points(ctx, data, names, sets, index,
                                          "memory", where)
                    else:
                        ctx.label("to-disk")
                        out_dir = os.path.join(root, "out")
                        os.makedirs(out_dir)
                        out_fs = Collocations(
                            path=out_dir + "/" + OUT_TEMPLATE, name="out",
                            read_mode="compact")
                        written = list(collocator.collocate_filesets(
                            filesets, output=out_fs, **kwargs))
                        crashed = sum(1 for w in written
                                      if isinstance(w, type))
                        written = [w for w in written
                                   if not isinstance(w, type)]
            except NoFilesError:
                # find() reports a period without any file of one fileset by
                # its documented NoFilesError; then nothing can collocate
                ctx.label("no-files-in-period")
                in_period = [[(s, e) for (s, e) in cov
                              if period is None or (
                                  s < end + widen and e >= start - widen)]
                             for cov in coverages]
                ctx.check(not in_period[0] or not in_period[1],
                          "period/NoFilesError-although-files-exist", where)
                ctx.check(not exp_must, "pairs/wrong-multiset", lambda: (
                    "NoFilesError although %d pairs exist; %s" % (
                        len(exp_must), where())))
                continue
            if crashed:
                ctx.fail("worker-process-crashed", "%d worker process(es) "
                         "terminated with an error:\n%s\n%s" % (
                             crashed, capture.text()[-2500:], where()))
                continue
            if out_fs is not None:
                collisions = len(written) - len(set(written))
                on_disk = sorted(os.listdir(os.path.join(root, "out")))
                ctx.check(sorted(os.path.basename(w) for w in set(written))
                          == on_disk, "disk/files-differ-from-reported",
                          lambda: "reported %r, on disk %r; %s" % (
                              written, on_disk, where()))
                if collisions:
                    ctx.label("name-collision")
                    ctx.fail("disk/output-name-collision",
                             "%d results were written to a name that another "
                             "result of the same run already used; %s"
                             % (collisions, where()))
                    continue
                for path in sorted(set(written)):
                    data = out_fs.read(path)
                    pairs_here = ids_of(data, names)
                    got += pairs_here
                    verify_points(ctx, data, names, sets, index, "disk",
                                  where)
                    # the file is named by the time span of its primaries
                    info = out_fs.get_info(path)
                    tvals = np.asarray(data[names[0] + "/time"].values
                                       ).astype("datetime64[ms]")
                    lo = tvals.min().astype(object)
                    hi = tvals.max().astype(object)
                    ctx.check(list(info.times) == [lo, hi],
                              "disk/name-is-not-the-time-span", lambda: (
                                  "file %s holds primaries %s .. %s; %s" % (
                                      os.path.basename(path), lo, hi,
                                      where())))
            # ---- oracle: multiset equality ------------------------------
            gset = set(got)
            ctx.check(len(gset) == len(got), "pairs/reported-twice", lambda: (
                "%d pairs, %d distinct: %r; %s" % (
                    len(got), len(gset),
                    sorted(p for p in gset if got.count(p) > 1)[:5],
                    where())))
            missing = sorted(exp_must - gset)
            extra = sorted(p for p in gset - exp_may)
            extra += sorted(p for p in gset
                            if p[0] in lost_ids or p[1] in lost_ids)
            ctx.check(not missing and not extra, "pairs/wrong-multiset",
                      lambda: "missing %r extra %r (expected %d pairs, got "
                      "%d); %s" % (missing[:8], extra[:8], len(exp_must),
                                   len(gset), where()))
            if reference_files is None and not broken:
                reference_files = gset
            # labels
            if any(any(d) for d in (cfg.get("delays_ms") or [])):
                ctx.label("read-delays")
            ctx.label("procs=%d" % cfg["processes"],
                      "bundle-%s" % cfg["bundle"])
            if cfg["processes"] > 1:
                ctx.label("procs>1")
            if cfg["split"] % len(splits):
                ctx.label("resplit")
            if full.must and n_matches >= 2 and max_partners >= 2:
                contributing = len({(a, b) for a, b in full.must})
                if contributing:
                    ctx.nontrivial = True
        if not full.must:
            ctx.label("no-collocations")


# --------------------------------------------------------------------------
# strategy
# --------------------------------------------------------------------------
@st.composite
def fileset_cases(draw):
    m_s = draw(st.sampled_from([1, 2, 5, 30, 60, 600]))
    if draw(st.integers(0, 3)) == 0:
        # a day or more: whole days and the rest of the seconds both count
        m_s = draw(st.sampled_from([86400, 86401, 90000, 108000, 172800]))
    radius = draw(C4.distance_specs(lo=0.5, hi=500.0))
    r_km = float(P.radius_km_exact(radius))
    long_interval = m_s >= 86400
    cloud = draw(P.clouds(r_km, m_s=m_s, n_sets=2, min_points=2,
                          max_points=24 if long_interval else 60,
                          allow_nan=True))
    n0, n1 = (len(s["id"]) for s in cloud["sets"])
    # Output files are named by the time span of the primaries they hold, so
    # results with identical primary times collide by design (known finding
    # output-name-collision).  Give every primary point its own millisecond:
    # then only the two results of ONE primary file with two partner files can
    # still collide (sequentially, in one worker), and concurrent writers never
    # share a name.
    midnight = None
    if draw(st.integers(0, 2)) == 0:
        # move the data to midnight (BASE is noon): files then start before
        # and reach beyond the change of the day
        every = sorted(t for g in cloud["sets"] for t in g["t_ms"])
        shift = 12 * 3600 * 1000 - every[len(every) // 2] // 1000 * 1000
        for g in cloud["sets"]:
            g["t_ms"] = [t + shift for t in g["t_ms"]]
        midnight = 12 * 3600 * 1000
    used, unique = set(), []
    for t in cloud["sets"][0]["t_ms"]:
        while t in used:
            t += 1          # only duplicates are moved, by whole milliseconds
        used.add(t)
        unique.append(t)
    cloud["sets"][0]["t_ms"] = unique

    def cuts(n):
        if long_interval:
            # many short files: most file pairs then meet only through the
            # widening by max_interval
            return draw(st.lists(st.integers(0, max(n - 1, 0)),
                                 min_size=n // 2, max_size=n))
        return draw(st.lists(st.integers(0, max(n - 1, 0)), min_size=0,
                             max_size=7))
    splits = [[cuts(n0), cuts(n1)]]
    if draw(st.booleans()):
        splits.append([cuts(n0), cuts(n1)])
    if draw(st.integers(0, 3)) == 0:
        splits[0][draw(st.integers(0, 1))] = []     # one file covers all
    times = sorted(t for s in cloud["sets"] for t in s["t_ms"])
    period = None
    if draw(st.integers(0, 2)) > 0:
        # mostly a wide period (start in the first, end in the last third of
        # the data), sometimes an arbitrary one
        k = len(times)
        if draw(st.integers(0, 3)) > 0:
            lo_pool, hi_pool = times[:max(1, k // 3)], times[-max(1, k // 3):]
        else:
            lo_pool = hi_pool = times
        a = draw(st.sampled_from(lo_pool)) + draw(st.sampled_from(
            [0, 0, -500, 500, -60000]))
        b = draw(st.sampled_from(hi_pool)) + draw(st.sampled_from(
            [0, 0, 0, 500, 1000, 60000]))
        if b <= a:
            a, b = min(a, b) - 1000, max(a, b) + 1000
        period = {"start_ms": a, "end_ms": b}
    configs = []
    for _ in range(draw(st.integers(3, 5))):
        broken = None
        if draw(st.integers(0, 2)) == 0:
            broken = [draw(st.sampled_from([0, 0, 1])),
                      draw(st.integers(0, 7))]
        configs.append({
            "schedule": draw(st.sampled_from(["os", "os", "patient-poll"])),
            # per-file read delays (ms), by file index: the first files are
            # the slow ones, so that later reads overtake them
            "delays_ms": draw(st.sampled_from([
                None, None, [[60, 0, 0, 0], []], [[], [60, 0, 0]],
                [[40, 0, 20, 0], [30, 0]]])),
            "processes": draw(st.sampled_from([1, 1, 2, 3, 4])),
            "bundle": draw(st.sampled_from([None, "primary", "daily"])),
            "output": draw(st.sampled_from(["memory", "memory", "disk"])),
            "split": draw(st.integers(0, 1)),
            "broken": broken})
    start_only = [draw(st.integers(0, 3)) == 0, draw(st.integers(0, 3)) == 0]
    daily_dirs = draw(st.booleans())
    if m_s >= 86400:
        # files then last several days: dated sub directories would break the
        # layout rule of C01 (no file longer than its directory's period)
        daily_dirs = False
    elif midnight is not None and draw(st.integers(0, 3)) > 0:
        # focus on the change of the day: dated sub directories, a period that
        # starts shortly after midnight (also after midnight + max_interval)
        daily_dirs = True
        start_only = [draw(st.booleans()), draw(st.booleans())]
        period = {"start_ms": midnight + draw(st.sampled_from(
            [0, 1000, (m_s + 1) * 1000, (2 * m_s + 5) * 1000])),
            "end_ms": times[-1] + 60000 + 2 * 43200000}
    return {"cloud": cloud, "max_distance": radius, "max_interval_s": m_s,
            "splits": splits, "period": period, "configs": configs,
            "start_only": start_only,
            "daily_dirs": daily_dirs,
            "shuffle": draw(P.shuffle_rules())}


def suites(tier):
    return [Suite("filesets", check_filesets, strategy=fileset_cases(),
                  examples={"quick": 22, "thorough": 150})]
