"""C19 - retrieval scores behave as proper error measures.

Oracles: the pinball formula evaluated elementwise in numpy.longdouble; the
exact tau-quantile predicate (#{y < c} <= tau*n <= #{y <= c}, tau taken as the
exact rational value of the float) for the minimiser of mean_quantile_score
over all sample values; closed-form values for uniform percentage offsets.
"""
import itertools
from fractions import Fraction
from math import gcd

import numpy as np
from hypothesis import strategies as st

from vp.gen import c19_samples as G
from vp.runner import Suite

PROP_ID = "C19"
LEVEL = "exploration"
QUICK_SHARDS = 4
RULE = (
    "pinball: samples of 1-2000 values (thorough: 10^4; lattice values with "
    "ties, unit, heavy-tailed sign*a*10^k, arbitrary floats) and, in 1 of 12 "
    "cases of every generated suite, n in {4095, 4096, 4097, 5000, 8191, "
    "8193, 10000} tiled from a drawn pool with a trend (tiled / sorted / "
    "reversed order; for the minimiser ~60 distinct values plus the order "
    "statistics around tau*n are the candidates), estimates = "
    "observation + a drawn offset (0 / positive / negative) per element, "
    "1-5 taus in (0,1) given as scalar / list / (k,) / (1,k) array, y_tau as "
    "(n,k) / (n,) / (n,1), y_test as (n,) / (n,1), float or int dtype; "
    "oracle = long-double pinball formula, >= 0, zero iff equal, column "
    "means.  minimiser: for a sample and a tau all distinct sample values "
    "are scored as constant estimates in one call; the exact tau-quantiles "
    "among them must attain the minimum.  shapes-invalid: every (n,k) x "
    "len(taus) x len(y_test) combination with n<=5, k<=4 whose sizes do not "
    "match must raise ValueError (enumerated).  mape-bias: non-zero 1-D "
    "truth, predictions perfect / uniformly p% high / p% low / arbitrary "
    "relative errors, a permutation and a common scale factor.  "
    "Mixed precision (1 of 6 pinball cases): estimates as float32 / "
    "float16 / int32 / int16 against float64 observations or the reverse, "
    "at magnitudes 1 ... 1e10, the float64 side 0 - 0.45 resolution steps of "
    "the narrow dtype away from a representable value (estimates in "
    "neighbouring representable values).  "
    "Memory layout: y_tau and y_test (and the candidate matrix of the "
    "minimiser) are handed over C-ordered, Fortran-ordered, as transposed "
    "view, as strided slice of a larger array or as reversed view; the "
    "oracle uses the logical values.  "
    "Integer-typed input: pinball cases with int8 / int16 / int32 / int64 "
    "arrays (uint8 truth with float estimates), optionally scaled to the "
    "range of the dtype or mixed with float; mape-bias-int: int8 / int16 / "
    "int32 / int64 truth and predictions (or float predictions, also for "
    "uint8 truth), perfect / general / exactly p percent off (truth 100k, "
    "prediction (100+-p)k), a permutation and an integer scale factor.  "
    "Non-trivial = some tau != 0.5 and a non-constant sample (pinball, "
    "minimiser) / at least 2 values and p > 0 or mixed-sign errors "
    "(mape-bias).  Distinct = distinct case hash."
)
ASSUMPTIONS = [
    "inputs are numpy arrays (the functions call .reshape/.ravel on them)",
    "values are 0 or at least 1e-100 in magnitude and at most 1e12, so that "
    "tau*|d| neither underflows nor overflows",
    "integer-typed input: every value and every difference prediction - "
    "truth / estimate - observation is representable in the integer dtype "
    "(NumPy integer arithmetic wraps silently, so uint8 is only combined "
    "with float partners); |values| <= 1e15 for int64",
    "mape / bias: 1-D truth vector without zeros; predictions 1-D (mape "
    "also (n,1), which it ravels); bias is documented for 1-D input only",
    "an inconsistent shape is one where y_tau.size != y_test.size * "
    "taus.size; layouts whose sizes agree by coincidence are not generated",
    "tolerances: pinball elementwise rtol 1e-15 (3 roundings), column means "
    "rtol 1e-12; mape/bias rtol 1e-12 of the mean absolute term; closed "
    "forms for uniform offsets rtol 1e-10 + 1e-11 percent",
]

LD = np.longdouble
TAU_SPECIAL = [0.5, 0.5, 0.1, 0.25, 0.75, 0.9, 0.05, 0.95, 0.01, 0.99,
               1e-6, 1.0 - 1e-6, 1.0 / 3.0]


def clean(v):
    """keep values in {0} u [1e-100, 1e12] (see ASSUMPTIONS)"""
    v = float(v)
    if abs(v) < 1e-100:
        return 0.0
    if abs(v) > 1e12:
        return 1e12 if v > 0 else -1e12
    return v


INT_MAX = {"int8": 127, "int16": 32767, "int32": 2 ** 31 - 1,
           "int64": 2 ** 63 - 1, "uint8": 255}
NARROW_MAGNITUDES = {"float32": [1.0, 1e4, 1e8, 1e10],
                     "float16": [1.0, 100.0, 3e4],
                     "int32": [1e3, 1e9], "int16": [100.0, 2e4]}
BIG_N = [4095, 4096, 4097, 5000, 8191, 8193, 10000]


@st.composite
def sample_vector(draw, large, kinds=("lattice", "unit", "heavy", "wide"),
                  small=40):
    """-> (kind, values): G.long_vector, and in 1 of 12 cases a sample of
    4095..10^4 values (the property quantifies up to 10^4) tiled from a drawn
    pool with a trend, in tiled / sorted / reversed order"""
    if draw(st.integers(0, 11)) == 0:
        kind = draw(st.sampled_from(kinds))
        pool = draw(G.value_pool(kind, 5, 40))
        n = draw(st.sampled_from(BIG_N))
        vals = G.tile(pool, n, draw(st.integers(1, 97)),
                      draw(st.integers(0, 97)),
                      draw(st.sampled_from([0.0, 0.25, 1.0, -3.5])))
        order = draw(st.sampled_from(["tiled", "sorted", "reversed"]))
        if order != "tiled":
            vals = sorted(vals, reverse=(order == "reversed"))
        return kind, vals
    return draw(G.long_vector(kinds=kinds, small=small, large=large))


def label_size(ctx, n):
    if n >= 100:
        ctx.label("n>=100")
    if n > 4096:
        ctx.label("n>4096")
        if n % 4096:
            ctx.label("n>4096-not-multiple-of-4096")


tau_strategy = st.one_of(
    st.sampled_from(TAU_SPECIAL),
    st.floats(0.001, 0.999, allow_nan=False),
    st.integers(1, 63).map(lambda k: k / 64.0))


# --------------------------------------------------------------------------
# pinball loss, elementwise
# --------------------------------------------------------------------------
@st.composite
def pinball_cases(draw, large=2000):
    kind, y = draw(sample_vector(large))
    y = [clean(v) for v in y]
    n = len(y)
    k = draw(st.sampled_from([1, 1, 2, 3, 5]))
    taus = draw(st.lists(tau_strategy, min_size=k, max_size=k))
    # offsets estimate - observation
    scale = max(1.0, max(abs(v) for v in y)) if kind != "unit" else 1.0
    offs = draw(st.lists(st.one_of(
        st.just(0.0),
        st.sampled_from([0.25, -0.25, 1.0, -1.0, 0.5, -3.0]),
        st.floats(-1.0, 1.0, allow_nan=False).map(lambda u: u * scale),
        st.floats(-1e-3, 1e-3, allow_nan=False)),
        min_size=3, max_size=13))
    P = len(offs)
    a = draw(st.integers(1, 11))
    b = draw(st.integers(0, 11))
    y_tau = [[clean(y[i] + offs[(a * i + b * j + i * j) % P])
              for j in range(k)] for i in range(n)]
    dtype = dtype_test = dtype_tau = "float"
    if draw(st.integers(0, 5)) == 0:
        # mixed precision: one side in a narrower dtype, the other float64
        # and closer to it than the resolution of the narrow dtype there
        dtype = "mixed-precision"
        narrow = draw(st.sampled_from(["float32", "float32", "float32",
                                       "float16", "int32", "int16"]))
        mag = draw(st.sampled_from(NARROW_MAGNITUDES[narrow]))
        side = draw(st.sampled_from(["tau-narrow", "test-narrow"]))
        fr = draw(st.lists(st.sampled_from(
            [0.0, 0.1, -0.1, 0.25, -0.25, 0.4, -0.4, 0.45, -0.45]),
            min_size=3, max_size=9))
        ya = np.array(y, dtype=float)
        u = np.abs(ya) % 1.0
        sgn = np.where((ya < 0) & (not narrow.startswith("int")), -1.0, 1.0)
        base = (sgn * mag * (0.5 + u)).astype(narrow)
        res = (np.ones(n) if narrow.startswith("int")
               else np.spacing(np.abs(base)).astype(float))
        base = base.astype(float)
        ii = np.arange(n)
        if side == "tau-narrow":
            # estimates: neighbouring representable values
            f1 = np.array(fr)[(a * ii + b) % len(fr)]
            y = (base + res * f1).tolist()
            y_tau = np.stack([(base + j * res).astype(narrow).astype(float)
                              for j in range(k)], axis=1).tolist()
        else:
            y = base.tolist()
            y_tau = np.stack([base + res * np.array(fr)[
                (a * ii + b * j + ii * j) % len(fr)] for j in range(k)],
                axis=1).tolist()
        dtype_tau = narrow if side == "tau-narrow" else "float"
        dtype_test = narrow if side == "test-narrow" else "float"
    elif kind == "lattice" and draw(st.integers(0, 2)) == 0:
        dtype = "int"
        y = [float(round(v)) for v in y]
        y_tau = [[float(round(v)) for v in row] for row in y_tau]
        vmax = max(1.0, max(abs(v) for v in y),
                   max(abs(v) for row in y_tau for v in row))
        # integer dtypes in which every value and every difference fits
        fits = [t for t in ("int8", "int16", "int32", "int64")
                if 2 * vmax <= INT_MAX[t]]
        it = draw(st.sampled_from(fits))
        if draw(st.booleans()):
            # use the range of the dtype
            f = float(int(min(INT_MAX[it], 2 ** 50) // (2 * vmax)))
            y = [v * f for v in y]
            y_tau = [[v * f for v in row] for row in y_tau]
        mix = draw(st.sampled_from(["both", "both", "test-int", "tau-int"]))
        dtype_test = it if mix != "tau-int" else "float"
        dtype_tau = it if mix != "test-int" else "float"
        if mix == "test-int" and min(y) >= 0 and max(y) <= 255 \
                and draw(st.booleans()):
            dtype_test = "uint8"
    ytau_shape = "2d"
    if k == 1:
        ytau_shape = draw(st.sampled_from(["2d", "flat", "col"]))
    return {
        "y_test": y, "ytest_shape": draw(st.sampled_from(["flat", "col"])),
        "taus": taus,
        "taus_form": draw(st.sampled_from(
            ["list", "array", "row"] + (["scalar"] if k == 1 else []))),
        "y_tau": y_tau, "ytau_shape": ytau_shape, "dtype": dtype,
        "dtype_test": dtype_test, "dtype_tau": dtype_tau,
        "layout_tau": draw(st.sampled_from(LAYOUTS)),
        "layout_test": draw(st.sampled_from(LAYOUTS)),
        "kind": kind,
    }


LAYOUTS = ["C", "C", "F", "T", "strided", "reversed"]


def laid_out(a, layout):
    """the same logical array in another memory layout: Fortran order,
    transposed view of a C array, strided slice of a larger array, or a
    reversed view (negative stride)"""
    if layout == "F" and a.ndim == 2:
        return np.asfortranarray(a)
    if layout == "T" and a.ndim == 2:
        return np.ascontiguousarray(a.T).T
    if layout == "strided":
        if a.ndim == 2:
            big = np.zeros((2 * a.shape[0], 2 * a.shape[1] + 1), dtype=a.dtype)
            big[::2, 1::2] = a
            return big[::2, 1::2]
        big = np.zeros(2 * a.shape[0] + 1, dtype=a.dtype)
        big[1::2] = a
        return big[1::2]
    if layout == "reversed":
        return np.ascontiguousarray(a[::-1])[::-1]
    return np.ascontiguousarray(a)


def build_pinball(case):
    dt = "int64" if case["dtype"] == "int" else "float"
    dtt = case.get("dtype_test", dt)
    dta = case.get("dtype_tau", dt)
    dtt = "float64" if dtt == "float" else dtt
    dta = "float64" if dta == "float" else dta
    y = np.array([int(v) if "int" in dtt else v
                  for v in case["y_test"]], dtype=dtt)
    n = y.size
    yt = np.array([[int(v) if "int" in dta else v for v in row]
                   for row in case["y_tau"]], dtype=dta).reshape(
        n, len(case["taus"]))
    if not (np.array_equal(y.astype(float), np.array(case["y_test"]))
            and np.array_equal(yt.astype(float), np.array(
                case["y_tau"]).reshape(yt.shape))):
        raise AssertionError("generator: values not representable in "
                             "%s / %s" % (dtt, dta))
    y_arg = y.reshape(n, 1) if case["ytest_shape"] == "col" else y
    if case["ytau_shape"] == "flat":
        yt_arg = yt.reshape(n)
    elif case["ytau_shape"] == "col":
        yt_arg = yt.reshape(n, 1)
    else:
        yt_arg = yt
    y_arg = laid_out(y_arg, case.get("layout_test", "C"))
    yt_arg = laid_out(yt_arg, case.get("layout_tau", "C"))
    if not (np.array_equal(np.asarray(y_arg).reshape(-1), y.reshape(-1))
            and np.array_equal(np.asarray(yt_arg).reshape(yt.shape), yt)):
        raise AssertionError("harness: layout changed the logical values")
    form = case["taus_form"]
    taus = case["taus"]
    if form == "scalar":
        t_arg = float(taus[0])
    elif form == "array":
        t_arg = np.array(taus, dtype=float)
    elif form == "row":
        t_arg = np.array(taus, dtype=float).reshape(1, -1)
    else:
        t_arg = list(taus)
    return y, yt, y_arg, yt_arg, t_arg


def pinball_ld(yt, y, taus):
    """long-double pinball loss, shape (n, k)"""
    d = yt.astype(LD) - y.astype(LD).reshape(-1, 1)
    t = np.array(taus, dtype=LD).reshape(1, -1)
    return np.where(d < 0, t * np.abs(d), (LD(1) - t) * np.abs(d))


def check_pinball(case, ctx):
    from typhon.retrieval import scores
    y, yt, y_arg, yt_arg, t_arg = build_pinball(case)
    n, k = yt.shape
    taus = case["taus"]
    ctx.label("kind-" + case["kind"], "ytau-" + case["ytau_shape"],
              "ytest-" + case["ytest_shape"], "taus-" + case["taus_form"],
              "dtype-" + case["dtype"])
    lt, ls = case.get("layout_tau", "C"), case.get("layout_test", "C")
    ctx.label("layout-ytau-" + lt, "layout-ytest-" + ls)
    if k > 1 and case["ytau_shape"] == "2d" and lt in ("F", "T", "strided"):
        ctx.label("ytau-(n,k>1)-not-C-contiguous")
    if case["dtype"] == "mixed-precision":
        narrow_side = ("estimates" if case["dtype_tau"] != "float"
                       else "observations")
        narrow = (case["dtype_tau"] if narrow_side == "estimates"
                  else case["dtype_test"])
        ctx.label("mixed-%s-%s-vs-float64" % (narrow, narrow_side))
        d = np.abs(yt.astype(float) - y.astype(float).reshape(-1, 1))
        wide = y if narrow_side == "estimates" else yt
        lost = wide.astype(narrow).astype(float) != wide.astype(float)
        if lost.any() and (d > 0).any():
            ctx.label("difference-below-the-narrow-dtype's-resolution")
    if case["dtype"] == "int":
        ctx.label("ytest-dtype-" + case.get("dtype_test", "int64"),
                  "ytau-dtype-" + case.get("dtype_tau", "int64"),
                  "integer-typed-input")
    ctx.label("vector-tau" if k > 1 else "single-tau")
    label_size(ctx, n)
    if len(set(case["y_test"])) < n:
        ctx.label("ties")
    below = yt < y.reshape(-1, 1)
    above = yt > y.reshape(-1, 1)
    equal = yt == y.reshape(-1, 1)
    ctx.label("has-below" if below.any() else None,
              "has-above" if above.any() else None,
              "has-equal" if equal.any() else None)
    if any(t != 0.5 for t in taus):
        ctx.label("tau!=0.5")
        if len(set(case["y_test"])) > 1:
            ctx.nontrivial = True

    res = scores.quantile_score(yt_arg, y_arg, t_arg)
    ctx.check(isinstance(res, np.ndarray) and res.shape == (n, k),
              "pinball/shape", lambda: "shape %r, expected %r" % (
                  getattr(res, "shape", None), (n, k)))
    exp = pinball_ld(yt, y, taus)
    err = np.abs(res.astype(LD) - exp)
    bad = err > LD(1e-15) * exp
    if bad.any():
        i, j = np.argwhere(bad)[0]
        ctx.fail("pinball/value",
                 "y_tau=%r y_test=%r tau=%r: got %r, expected %r (%s)" % (
                     yt[i, j], y[i], taus[j], res[i, j], float(exp[i, j]),
                     "estimate below" if below[i, j] else "estimate above"))
    ctx.check(bool((res >= 0).all()), "pinball/negative",
              lambda: "min score %r" % res.min())
    zero = res == 0
    if (zero != equal).any():
        i, j = np.argwhere(zero != equal)[0]
        ctx.fail("pinball/zero-iff-equal",
                 "y_tau=%r y_test=%r tau=%r score=%r" % (
                     yt[i, j], y[i], taus[j], res[i, j]))
    mean = scores.mean_quantile_score(yt_arg, y_arg, t_arg)
    ctx.check(np.shape(mean) == (k,), "mean/shape",
              lambda: "shape %r, expected %r" % (np.shape(mean), (k,)))
    exp_mean = exp.sum(axis=0) / LD(n)
    ctx.check(bool((np.abs(mean.astype(LD) - exp_mean)
                    <= LD(1e-12) * exp_mean).all()),
              "mean/value", lambda: "got %r, expected %r" % (
                  mean, exp_mean.astype(float)))


# --------------------------------------------------------------------------
# the minimiser of the mean quantile score is a tau-quantile
# --------------------------------------------------------------------------
@st.composite
def minimiser_cases(draw, large=300):
    kind, y = draw(sample_vector(large, small=30))
    y = [clean(v) for v in y]
    n = len(y)
    taus = draw(st.lists(st.one_of(
        tau_strategy,
        # fractions j/n: the flat-minimum situation
        st.integers(1, max(1, n - 1)).map(lambda j: min(j / n, 0.999))),
        min_size=1, max_size=3))
    return {"sample": y, "taus": taus, "kind": kind,
            "layout": draw(st.sampled_from(LAYOUTS))}


def check_minimiser(case, ctx):
    from typhon.retrieval import scores
    y = np.array(case["sample"], dtype=float)
    n = y.size
    ys = sorted(case["sample"])
    cand = sorted(set(case["sample"]))
    if len(cand) > 400:
        # large sample: every (K/60)-th distinct value plus the order
        # statistics around tau*n (so that a tau-quantile is a candidate)
        sub = set(cand[::max(1, len(cand) // 60)]) | {cand[-1]}
        for tau in case["taus"]:
            j = int(Fraction(tau) * n)
            sub.update(ys[max(0, min(n - 1, i))] for i in (j - 1, j, j + 1))
        cand = sorted(sub)
        ctx.label("candidates-subsampled")
    K = len(cand)
    ctx.label("kind-" + case["kind"])
    if len(set(case["sample"])) < n:
        ctx.label("ties")
    if K == 1:
        ctx.label("constant-sample")
    label_size(ctx, n)
    lt = np.searchsorted(ys, cand, side="left")     # #{y < c}
    le = np.searchsorted(ys, cand, side="right")    # #{y <= c}
    y_tau = laid_out(np.tile(np.array(cand, dtype=float), (n, 1)),
                     case.get("layout", "C"))
    ctx.label("layout-candidates-" + case.get("layout", "C"))
    for tau in case["taus"]:
        if tau != 0.5:
            ctx.label("tau!=0.5")
            if K > 1:
                ctx.nontrivial = True
        tn = Fraction(tau) * n
        if tn.denominator == 1:
            ctx.label("tau*n-integer")
        isq = [int(lt[j]) <= tn <= int(le[j]) for j in range(K)]
        if not any(isq):
            raise AssertionError("oracle: no tau-quantile among candidates")
        got = scores.mean_quantile_score(y_tau, y, [tau] * K)
        ctx.check(np.shape(got) == (K,), "minimiser/shape",
                  lambda: "shape %r for %d candidates" % (np.shape(got), K))
        tol = 1e-12 * float(got.max())
        q_scores = [got[j] for j in range(K) if isq[j]]
        jmin = int(np.argmin(got))
        ctx.check(max(q_scores) <= got[jmin] + tol,
                  "minimiser/not-a-quantile", lambda: (
                      "tau=%r n=%d: constant %r (with #{y<c}=%d, #{y<=c}=%d) "
                      "scores %r, below the tau-quantile(s) %r scoring %r"
                      % (tau, n, cand[jmin], lt[jmin], le[jmin], got[jmin],
                         [cand[j] for j in range(K) if isq[j]], q_scores)))
        exp = pinball_ld(y_tau, y, [tau] * K).sum(axis=0) / LD(n)
        ctx.check(bool((np.abs(got.astype(LD) - exp)
                        <= LD(1e-12) * exp).all()),
                  "minimiser/score-value", lambda: "tau=%r got %r expected %r"
                  % (tau, got, exp.astype(float)))


# --------------------------------------------------------------------------
# inconsistent shapes
# --------------------------------------------------------------------------
def invalid_shape_cases():
    for n, k, k2, n2 in itertools.product(range(1, 6), range(1, 5),
                                          range(1, 5), range(1, 8)):
        for shape in ("flat", "col"):
            yield {"n": n, "k": k, "k2": k2, "n2": n2, "ytest_shape": shape}


def check_invalid(case, ctx):
    from typhon.retrieval import scores
    n, k, k2, n2 = case["n"], case["k"], case["k2"], case["n2"]
    y_tau = np.arange(n * k, dtype=float).reshape(n, k)
    y_test = np.arange(n2, dtype=float) + 0.5
    if case["ytest_shape"] == "col":
        y_test = y_test.reshape(n2, 1)
    taus = np.linspace(0.2, 0.8, k2)
    if n * k == n2 * k2:
        if (n, k) != (n2, k2):
            ctx.label("sizes-agree-by-coincidence(skipped)")
            return
        ctx.label("consistent")
        res = scores.quantile_score(y_tau, y_test, taus)
        ctx.check(res.shape == (n, k), "shapes/consistent-shape", res.shape)
        return
    ctx.label("inconsistent")
    ctx.label("ytau-not-divisible" if (n * k) % k2 else "ytest-mismatch")
    ctx.nontrivial = True
    for name in ("quantile_score", "mean_quantile_score"):
        try:
            res = getattr(scores, name)(y_tau, y_test, taus)
        except ValueError:
            continue
        ctx.fail("shapes/no-ValueError",
                 "%s(y_tau %r, y_test %r, taus %r) returned shape %r" % (
                     name, y_tau.shape, y_test.shape, taus.shape,
                     np.shape(res)))


# --------------------------------------------------------------------------
# mape / bias
# --------------------------------------------------------------------------
def nonzero(v):
    v = clean(v)
    return v if v != 0.0 else 0.25


@st.composite
def mape_cases(draw, large=2000):
    kind, t = draw(sample_vector(
        large, kinds=("lattice", "positive", "heavy", "wide")))
    t = [nonzero(v) for v in t]
    n = len(t)
    mode = draw(st.sampled_from(["perfect", "high", "low", "general",
                                 "general"]))
    p = draw(st.one_of(st.floats(0.0, 500.0, allow_nan=False),
                       st.sampled_from([0.0, 1.0, 10.0, 50.0, 100.0, 500.0]),
                       st.floats(1e-3, 1.0, allow_nan=False)))
    if mode == "perfect":
        pred = list(t)
    elif mode == "high":
        pred = [v * (1.0 + p / 100.0) for v in t]
    elif mode == "low":
        pred = [v * (1.0 - p / 100.0) for v in t]
    else:
        rel = draw(st.lists(st.one_of(
            st.floats(-2.0, 2.0, allow_nan=False),
            st.sampled_from([0.0, 0.5, -0.5, 1.0, -1.0])),
            min_size=2, max_size=11))
        a = draw(st.integers(1, 13))
        pred = [v * (1.0 + rel[(a * i) % len(rel)]) for i, v in enumerate(t)]
    a = draw(st.integers(1, 10 ** 6))
    while gcd(a, n) != 1:
        a += 1
    b = draw(st.integers(0, 10 ** 6))
    perm = [(a * i + b) % n for i in range(n)]
    scale = draw(st.one_of(
        st.sampled_from([2.0, 0.5, -4.0, 1024.0, 2.0 ** -20]),
        st.floats(0.01, 100.0, allow_nan=False),
        st.floats(-100.0, -0.01, allow_nan=False),
        st.sampled_from([3.7, -2.5, 1e5, 1e-5])))
    return {"truth": t, "pred": pred, "mode": mode, "p": p, "perm": perm,
            "scale": scale, "kind": kind,
            "layout_pred": draw(st.sampled_from(LAYOUTS)),
            "layout_truth": draw(st.sampled_from(LAYOUTS)),
            "pred_shape": draw(st.sampled_from(["flat", "flat", "col"]))}


def check_mape(case, ctx):
    from typhon.retrieval import scores
    t = np.array(case["truth"], dtype=float)
    pr = np.array(case["pred"], dtype=float)
    n = t.size
    mode, p = case["mode"], case["p"]
    ctx.label("mode-" + mode, "kind-" + case["kind"],
              "pred-" + case["pred_shape"])
    if (t < 0).any():
        ctx.label("negative-truth")
    label_size(ctx, n)
    d = pr.astype(LD) - t.astype(LD)
    terms_b = LD(100) * d / t.astype(LD)
    terms_m = np.abs(terms_b)
    exp_m = terms_m.sum() / LD(n)
    exp_b = terms_b.sum() / LD(n)
    mixed = bool((terms_b > 0).any() and (terms_b < 0).any())
    if mixed:
        ctx.label("mixed-sign-errors")
    if n >= 2 and ((mode in ("high", "low") and p > 0) or mixed):
        ctx.nontrivial = True
    tol = float(LD(1e-12) * exp_m) + 1e-300

    pr_m = pr.reshape(n, 1) if case["pred_shape"] == "col" else pr
    # memory layout of the arguments (logical values unchanged)
    pr_m = laid_out(pr_m, case.get("layout_pred", "C"))
    pr = laid_out(pr, case.get("layout_pred", "C"))
    t = laid_out(t, case.get("layout_truth", "C"))
    ctx.label("layout-pred-" + case.get("layout_pred", "C"),
              "layout-truth-" + case.get("layout_truth", "C"))
    m = scores.mape(pr_m, t)
    b = scores.bias(pr, t)
    ctx.check(np.ndim(m) == 0 and np.ndim(b) == 0, "mape-bias/not-scalar",
              lambda: "shapes %r %r" % (np.shape(m), np.shape(b)))
    m, b = float(m), float(b)
    ctx.check(abs(m - float(exp_m)) <= tol, "mape/value", lambda: (
        "n=%d mode=%s: mape=%r, mean(100|p-t|/|t|)=%r" % (
            n, mode, m, float(exp_m))))
    ctx.check(abs(b - float(exp_b)) <= tol, "bias/value", lambda: (
        "n=%d mode=%s: bias=%r, mean(100(p-t)/t)=%r" % (
            n, mode, b, float(exp_b))))
    if mode == "perfect":
        ctx.check(m == 0.0 and b == 0.0, "mape-bias/perfect-not-zero",
                  lambda: "mape=%r bias=%r" % (m, b))
    elif mode in ("high", "low"):
        sgn = 1.0 if mode == "high" else -1.0
        ctol = 1e-10 * p + 1e-11
        ctx.check(abs(m - p) <= ctol, "mape/uniform-offset", lambda: (
            "predictions %r%% too %s: mape=%r" % (p, mode, m)))
        ctx.check(abs(b - sgn * p) <= ctol, "bias/uniform-offset", lambda: (
            "predictions %r%% too %s: bias=%r" % (p, mode, b)))
    # order of the samples
    perm = np.array(case["perm"], dtype=int)
    m2 = float(scores.mape(pr_m[perm], t[perm]))
    b2 = float(scores.bias(pr[perm], t[perm]))
    ctx.check(abs(m2 - m) <= tol and abs(b2 - b) <= tol,
              "mape-bias/permutation", lambda: (
                  "mape %r -> %r, bias %r -> %r after permuting" % (
                      m, m2, b, b2)))
    # common scale
    c = case["scale"]
    m3 = float(scores.mape(pr_m * c, t * c))
    b3 = float(scores.bias(pr * c, t * c))
    stol = 1e-10 * float(exp_m) + 1e-11
    if abs(c) in (2.0, 0.5, 4.0, 1024.0, 2.0 ** -20):
        ctx.label("scale-power-of-2")
        stol = tol
    ctx.check(abs(m3 - m) <= stol and abs(b3 - b) <= stol,
              "mape-bias/scale", lambda: (
                  "mape %r -> %r, bias %r -> %r after scaling by %r" % (
                      m, m3, b, b3, c)))


# --------------------------------------------------------------------------
# mape / bias with integer-typed input
# --------------------------------------------------------------------------
@st.composite
def mape_int_cases(draw):
    ttype = draw(st.sampled_from(["int8", "int16", "int16", "int32", "int32",
                                  "int64", "uint8"]))
    # uint8 differences wrap in NumPy: only with float predictions
    ptype = "float" if ttype == "uint8" else draw(
        st.sampled_from([ttype, ttype, ttype, "float"]))
    top = min(INT_MAX[ttype], 10 ** 15)      # exact in long double / float
    H = top // 2
    n = draw(st.one_of(st.integers(1, 30), st.integers(30, 2000)))
    mode = draw(st.sampled_from(["perfect", "uniform-high", "uniform-low",
                                 "general", "general"]))

    def ints(lo, hi, k):
        el = st.one_of(st.integers(lo, hi), st.integers(max(lo, hi // 2), hi),
                       st.integers(lo, max(lo, lo // 2) if lo < 0 else hi),
                       st.sampled_from([lo, hi]))
        if k <= 30:
            return draw(st.lists(el, min_size=k, max_size=k))
        pool = draw(st.lists(el, min_size=7, max_size=29))
        a, b = draw(st.integers(1, 28)), draw(st.integers(0, 28))
        return [pool[(a * i + b) % len(pool)] for i in range(k)]

    lo = 1 if ttype == "uint8" else -H
    hi = 255 if ttype == "uint8" else H
    p = 0
    if mode in ("uniform-high", "uniform-low") and ttype != "uint8":
        # truth = 100 k, prediction = (100 +- p) k, everything fits
        p = draw(st.integers(1, min(100, top - 100)))
        kmax = top // (100 + p)
        ks = [v if v else 1 for v in ints(-kmax, kmax, n)]
        sgn = 1 if mode == "uniform-high" else -1
        truth = [100 * k for k in ks]
        pred = [(100 + sgn * p) * k for k in ks]
    else:
        if mode.startswith("uniform"):
            mode = "general"
        truth = [v if v else 1 for v in ints(lo, hi, n)]
        if mode == "perfect":
            pred = list(truth)
        elif ptype == "float":
            rel = draw(st.lists(st.floats(-2.0, 2.0, allow_nan=False),
                                min_size=3, max_size=11))
            pred = [t * (1.0 + rel[(5 * i) % len(rel)])
                    for i, t in enumerate(truth)]
        else:
            err = ints(-H, H, n)
            pred = [t + e for t, e in zip(truth, err)]
    if ptype == "float":
        pred = [float(v) for v in pred]
    # a common integer factor that keeps everything inside the dtype
    vmax = max(max(abs(v) for v in truth), max(abs(v) for v in pred), 1)
    dmax = max(max(abs(a - b) for a, b in zip(pred, truth)), 1)
    cmax = int(min(top // vmax, top // dmax))
    c = min(draw(st.sampled_from([1, 2, 3, 10, 40, 1000])), max(cmax, 1))
    if ttype == "uint8" and max(truth) * c > 255:
        c = 1
    a = draw(st.integers(1, 10 ** 6))
    while gcd(a, n) != 1:
        a += 1
    b = draw(st.integers(0, 10 ** 6))
    return {"truth": truth, "pred": pred, "ttype": ttype, "ptype": ptype,
            "mode": mode, "p": p, "scale": c,
            "perm": [(a * i + b) % n for i in range(n)],
            "pred_shape": draw(st.sampled_from(["flat", "flat", "col"]))}


def check_mape_int(case, ctx):
    from typhon.retrieval import scores
    ttype, ptype = case["ttype"], case["ptype"]
    truth, pred = case["truth"], case["pred"]
    n = len(truth)
    mode, p = case["mode"], case["p"]

    def arrays(c):
        t = np.array([v * c for v in truth], dtype=ttype)
        pr = np.array([v * c for v in pred],
                      dtype="float64" if ptype == "float" else ptype)
        return t, pr

    t, pr = arrays(1)
    ctx.label("truth-" + ttype, "pred-" + ptype, "mode-" + mode,
              "integer-typed-input")
    if ptype == "float":
        ctx.label("mixed-int-truth-float-pred")
    label_size(ctx, n)
    tl = np.array([LD(v) for v in truth])
    pl = np.array([LD(v) for v in pred])
    terms_b = LD(100) * (pl - tl) / tl
    terms_m = np.abs(terms_b)
    exp_m = float(terms_m.sum() / LD(n))
    exp_b = float(terms_b.sum() / LD(n))
    emax = float(np.abs(pl - tl).max())
    if ptype != "float" and 100 * emax > INT_MAX[ttype]:
        ctx.label("100*|error|-exceeds-dtype")
        ctx.nontrivial = True
    elif n >= 2 and mode != "perfect":
        ctx.nontrivial = True
    tol = 1e-12 * exp_m + 1e-300

    def both(tt, pp):
        pm = pp.reshape(-1, 1) if case["pred_shape"] == "col" else pp
        return float(scores.mape(pm, tt)), float(scores.bias(pp, tt))

    m, b = both(t, pr)
    ctx.check(abs(m - exp_m) <= tol, "mape/value", lambda: (
        "%s truth, %s predictions, n=%d mode=%s: mape=%r, mean(100|p-t|/|t|)"
        "=%r (largest |p-t| = %r)" % (ttype, ptype, n, mode, m, exp_m, emax)))
    ctx.check(abs(b - exp_b) <= tol, "bias/value", lambda: (
        "%s truth, %s predictions, n=%d mode=%s: bias=%r, mean(100(p-t)/t)=%r"
        % (ttype, ptype, n, mode, b, exp_b)))
    if mode == "perfect":
        ctx.check(m == 0.0 and b == 0.0, "mape-bias/perfect-not-zero",
                  lambda: "mape=%r bias=%r" % (m, b))
    elif mode.startswith("uniform"):
        sgn = 1.0 if mode == "uniform-high" else -1.0
        ctol = 1e-10 * p + 1e-11
        ctx.check(abs(m - p) <= ctol, "mape/uniform-offset", lambda: (
            "truth 100k, predictions (100%+d)k as %s: mape=%r" % (
                sgn * p, ttype, m)))
        ctx.check(abs(b - sgn * p) <= ctol, "bias/uniform-offset", lambda: (
            "truth 100k, predictions (100%+d)k as %s: bias=%r" % (
                sgn * p, ttype, b)))
    perm = np.array(case["perm"], dtype=int)
    m2, b2 = both(t[perm], pr[perm])
    ctx.check(abs(m2 - m) <= tol and abs(b2 - b) <= tol,
              "mape-bias/permutation", lambda: (
                  "mape %r -> %r, bias %r -> %r after permuting" % (
                      m, m2, b, b2)))
    c = case["scale"]
    if c != 1:
        ctx.label("integer-scale")
        m3, b3 = both(*arrays(c))
        ctx.check(abs(m3 - m) <= tol and abs(b3 - b) <= tol,
                  "mape-bias/scale", lambda: (
                      "%s data times %d: mape %r -> %r, bias %r -> %r" % (
                          ttype, c, m, m3, b, b3)))


def suites(tier):
    large = 2000 if tier == "quick" else 10000
    return [
        Suite("pinball", check_pinball, strategy=pinball_cases(large),
              examples={"quick": 1150, "thorough": 8000}),
        Suite("minimiser", check_minimiser,
              strategy=minimiser_cases(300 if tier == "quick" else 600),
              examples={"quick": 650, "thorough": 2500}),
        Suite("mape-bias", check_mape, strategy=mape_cases(large),
              examples={"quick": 950, "thorough": 6000}),
        Suite("mape-bias-int", check_mape_int, strategy=mape_int_cases(),
              examples={"quick": 250, "thorough": 2500}),
        Suite("shapes-invalid", check_invalid, cases=invalid_shape_cases,
              exhaustive=True),
    ]
