"""C08 - Planck radiance, brightness temperatures, spectral units, Snell, Fresnel.

Oracles: long-double (x87 80 bit) evaluation of the textbook formulas with
expm1/log1p (no cancellation), inverse pairs, Jacobian identities between the
three spectral variables, order/limit relations between Planck and
Rayleigh-Jeans, Snell's law / Liou's formula and the Fresnel formulas of the
docstrings in (complex) long double.
"""
import numpy as np
from hypothesis import strategies as st

from vp.oracle.c07_guard import Guarded
from vp.runner import Suite

PROP_ID = "C08"
LEVEL = "exploration"
QUICK_SHARDS = 4
RULE = (
    "planck suite: batches of 1-40 (f, T) pairs built from x = h f / k T "
    "drawn log-uniformly in [1e-6, 600] (weighted on both ends) and one of "
    "f in [1e8, 1e15] Hz / T in [2, 1e4] K, the other derived, handed over as "
    "Python/NumPy scalars, 0-d, 1-D, 2-D arrays or as a broadcast f-column x "
    "T-row grid whose every combination stays in the x range; spectra suite: "
    "positive grids of 1-12 points (ascending, descending, unsorted) with "
    "1-D to 3-D spectra for the four density converters, Planck spectra on a "
    "grid, and the six unit converters (float scalars/arrays and 1-5 "
    "integers as int, NumPy ints and int32/int64 arrays); optics suite: batches of (n1 in "
    "[1, 5], n2 real in [0.2, 10] or complex with Im >= 0, theta1 in "
    "[0, 90]) aimed at normal incidence, grazing incidence, the critical "
    "angle (both sides, to 1e-9 deg), total reflection, the Brewster angle, "
    "equal indices (also at exactly 0 and 90 deg) "
    "and complex-typed n2 with zero imaginary part, as scalars and arrays.  "
    "Non-trivial = some x < 1e-3 or x > 50, or array input, or complex n2 "
    "(spectra: every case; optics: array input, complex n2, total "
    "reflection or Brewster).  Distinct = distinct case hash."
)
ASSUMPTIONS = [
    "h f / k T in [1e-6, 600], f in [1e8, 1e15] Hz, T in [2, 1e4] K "
    "(statement); density converters get numpy arrays with the spectral axis "
    "first and a 1-D grid (their documented signature)",
    "float64 error model of exp(x)-1 and log(1+y): rtol(x) = "
    "1e-14/min(x,1) + 1e-14 x + 1e-12",
    "complex n2: theta2 is Liou's real refraction angle (docstring); its "
    "float64 conditioning (cancellation for strong absorbers) is part of the "
    "tolerance; elements with Im n2 = 0 inside a complex array beyond the "
    "critical angle may give NaN or the limit 90 deg",
    "fresnel under total reflection (real n2 < n1): |Rv| = |Rh| = 1 "
    "(docstring: 'set to 1'); NaN counts as a violation of |R| <= 1",
]

LD = np.longdouble
CLD = np.clongdouble
PI = LD(4) * np.arctan(LD(1))
D2R = PI / LD(180)

H_ = 6.62607015e-34
K_ = 1.380649e-23
C_ = 299792458.0
KH = K_ / H_            # Hz / K

XMIN, XMAX = 1e-6, 600.0


def ld(a):
    return np.asarray(a, dtype=LD)


def consts():
    from typhon import constants
    return (LD(constants.planck), LD(constants.boltzmann),
            LD(constants.speed_of_light))


def rtol_x(x):
    x = np.asarray(x, dtype=float)
    return 1e-14 / np.minimum(x, 1.0) + 1e-14 * x + 1e-12


def relerr(got, ref):
    ref = ld(ref)
    return (np.abs(ld(got) - ref) / np.abs(ref)).astype(float)


def _mk(values, shape, scalar_type="py", dtype=float):
    if shape == []:
        v = values[0]
        if scalar_type == "py":
            return dtype(v) if dtype is not float else float(v)
        if scalar_type == "np":
            return np.asarray(v, dtype=dtype)[()]
        return np.array(v, dtype=dtype)
    return np.array(values, dtype=dtype).reshape(shape)


# --------------------------------------------------------------------------
# Planck / Rayleigh-Jeans / brightness temperatures
# --------------------------------------------------------------------------
def planck_checks(ctx, em, F, T, dfac):
    h, k, c = consts()
    shape = np.broadcast(F, T).shape
    Fl, Tl = np.broadcast_arrays(ld(F), ld(T))
    x = h * Fl / (k * Tl)
    xf = x.astype(float)
    tol = rtol_x(xf)

    def info():
        return "f=%r T=%r (x=%r)" % (np.asarray(F).tolist(),
                                      np.asarray(T).tolist(), xf.tolist())

    def same_shape(name, v):
        ctx.check(np.shape(v) == shape, "shape/" + name, lambda: (
            "%s: result shape %r, expected %r" % (info(), np.shape(v), shape)))

    B = em.planck(F, T)
    same_shape("planck", B)
    Bref = 2 * h * Fl ** 3 / (c * c * np.expm1(x))
    e = relerr(B, Bref)
    ctx.check(np.all(e <= tol), "reference/planck", lambda: (
        "%s: relative error %r, tolerance %r" % (info(), e.tolist(),
                                                  tol.tolist())))
    ctx.check(np.all(np.asarray(B) > 0), "planck/not-positive",
              lambda: "%s: %r" % (info(), np.asarray(B).tolist()))

    # brightness temperature inverts planck
    Tb = em.radiance2planckTb(F, B)
    same_shape("radiance2planckTb", Tb)
    e = relerr(Tb, Tl)
    ctx.check(np.all(e <= tol), "inverse/planckTb", lambda: (
        "%s: radiance2planckTb(f, planck(f, T)) = %r, relative error %r, "
        "tolerance %r" % (info(), np.asarray(Tb).tolist(), e.tolist(),
                          tol.tolist())))
    # ... and is right for a radiance that is not a Planck value of typhon
    r = (Bref * LD(0.75)).astype(float)
    r = r if shape else float(r)
    Tb2 = em.radiance2planckTb(F, r)
    Tb2ref = h * Fl / k / np.log1p(2 * h * Fl ** 3 / (c * c * ld(r)))
    e = relerr(Tb2, Tb2ref)
    ctx.check(np.all(e <= tol), "reference/planckTb", lambda: (
        "%s, r=%r: relative error %r, tolerance %r"
        % (info(), np.asarray(r).tolist(), e.tolist(), tol.tolist())))

    # Rayleigh-Jeans and its inverse
    RJ = em.rayleighjeans(F, T)
    same_shape("rayleighjeans", RJ)
    RJref = 2 * Fl ** 2 * k * Tl / (c * c)
    e = relerr(RJ, RJref)
    ctx.check(np.all(e <= 1e-14), "reference/rayleighjeans", lambda: (
        "%s: relative error %r" % (info(), e.tolist())))
    Tr = em.radiance2rayleighjeansTb(F, RJ)
    same_shape("radiance2rayleighjeansTb", Tr)
    e = relerr(Tr, Tl)
    ctx.check(np.all(e <= 1e-14), "inverse/rayleighjeansTb", lambda: (
        "%s: radiance2rayleighjeansTb(f, rayleighjeans(f, T)) = %r"
        % (info(), np.asarray(Tr).tolist())))

    # 0 < planck <= RJ, planck / RJ -> 1 for x -> 0
    Ba, RJa = np.asarray(B, float), np.asarray(RJ, float)
    ctx.check(np.all(Ba <= RJa), "order/planck-exceeds-rayleighjeans",
              lambda: "%s: planck %r, RJ %r" % (info(), Ba.tolist(),
                                                RJa.tolist()))
    ratio = Ba / RJa
    ctx.check(np.all(np.abs(ratio - 1) <= xf), "limit/planck-over-rj",
              lambda: "%s: planck/RJ = %r" % (info(), ratio.tolist()))

    # increasing with T
    T2 = np.asarray(T, float) * (1.0 + dfac)
    T2 = T2 if shape else float(T2)
    B2 = np.asarray(em.planck(F, T2), float)
    ctx.check(np.all(B2 > Ba), "monotone/planck-in-T", lambda: (
        "%s: planck(f, T*(1+%g)) = %r is not above planck(f, T) = %r"
        % (info(), dfac, B2.tolist(), Ba.tolist())))

    # wavelength and wavenumber forms describe the same spectrum
    lam = em.frequency2wavelength(F)
    wn = em.frequency2wavenumber(F)
    Bl = em.planck_wavelength(lam, T)
    Bn = em.planck_wavenumber(wn, T)
    same_shape("planck_wavelength", Bl)
    same_shape("planck_wavenumber", Bn)
    laml, wnl = np.broadcast_arrays(ld(lam), Tl)[0], \
        np.broadcast_arrays(ld(wn), Tl)[0]
    Blref = 2 * h * c * c / (laml ** 5 * np.expm1(h * c / (laml * k * Tl)))
    Bnref = 2 * h * c * c * wnl ** 3 / np.expm1(h * c * wnl / (k * Tl))
    e = relerr(Bl, Blref)
    ctx.check(np.all(e <= tol), "reference/planck_wavelength", lambda: (
        "%s: relative error %r, tolerance %r" % (info(), e.tolist(),
                                                  tol.tolist())))
    e = relerr(Bn, Bnref)
    ctx.check(np.all(e <= tol), "reference/planck_wavenumber", lambda: (
        "%s: relative error %r, tolerance %r" % (info(), e.tolist(),
                                                  tol.tolist())))
    e = relerr(Bl, ld(B) * Fl ** 2 / c)
    ctx.check(np.all(e <= 3 * tol), "jacobian/planck_wavelength", lambda: (
        "%s: planck_wavelength(c/f, T) vs planck(f, T) f^2/c: relative "
        "difference %r" % (info(), e.tolist())))
    e = relerr(Bn, ld(B) * c)
    ctx.check(np.all(e <= 3 * tol), "jacobian/planck_wavenumber", lambda: (
        "%s: planck_wavenumber(f/c, T) vs c planck(f, T): relative "
        "difference %r" % (info(), e.tolist())))
    RJl = em.rayleighjeans_wavelength(lam, T)
    e = relerr(RJl, 2 * c * k * Tl / laml ** 4)
    ctx.check(np.all(e <= 1e-14), "reference/rayleighjeans_wavelength",
              lambda: "%s: relative error %r" % (info(), e.tolist()))
    return xf


def check_planck(case, ctx):
    from typhon.physics import em as em_module
    em = Guarded(em_module, ctx)
    kind = case["kind"]
    ctx.label("planck-" + kind)
    f_all = np.asarray(case["f"], float)
    t_all = np.asarray(case["T"], float)
    xs = []
    if kind in ("scalar", "0d"):
        for i in range(len(case["f"])):
            st_ = "0d" if kind == "0d" else ("py", "np")[i % 2]
            xs.append(planck_checks(ctx, em, _mk([case["f"][i]], [], st_),
                                    _mk([case["T"][i]], [], st_),
                                    case["dfac"]))
    else:
        F = _mk(case["f"], case["shapes"]["f"])
        T = _mk(case["T"], case["shapes"]["T"])
        xs.append(planck_checks(ctx, em, F, T, case["dfac"]))
        if kind == "grid":
            ctx.label("broadcast")
    x = np.concatenate([np.ravel(v) for v in xs])
    if np.any(x < 1e-3):
        ctx.label("small-x")
    if np.any(x > 50):
        ctx.label("large-x")
    if np.any(x < 1e-5):
        ctx.label("x<1e-5")
    if np.any(x > 500):
        ctx.label("x>500")
    if np.any(f_all >= 0.99e15) or np.any(f_all <= 1.01e8):
        ctx.label("f-at-limit")
    if np.any(t_all >= 0.99e4) or np.any(t_all <= 2.02):
        ctx.label("T-at-limit")
    ctx.nontrivial = bool(np.any(x < 1e-3) or np.any(x > 50)
                          or kind not in ("scalar", "0d"))


def _logu(lo, hi):
    llo, lhi = float(np.log(lo)), float(np.log(hi))
    return st.floats(0.0, 1.0).map(
        lambda u: float(np.exp(llo + u * (lhi - llo))))


def x_values():
    return st.one_of(_logu(1.0001e-6, 599.9), _logu(1.0001e-6, 1e-3),
                     _logu(50.0, 599.9), _logu(1.0001e-6, 1e-5),
                     st.sampled_from([1.0001e-6, 599.9, 1.0, 1e-3, 50.0]))


@st.composite
def ft_pair(draw):
    x = draw(x_values())
    u = draw(st.one_of(st.floats(0.0, 1.0), st.sampled_from([0.0, 1.0])))
    lo = max(1e8, 2.0 * KH * x)
    hi = min(1e15, 1e4 * KH * x)
    f = float(np.exp(np.log(lo) + u * (np.log(hi) - np.log(lo))))
    f = min(max(f, 1e8), 1e15)
    T = min(max(f / (KH * x), 2.0), 1e4)
    return [f, T]


@st.composite
def planck_cases(draw):
    kind = draw(st.sampled_from(["scalar", "scalar", "0d", "1d", "1d", "2d",
                                 "grid", "grid"]))
    case = {"kind": kind,
            "dfac": draw(st.one_of(_logu(1e-6, 1.0),
                                   st.sampled_from([1e-6, 1e-3])))}
    if kind in ("scalar", "0d"):
        n = draw(st.integers(1, 6))
        prs = draw(st.lists(ft_pair(), min_size=n, max_size=n))
        shp = []
    elif kind == "1d":
        n = draw(st.one_of(st.integers(1, 8), st.integers(1, 40)))
        prs = draw(st.lists(ft_pair(), min_size=n, max_size=n))
        shp = [n]
    elif kind == "2d":
        a, b = draw(st.integers(1, 5)), draw(st.integers(1, 6))
        prs = draw(st.lists(ft_pair(), min_size=a * b, max_size=a * b))
        shp = [a, b]
    else:
        # f column x T row; all combinations inside the x range
        nf, nt = draw(st.integers(1, 6)), draw(st.integers(1, 6))
        mode = draw(st.sampled_from(["any", "narrow", "narrow"]))
        if mode == "any":
            fs = draw(st.lists(_logu(1e8, 1e15), min_size=nf, max_size=nf))
        else:
            f0 = draw(_logu(1e8, 1e15))
            fs = [min(max(f0 * draw(_logu(0.2, 5.0)), 1e8), 1e15)
                  for _ in range(nf)]
        tlo = max(2.0, max(fs) / (KH * 599.9))
        thi = min(1e4, min(fs) / (KH * 1.0001e-6))
        ts = [draw(st.one_of(_logu(tlo, thi), st.sampled_from([tlo, thi])))
              for _ in range(nt)]
        case.update({"f": fs, "T": ts,
                     "shapes": {"f": [nf, 1], "T": draw(st.sampled_from(
                         [[1, nt], [nt]]))}})
        return case
    case.update({"f": [p[0] for p in prs], "T": [p[1] for p in prs],
                 "shapes": {"f": shp, "T": shp}})
    return case


# --------------------------------------------------------------------------
# spectral densities and unit converters
# --------------------------------------------------------------------------
def _rel_close(got, ref, rtol):
    got, ref = ld(got), ld(ref)
    return bool(np.all(np.abs(got - ref) <= rtol * np.abs(ref)))


def check_spectra(case, ctx):
    from typhon.physics import em as em_module
    em = Guarded(em_module, ctx)
    h, k, c = consts()
    grid = np.array(case["grid"], dtype=float)
    n = len(grid)
    extra = list(case["extra"])
    spec = np.array(case["values"], dtype=float).reshape([n] + extra)
    ctx.nontrivial = True
    ctx.label("spectrum-%dd" % spec.ndim, "grid-" + case["order"])
    if spec.ndim == 3:
        ctx.label("3d-spectrum")
    if case["order"] == "desc":
        ctx.label("descending-grid")
    if n == 1:
        ctx.label("grid-1-point")
    col = [n] + [1] * len(extra)
    gl = ld(grid)

    def info():
        return "grid=%r spectrum=%r" % (grid.tolist(), spec.tolist())

    def pair(fwd, bwd, name, jac, newgrid, reverse):
        """fwd(spec, grid) = (spec * jac, newgrid) (reversed?) and bwd
        inverts it"""
        out, g2 = fwd(spec, grid)
        ctx.check(np.shape(out) == spec.shape and np.shape(g2) == (n,),
                  "shape/" + name, lambda: "%s: %r %r" % (
                      info(), np.shape(out), np.shape(g2)))
        exp = ld(spec) * jac.reshape(col)
        expg = newgrid
        if reverse:
            exp, expg = exp[::-1, ...], expg[::-1]
        ctx.check(_rel_close(g2, expg, 1e-15), "grid/" + name, lambda: (
            "%s: new grid %r, expected %r" % (info(), np.asarray(g2).tolist(),
                                              expg.astype(float).tolist())))
        ctx.check(_rel_close(out, exp, 1e-12), "jacobian/" + name, lambda: (
            "%s: result %r, expected %r" % (info(), np.asarray(out).tolist(),
                                            exp.astype(float).tolist())))
        back, g3 = bwd(out, g2)
        ctx.check(np.shape(back) == spec.shape and np.shape(g3) == (n,),
                  "shape/" + name + "-inverse", lambda: info())
        ctx.check(_rel_close(g3, grid, 1e-13), "inverse-grid/" + name,
                  lambda: "%s: grid after the round trip %r" % (
                      info(), np.asarray(g3).tolist()))
        ctx.check(_rel_close(back, spec, 1e-13), "inverse/" + name, lambda: (
            "%s: spectrum after the round trip %r" % (
                info(), np.asarray(back).tolist())))

    pair(em.perfrequency2perwavelength, em.perwavelength2perfrequency,
         "perfrequency2perwavelength", gl ** 2 / c, c / gl, True)
    pair(em.perwavelength2perfrequency, em.perfrequency2perwavelength,
         "perwavelength2perfrequency", gl ** 2 / c, c / gl, True)
    pair(em.perfrequency2perwavenumber, em.perwavenumber2perfrequency,
         "perfrequency2perwavenumber", np.full(n, c), gl / c, False)
    pair(em.perwavenumber2perfrequency, em.perfrequency2perwavenumber,
         "perwavenumber2perfrequency", np.full(n, 1 / c), gl * c, False)

    # the converters map the Planck forms onto each other
    f = np.array(case["pf"], dtype=float)
    T = np.array(case["pT"], dtype=float)
    x = (h * ld(f)[:, None] / (k * ld(T)[None, :])).astype(float)
    tol = 4 * rtol_x(x)
    B = em.planck(f[:, None], T[None, :])
    Bl, lam = em.perfrequency2perwavelength(B, f)
    e = relerr(Bl, em.planck_wavelength(lam[:, None], T[None, :]))
    ctx.check(np.all(e <= tol[::-1]), "planck/perfrequency2perwavelength",
              lambda: "f=%r T=%r: relative difference to planck_wavelength "
              "on the new grid %r" % (f.tolist(), T.tolist(), e.tolist()))
    Bn, wn = em.perfrequency2perwavenumber(B, f)
    e = relerr(Bn, em.planck_wavenumber(wn[:, None], T[None, :]))
    ctx.check(np.all(e <= tol), "planck/perfrequency2perwavenumber",
              lambda: "f=%r T=%r: relative difference to planck_wavenumber "
              "%r" % (f.tolist(), T.tolist(), e.tolist()))
    Bf, f2 = em.perwavelength2perfrequency(
        em.planck_wavelength(lam[:, None], T[None, :]), lam)
    e = relerr(Bf, B)
    ctx.check(np.all(e <= tol) and _rel_close(f2, f, 1e-13),
              "planck/perwavelength2perfrequency", lambda: (
                  "f=%r T=%r: relative difference to planck %r"
                  % (f.tolist(), T.tolist(), e.tolist())))

    # unit converters
    for v in (grid, float(grid[0]), np.array(grid[0]),
              grid.reshape(1, n)):
        vl = ld(v)
        shp = np.shape(v)
        table = [
            ("frequency2wavelength", em.frequency2wavelength, c / vl),
            ("wavelength2frequency", em.wavelength2frequency, c / vl),
            ("frequency2wavenumber", em.frequency2wavenumber, vl / c),
            ("wavenumber2frequency", em.wavenumber2frequency, vl * c),
            ("wavelength2wavenumber", em.wavelength2wavenumber, 1 / vl),
            ("wavenumber2wavelength", em.wavenumber2wavelength, 1 / vl),
        ]
        for name, fn, ref in table:
            got = fn(v)
            ctx.check(np.shape(got) == shp and _rel_close(got, ref, 1e-15),
                      "reference/" + name, lambda: "%s(%r) = %r" % (
                          name, np.asarray(v).tolist(),
                          np.asarray(got).tolist()))
        inv = [(em.frequency2wavelength, em.wavelength2frequency),
               (em.frequency2wavenumber, em.wavenumber2frequency),
               (em.wavelength2wavenumber, em.wavenumber2wavelength)]
        for a, b in inv:
            for p, q in ((a, b), (b, a)):
                ctx.check(_rel_close(q(p(v)), v, 1e-15),
                          "inverse/" + p.__name__, lambda: "%s(%s(%r)) = %r"
                          % (q.__name__, p.__name__, np.asarray(v).tolist(),
                             np.asarray(q(p(v))).tolist()))
        tri = [(em.frequency2wavelength, em.wavelength2wavenumber,
                em.frequency2wavenumber),
               (em.wavenumber2wavelength, em.wavelength2frequency,
                em.wavenumber2frequency),
               (em.wavelength2frequency, em.frequency2wavenumber,
                em.wavelength2wavenumber)]
        for a, b, d in tri:
            ctx.check(_rel_close(b(a(v)), d(v), 1e-14),
                      "route/" + d.__name__, lambda: "%s(%s(v)) != %s(v) for "
                      "v=%r" % (b.__name__, a.__name__, d.__name__,
                                np.asarray(v).tolist()))

    # integer-typed arguments (whole Hz / m / 1/m as int, NumPy ints, int
    # arrays): the same values as for the float evaluation
    ints = [int(k) for k in case.get("ints", [])]
    if ints:
        ctx.label("int-arguments")
        forms = [ints[0], np.int64(ints[0]), np.array(ints[0]),
                 np.array(ints, dtype="int64")]
        if max(ints) < 2 ** 31:
            forms += [np.array(ints, dtype="int32"), np.int32(ints[0])]
        names = ["frequency2wavelength", "wavelength2frequency",
                 "frequency2wavenumber", "wavenumber2frequency",
                 "wavelength2wavenumber", "wavenumber2wavelength"]
        for v in forms:
            vf = np.asarray(v, dtype=float)
            vf = vf if vf.shape else float(vf)
            for name in names:
                fn = getattr(em, name)
                got, exp = fn(v), fn(vf)
                ctx.check(np.shape(got) == np.shape(exp)
                          and _rel_close(got, exp, 1e-15),
                          "int-argument/" + name, lambda: (
                              "%s(%r of type %s) = %r, but %r for the same "
                              "values as float" % (
                                  name, np.asarray(v).tolist(),
                                  getattr(v, "dtype", type(v).__name__),
                                  np.asarray(got).tolist(),
                                  np.asarray(exp).tolist())))
            for a, b in inv:
                for p_, q_ in ((a, b), (b, a)):
                    ctx.check(_rel_close(q_(p_(v)), vf, 1e-15),
                              "inverse/" + p_.__name__, lambda: (
                                  "%s(%s(%r as integers)) = %r" % (
                                      q_.__name__, p_.__name__,
                                      np.asarray(v).tolist(),
                                      np.asarray(q_(p_(v))).tolist())))


@st.composite
def spectra_cases(draw):
    n = draw(st.one_of(st.integers(1, 4), st.integers(1, 12)))
    gridkind = draw(st.sampled_from(["freq", "freq", "any", "wavelength"]))
    rng = {"freq": (1e8, 1e15), "any": (1e-8, 1e16),
           "wavelength": (1e-7, 10.0)}[gridkind]
    grid = draw(st.lists(_logu(*rng), min_size=n, max_size=n, unique=True))
    order = draw(st.sampled_from(["asc", "desc", "unsorted"]))
    if order == "asc":
        grid = sorted(grid)
    elif order == "desc":
        grid = sorted(grid, reverse=True)
    extra = draw(st.sampled_from([[], [], [1], [2], [3], [2, 3], [1, 2],
                                  [3, 1], [2, 2]]))
    size = n * int(np.prod(extra)) if extra else n
    # magnitudes away from the underflow range (a quotient by c that ends
    # up subnormal has no relative accuracy to speak of)
    val = st.one_of(
        st.builds(lambda s, v: s * v, st.sampled_from([1.0, -1.0]),
                  st.one_of(_logu(1e-100, 1e100), _logu(1e-3, 1e3))),
        st.sampled_from([0.0, 1.0, -1.0]))
    values = draw(st.lists(val, min_size=size, max_size=size))
    # Planck spectra: frequency grid and temperatures inside the x range
    nf, nt = draw(st.integers(1, 6)), draw(st.integers(1, 4))
    f0 = draw(_logu(1e8, 1e15))
    fs = sorted({min(max(f0 * draw(_logu(0.1, 10.0)), 1e8), 1e15)
                 for _ in range(nf)})
    if draw(st.booleans()):
        fs = fs[::-1]
    tlo = max(2.0, max(fs) / (KH * 599.9))
    thi = min(1e4, min(fs) / (KH * 1.0001e-6))
    ts = [draw(_logu(tlo, thi)) for _ in range(nt)]
    ints = draw(st.lists(st.one_of(
        st.integers(1, 2000), st.integers(1, 10 ** 6),
        st.integers(10 ** 8, 10 ** 15),
        st.sampled_from([500, 1000, 1500, 1, 2, 300000000])),
        min_size=1, max_size=5))
    return {"grid": grid, "order": order, "extra": extra, "values": values,
            "pf": fs, "pT": ts, "ints": ints}


# --------------------------------------------------------------------------
# Snell and Fresnel
# --------------------------------------------------------------------------
def liou(n1, n2re, n2im, th):
    """(sin(theta2), Nr^2, conditioning) of Liou's formula in long double"""
    mr2 = (n2re / n1) ** 2
    mi2 = (n2im / n1) ** 2
    s1 = np.sin(th * D2R)
    s2 = s1 * s1
    nr2 = (mr2 - mi2 + s2 + np.sqrt((mr2 - mi2 - s2) ** 2 + 4 * mr2 * mi2)) / 2
    cond = 1 + (mr2 + mi2 + s2) / nr2
    return s1 / np.sqrt(nr2), nr2, cond


def check_optics(case, ctx):
    from typhon.physics import em as em_module
    em = Guarded(em_module, ctx)
    kind = case["kind"]
    n2type = case["n2type"]
    ctx.label("optics-" + kind, "n2-" + n2type)
    shapes = case["shapes"]
    cplx = n2type != "real"
    n2vals = [complex(a, b if n2type == "complex" else 0.0)
              for a, b in zip(case["n2re"], case["n2im"])] if cplx \
        else list(case["n2re"])

    def run(N1, N2, TH):
        shape = np.broadcast(N1, N2, TH).shape
        n1, n2, th = np.broadcast_arrays(ld(np.real(N1)), np.asarray(N2),
                                         ld(TH))
        n2re, n2im = ld(np.real(n2)), ld(np.imag(n2))
        all_real = bool(np.all(n2im == 0))

        def info():
            return "n1=%r n2=%r theta1=%r" % (
                np.asarray(N1).tolist(), np.asarray(N2).tolist(),
                np.asarray(TH).tolist())

        th2 = em.snell(N1, N2, TH)
        ctx.check(np.shape(th2) == shape, "shape/snell", lambda: (
            "%s: result shape %r" % (info(), np.shape(th2))))
        ctx.check(not np.iscomplexobj(th2), "snell/complex-result",
                  lambda: "%s: %r" % (info(), th2))
        th2 = np.broadcast_to(np.asarray(th2, float), shape)
        s1 = np.sin(th * D2R)
        y = n1 * s1 / n2re
        isnan = np.isnan(th2)
        sin2 = np.sin(ld(th2) * D2R)
        if all_real:
            beyond = y > 1 + 1e-13
            below = y < 1 - 1e-13
            ctx.check(np.all(isnan[beyond]), "snell/no-nan-beyond-critical",
                      lambda: "%s: theta2 = %r" % (info(), th2.tolist()))
            ctx.check(not np.any(isnan[below]), "snell/nan-below-critical",
                      lambda: "%s: theta2 = %r" % (info(), th2.tolist()))
            # NaN only *beyond* total reflection: for equal indices the
            # float64 quotient n1 sin(theta1) / n2 cannot exceed 1 (rounding
            # is monotone), so theta2 = theta1 up to and including 90 deg
            equal = np.asarray(n1 == n2re)
            if np.any(equal):
                ctx.label("equal-indices")
                if np.any(equal & np.asarray(th == 90)):
                    ctx.label("equal-indices-at-90")
            ctx.check(not np.any(isnan[equal]), "snell/nan-for-equal-indices",
                      lambda: "%s: theta2 = %r" % (info(), th2.tolist()))
            ctx.check(np.all(np.abs(th2 - th.astype(float))[equal & ~isnan]
                             <= 1e-6), "snell/equal-indices-angle",
                      lambda: "%s: theta2 = %r" % (info(), th2.tolist()))
            ok = ~isnan
            err = np.abs(n1 * s1 - n2re * sin2)[ok]
            lim = (1e-12 * (n1 + n2re))[ok]
            ctx.check(np.all(err <= lim), "snell/law", lambda: (
                "%s: theta2 = %r, |n1 sin(theta1) - n2 sin(theta2)| = %r"
                % (info(), th2.tolist(), err.astype(float).tolist())))
            ctx.check(np.all((th2[ok] >= 0) & (th2[ok] <= 90)),
                      "snell/range", lambda: "%s: %r" % (info(), th2.tolist()))
            if np.any(beyond):
                ctx.label("total-reflection")
            if np.any(~beyond & ~below):
                ctx.label("critical-angle-band")
            sref = np.minimum(y, 1)
            cond = np.ones(shape, dtype=LD)
        else:
            sref, nr2, cond = liou(n1, n2re, n2im, th)
            # Liou's sin(theta2) reaches 1 only in the limit Im n2 -> 0
            # beyond the critical angle; there the float64 quotient may
            # round above 1 (NaN) - the ambiguity band of the real case
            lim_case = np.asarray(sref > 1 - 1e-13 * cond)
            if np.any(lim_case):
                ctx.label("complex-limit-sin-1")
            ctx.check(not np.any(isnan & ~lim_case), "snell/nan-complex",
                      lambda: "%s: theta2 = %r" % (info(), th2.tolist()))
            ok = ~isnan
            err = np.abs(sin2 - sref)[ok]
            lim = (1e-12 * cond)[ok]
            ctx.check(np.all(err <= lim), "snell/liou", lambda: (
                "%s: theta2 = %r, sin(theta2) differs from Liou's formula by "
                "%r (tolerance %r)" % (info(), th2.tolist(),
                                       err.astype(float).tolist(),
                                       lim.astype(float).tolist())))
            beyond = np.zeros(shape, bool)

        # ---- Fresnel --------------------------------------------------
        Rv, Rh = em.fresnel(N1, N2, TH)
        ctx.check(np.shape(Rv) == shape and np.shape(Rh) == shape,
                  "shape/fresnel", lambda: "%s: %r %r" % (
                      info(), np.shape(Rv), np.shape(Rh)))
        Rv = np.broadcast_to(np.asarray(Rv), shape)
        Rh = np.broadcast_to(np.asarray(Rh), shape)
        av, ah = np.abs(Rv), np.abs(Rh)
        ctx.check(not (np.any(np.isnan(av)) or np.any(np.isnan(ah))),
                  "fresnel/nan", lambda: "%s: Rv=%r Rh=%r" % (
                      info(), Rv.tolist(), Rh.tolist()))
        ctx.check(np.all(av <= 1 + 1e-12) and np.all(ah <= 1 + 1e-12),
                  "fresnel/modulus-above-1", lambda: "%s: |Rv|=%r |Rh|=%r"
                  % (info(), av.tolist(), ah.tolist()))
        normal = np.asarray(th == 0)
        ctx.check(np.all(np.abs(av - ah)[normal] <= 1e-12),
                  "fresnel/normal-incidence", lambda: "%s: |Rv|=%r |Rh|=%r"
                  % (info(), av.tolist(), ah.tolist()))
        if np.any(normal):
            ctx.label("normal-incidence")
        if np.any(th == 90):
            ctx.label("grazing")
        ctx.check(np.all(np.abs(av - 1)[beyond] <= 1e-12)
                  and np.all(np.abs(ah - 1)[beyond] <= 1e-12),
                  "fresnel/total-reflection-not-1", lambda: (
                      "%s: Rv=%r Rh=%r" % (info(), Rv.tolist(), Rh.tolist())))
        # reference (Rees 3.31 with the refraction angle of snell) where the
        # transmitted cosine is well conditioned
        c1 = np.cos(th * D2R)
        c2 = np.sqrt(np.maximum(1 - sref * sref, 0))
        good = (c2 >= 1e-3) & ~beyond
        n2c = n2re.astype(CLD) + 1j * n2im.astype(CLD)
        with np.errstate(all="ignore"):
            rv = (n2c * c1 - n1 * c2) / (n2c * c1 + n1 * c2)
            rh = (n1 * c1 - n2c * c2) / (n1 * c1 + n2c * c2)
        scale = (1e-11 * cond * (1 + np.abs(n2c) / n1))
        ev = np.abs(Rv.astype(CLD) - rv)
        eh = np.abs(Rh.astype(CLD) - rh)
        # sensitivity of R to the transmitted cosine
        with np.errstate(all="ignore"):
            sv = 2 * n1 * np.abs(n2c) * c1 / np.abs(n2c * c1 + n1 * c2) ** 2
            sh = 2 * n1 * np.abs(n2c) * c1 / np.abs(n1 * c1 + n2c * c2) ** 2
        ctx.check(np.all(ev[good] <= (scale * (1 + sv))[good])
                  and np.all(eh[good] <= (scale * (1 + sh))[good]),
                  "reference/fresnel", lambda: (
                      "%s: Rv=%r Rh=%r, expected %r %r" % (
                          info(), Rv.tolist(), Rh.tolist(),
                          rv.astype(complex).tolist(),
                          rh.astype(complex).tolist())))
        return all_real, n1, n2re

    def brewster(N1, N2):
        """Rv = 0 at atan(n2/n1) for real n2"""
        n1, n2 = np.broadcast_arrays(ld(np.real(N1)), ld(np.real(N2)))
        thb = (np.arctan(n2 / n1) / D2R).astype(float)
        thb = thb if thb.shape else float(thb)
        Rv, Rh = em.fresnel(N1, N2, thb)
        ctx.check(np.all(np.abs(Rv) <= 1e-12), "fresnel/brewster", lambda: (
            "n1=%r n2=%r theta_B=%r: Rv=%r" % (
                np.asarray(N1).tolist(), np.asarray(N2).tolist(),
                np.asarray(thb).tolist(), np.asarray(Rv).tolist())))
        rh = ((n1 * n1 - n2 * n2) / (n1 * n1 + n2 * n2)).astype(float)
        ctx.check(np.all(np.abs(Rh - rh) <= 1e-12), "fresnel/brewster-rh",
                  lambda: "n1=%r n2=%r theta_B=%r: Rh=%r, expected "
                  "(n1^2-n2^2)/(n1^2+n2^2)=%r" % (
                      np.asarray(N1).tolist(), np.asarray(N2).tolist(),
                      np.asarray(thb).tolist(), np.asarray(Rh).tolist(),
                      rh.tolist()))
        ctx.label("brewster")

    dt = complex if cplx else float
    if cplx:
        ctx.label("complex-n2")
    if kind in ("scalar", "0d"):
        for i in range(len(case["theta"])):
            st_ = "0d" if kind == "0d" else ("py", "np")[i % 2]
            N1 = _mk([case["n1"][i]], [], st_)
            N2 = _mk([n2vals[i]], [], st_, dtype=dt)
            TH = _mk([case["theta"][i]], [], st_)
            all_real, _, _ = run(N1, N2, TH)
            if all_real:
                brewster(N1, N2)
        ctx.nontrivial = bool(cplx or "total-reflection" in ctx.labels)
    else:
        N1 = _mk(case["n1"], shapes["n1"])
        N2 = _mk(n2vals, shapes["n2"], dtype=dt)
        TH = _mk(case["theta"], shapes["theta"])
        all_real, _, _ = run(N1, N2, TH)
        if all_real:
            brewster(N1, N2)
        ctx.nontrivial = True


@st.composite
def optics_point(draw, n2type):
    n1 = draw(st.one_of(st.floats(1.0, 5.0),
                        st.sampled_from([1.0, 1.5, 1.33, 5.0, 2.0])))
    n2 = draw(st.one_of(st.floats(0.2, 10.0), st.floats(0.2, 1.0),
                        st.sampled_from([1.0, 1.5, 0.2, 10.0, 1.33])))
    mode = draw(st.sampled_from(["free", "free", "normal", "grazing",
                                 "critical", "beyond", "brewster", "equal",
                                 "equal-grazing", "equal-normal"]))
    if mode.startswith("equal"):
        n2 = n1
    if mode in ("critical", "beyond") and n2 >= n1:
        n2 = max(0.2, n1 * draw(st.floats(0.05, 0.999)))
    thc = float(np.degrees(np.arcsin(min(n2 / n1, 1.0))))
    if mode in ("normal", "equal-normal"):
        th = 0.0
    elif mode in ("grazing", "equal-grazing"):
        th = 90.0
    elif mode == "critical":
        th = min(max(thc + draw(st.one_of(
            st.floats(-1e-3, 1e-3), st.floats(-1e-9, 1e-9),
            st.just(0.0))), 0.0), 90.0)
    elif mode == "beyond":
        th = thc + draw(st.floats(0.0, 1.0)) * (90.0 - thc)
    elif mode == "brewster":
        th = float(np.degrees(np.arctan(n2 / n1)))
    else:
        th = draw(st.one_of(st.floats(0.0, 90.0), _logu(1e-9, 90.0)))
    im = 0.0
    if n2type == "complex":
        im = draw(st.one_of(_logu(1e-12, 10.0), st.floats(0.0, 10.0),
                            st.sampled_from([0.0, 0.0, 1e-3, 1.0, 10.0])))
    return [n1, n2, im, th]


@st.composite
def optics_cases(draw):
    kind = draw(st.sampled_from(["scalar", "scalar", "0d", "1d", "1d", "2d",
                                 "bcast"]))
    n2type = draw(st.sampled_from(["real", "real", "complex", "complex",
                                   "complex-zero-imag"]))
    if kind in ("scalar", "0d"):
        n, shp = draw(st.integers(1, 6)), []
    elif kind == "1d":
        n = draw(st.one_of(st.integers(1, 8), st.integers(1, 30)))
        shp = [n]
    elif kind == "2d":
        a, b = draw(st.integers(1, 4)), draw(st.integers(1, 5))
        n, shp = a * b, [a, b]
    else:
        a, b = draw(st.integers(1, 4)), draw(st.integers(1, 5))
        opts = [[], [a, 1], [1, b], [b], [a, b]]
        shapes = {nm: draw(st.sampled_from(opts))
                  for nm in ("n1", "n2", "theta")}
        sizes = {nm: int(np.prod(s)) if s else 1 for nm, s in shapes.items()}
        n = max(sizes.values())
        pts = draw(st.lists(optics_point(n2type), min_size=n, max_size=n))
        return {"kind": kind, "n2type": n2type, "shapes": shapes,
                "n1": [p[0] for p in pts][:sizes["n1"]],
                "n2re": [p[1] for p in pts][:sizes["n2"]],
                "n2im": [p[2] for p in pts][:sizes["n2"]],
                "theta": [p[3] for p in pts][:sizes["theta"]]}
    pts = draw(st.lists(optics_point(n2type), min_size=n, max_size=n))
    return {"kind": kind, "n2type": n2type,
            "shapes": {"n1": shp, "n2": shp, "theta": shp},
            "n1": [p[0] for p in pts], "n2re": [p[1] for p in pts],
            "n2im": [p[2] for p in pts], "theta": [p[3] for p in pts]}


def suites(tier):
    return [
        Suite("planck", check_planck, strategy=planck_cases(),
              examples={"quick": 1500, "thorough": 12000}),
        Suite("spectra", check_spectra, strategy=spectra_cases(),
              examples={"quick": 500, "thorough": 4000}),
        Suite("optics", check_optics, strategy=optics_cases(),
              examples={"quick": 1500, "thorough": 12000}),
    ]
