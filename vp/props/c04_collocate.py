"""C04 - Collocator.collocate finds exactly the pairs within distance and
interval.

Oracle: brute force over all (i, j): positions valid, both times inside
[start, end], |dt| < max_interval, long-double chord <= max_distance
(vp/oracle/sphere.py; ambiguity band of DESIGN.md).  Pairs are identified by
the ``id`` variable the harness lets ride along.
"""
import contextlib
import datetime as dt
import io
import math

import numpy as np
from hypothesis import strategies as st

from vp.runner import Suite
from vp.gen import points as P
from vp.oracle import sphere as S

UNITS, UNIT_CLASS = P.UNITS, P.UNIT_CLASS
radius_km_exact, radius_argument = P.radius_km_exact, P.radius_argument

PROP_ID = "C04"
LEVEL = "exploration"
QUICK_SHARDS = 4
RULE = (
    "Hypothesis draws two point sets from shared clusters (centres anywhere "
    "with extra weight on poles / date line / equator; members at {0, 1/2, "
    "1-1e-3, 1+1e-3, 3} x max_distance chord from the centre; times = cluster "
    "time + {0, M-1, M, M+1, 3M} s; unsorted, duplicates, NaN positions, "
    "single points; optional millisecond parts), a layout per set (labelled "
    "dimension with unique labels in arbitrary order, time as dimension, scan "
    "line x scan position grid), max_distance 1 m .. 2000 km as number or "
    "unit string, max_interval 1 s .. 3 h as int / float / NumPy scalar / string / "
    "timedelta or None (spatial search only), start / end from {None, a point "
    "time, between point times} as datetime or string, tuning parameters and "
    "the shuffle rule of the spatial index; every case is re-run under drawn "
    "variants (other tuning / spelling / names, swapped roles).  A second "
    "suite tiles the sets to > 10^6 candidate pairs (temporal pre-binning); a "
    "third replays generated histories of calls on one Collocator over a pool "
    "of data sets (repeated, swapped, slightly displaced copies, sizes that "
    "flip the build side); a fourth keeps the SAME xarray.Dataset objects "
    "over the history and overwrites their lat / lon / time arrays in place "
    "between the calls (many purely spatial calls without window, mostly "
    "NaN-free sets), the oracle following the current values.  Every call "
    "also asserts that collocate leaves its input datasets unchanged.  "
    "Oracle = long-double brute force.  Non-trivial = "
    "at least one expected pair and one non-pair within 3x of a threshold "
    "(distance in (r, 3r] or |dt| in [M, 3M]).  Distinct = distinct case hash."
)
ASSUMPTIONS = [
    "datasets carry unique coordinate labels on the shared dimension "
    "(documented precondition; without labels xarray selects by position)",
    "times are datetime64 without NaT; lat in [-90, 90], lon in [-180, 180] or "
    "NaN",
    "max_interval is a whole number of seconds (sub-second intervals compare "
    "truncated seconds by design); times may carry milliseconds, the stored "
    "interval is then floor(|dt|)",
    "the sphere is the one of typhon.constants.earth_radius; pairs whose "
    "chord is within 1e-9*r + 1e-7 km of max_distance may be reported or not",
    "calls with max_interval=None (spatial search only) and a start / end "
    "window are generated rarely (label spatial-only-window); a result that "
    "equals the search without window gets its own signature "
    "(spatial-only/window-ignored, a defect repaired by 8f492ce)",
]

BASE = dt.datetime(2018, 3, 1, 12, 0, 0)


# --------------------------------------------------------------------------
# world building
# --------------------------------------------------------------------------
def times_of(pset):
    return np.datetime64(BASE, "ns") + np.array(
        pset["t_ms"], dtype="int64") * np.timedelta64(1, "ms").astype(
            "timedelta64[ns]")


def payload_of(pset):
    ids = np.array(pset["id"], dtype=float)
    return np.stack([ids * 1.5, -ids], axis=1)


def overwrite_dataset(ds, pset, layout):
    """put the values of pset into the arrays of ds IN PLACE (same
    xarray.Dataset, same ndarray objects) - a caller updating its buffers"""
    lat, lon = P.to_arrays(pset)
    time = times_of(pset)
    ids = np.array(pset["id"], dtype="int64")
    pay = payload_of(pset)
    if layout["dim"] == "grid":
        w = layout["width"]
        nl = len(ids) // w
        new = {"time": time.reshape(nl, w)[:, 0], "lat": lat.reshape(nl, w),
               "lon": lon.reshape(nl, w), "id": ids.reshape(nl, w),
               "payload": pay.reshape(nl, w, 2)}
    else:
        new = {"time": time, "lat": lat, "lon": lon, "id": ids,
               "payload": pay}
    for name, val in new.items():
        arr = ds.variables[name].values
        if not isinstance(arr, np.ndarray) or arr.shape != val.shape \
                or not np.shares_memory(arr, ds.variables[name].values):
            raise RuntimeError("harness: cannot update %s in place" % name)
        arr[...] = val


def make_dataset(pset, layout):
    import xarray as xr
    lat, lon = P.to_arrays(pset)
    time = times_of(pset)
    ids = np.array(pset["id"], dtype="int64")
    pay = payload_of(pset)
    n = len(ids)
    kind = layout["dim"]
    if kind == "n":
        return xr.Dataset(
            {"time": ("n", time), "lat": ("n", lat), "lon": ("n", lon),
             "id": ("n", ids), "payload": (("n", "channel"), pay)},
            coords={"n": np.array(layout["labels"], dtype="int64")})
    if kind == "time":
        return xr.Dataset(
            {"lat": ("time", lat), "lon": ("time", lon), "id": ("time", ids),
             "payload": (("time", "channel"), pay)},
            coords={"time": time})
    if kind == "grid":
        w = layout["width"]
        nl = n // w
        coords = {"scnline": np.array(layout["labels"], dtype="int64")}
        if layout.get("pos_labels"):
            coords["scnpos"] = np.arange(w) * 2 + 1
        return xr.Dataset(
            {"time": ("scnline", time.reshape(nl, w)[:, 0]),
             "lat": (("scnline", "scnpos"), lat.reshape(nl, w)),
             "lon": (("scnline", "scnpos"), lon.reshape(nl, w)),
             "id": (("scnline", "scnpos"), ids.reshape(nl, w)),
             "payload": (("scnline", "scnpos", "channel"),
                         pay.reshape(nl, w, 2))},
            coords=coords)
    raise ValueError(kind)


def interval_argument(spec):
    if spec is None:
        return None
    s = spec["seconds"]
    how = spec["as"]
    if how == "int":
        return int(s)
    if how == "float":
        return float(s)
    if how == "td":
        return dt.timedelta(seconds=s)
    if how.startswith("np."):
        # NumPy scalar (an element of an array, a file attribute)
        return getattr(np, how[3:])(s)
    if how == "pd.Timedelta":
        import pandas as pd
        return pd.Timedelta(seconds=s)
    if how in ("s", "seconds", "sec"):
        return "%d %s" % (s, how)
    if how in ("min", "minutes"):
        return "%d %s" % (s // 60, how)
    if how in ("h", "hours"):
        return "%d %s" % (s // 3600, how)
    raise ValueError(how)


def window_argument(spec):
    """spec = None or {"ms": offset from BASE, "as": "datetime"|"str"}"""
    if spec is None:
        return None
    t = BASE + dt.timedelta(milliseconds=spec["ms"])
    if spec["as"] == "str":
        return t.strftime("%Y-%m-%d %H:%M:%S")
    if spec["as"] == "iso":
        return t.isoformat()
    if spec["as"] == "iso-space":
        return t.isoformat(sep=" ")
    if spec["as"] == "np.datetime64":
        return np.datetime64(t, "ms")
    if spec["as"] == "pd.Timestamp":
        import pandas as pd
        return pd.Timestamp(t)
    return t


_PROBE = {}


def collocator_class():
    """Collocator subclass that records which code paths a call took (for
    labels only; behaviour is unchanged)."""
    if "cls" not in _PROBE:
        from typhon.collocations import Collocator

        class ProbeCollocator(Collocator):
            def __init__(self, *a, **kw):
                super().__init__(*a, **kw)
                self.seen = set()

            def spatial_search_with_temporal_binning(self, *a, **kw):
                self.seen.add("binned")
                return super().spatial_search_with_temporal_binning(*a, **kw)

            def _build_spatial_index(self, lat, lon):
                old = self.index
                new = super()._build_spatial_index(lat, lon)
                if old is not None and new is old:
                    self.seen.add("cache-hit")
                self.seen.add("build-primary" if self.index_with_primary
                              else "build-secondary")
                return new
        _PROBE["cls"] = ProbeCollocator
    return _PROBE["cls"]


# --------------------------------------------------------------------------
# oracle
# --------------------------------------------------------------------------
class Expected:
    pass


def expected_pairs(p1, p2, r_km, m_s, start_ms, end_ms, slack=0.0):
    """brute force -> Expected with must / may sets of (id1, id2) and the
    reference |dt| [ms] and chord [km] of every candidate"""
    lat1, lon1 = P.to_arrays(p1)
    lat2, lon2 = P.to_arrays(p2)
    t1 = np.array(p1["t_ms"], dtype="int64")
    t2 = np.array(p2["t_ms"], dtype="int64")
    ok1 = ~(np.isnan(lat1) | np.isnan(lon1))
    ok2 = ~(np.isnan(lat2) | np.isnan(lon2))
    if start_ms is not None:
        ok1 &= t1 >= start_ms
        ok2 &= t2 >= start_ms
    if end_ms is not None:
        ok1 &= t1 <= end_ms
        ok2 &= t2 <= end_ms
    adt = np.abs(t1[:, None] - t2[None, :])
    cand = ok1[:, None] & ok2[None, :]
    if m_s is not None:
        cand_t = cand & (adt < m_s * 1000)
    else:
        cand_t = cand
    ii, jj = np.nonzero(cand_t)
    dist = S.distance_pairs(lat1[ii], lon1[ii], lat2[jj], lon2[jj], "chord")
    band = S.band_km(r_km) + S.LD(slack) * r_km
    must = dist < r_km - band
    may = dist <= r_km + band
    e = Expected()
    id1 = np.array(p1["id"])
    id2 = np.array(p2["id"])
    e.must = {(int(id1[i]), int(id2[j])) for i, j in zip(ii[must], jj[must])}
    e.may = {(int(id1[i]), int(id2[j])) for i, j in zip(ii[may], jj[may])}
    e.ref = {(int(id1[i]), int(id2[j])): (int(adt[i, j]), d)
             for i, j, d in zip(ii[may], jj[may], dist[may])}
    e.index1 = {int(v): k for k, v in enumerate(p1["id"])}
    e.index2 = {int(v): k for k, v in enumerate(p2["id"])}
    # non-pairs close to a threshold (for the non-triviality rule)
    near = False
    if len(dist):
        near = bool(np.any((dist > r_km + band) & (dist <= 3 * r_km)))
    if not near and m_s is not None:
        lo, hi = m_s * 1000, 3 * m_s * 1000
        tnear = cand & (adt >= lo) & (adt <= hi)
        near = bool(tnear.any())
    e.near_miss = near
    e.straddle_r = bool(len(dist) and np.any(
        np.abs(dist - r_km) <= S.LD(2e-3) * r_km))
    e.straddle_m = bool(m_s is not None and np.any(
        cand & (np.abs(adt - m_s * 1000) <= 1000)))
    e.window_cut = bool((start_ms is not None or end_ms is not None) and (
        np.count_nonzero(ok1) < np.count_nonzero(
            ~(np.isnan(lat1) | np.isnan(lon1)))
        or np.count_nonzero(ok2) < np.count_nonzero(
            ~(np.isnan(lat2) | np.isnan(lon2)))))
    return e


def transposed(e):
    t = Expected()
    t.must = {(b, a) for a, b in e.must}
    t.may = {(b, a) for a, b in e.may}
    t.ref = {(b, a): v for (a, b), v in e.ref.items()}
    t.index1, t.index2 = e.index2, e.index1
    t.near_miss, t.straddle_r, t.straddle_m = (e.near_miss, e.straddle_r,
                                               e.straddle_m)
    t.window_cut = e.window_cut
    return t


# --------------------------------------------------------------------------
# one call and its comparison
# --------------------------------------------------------------------------
def call_collocate(collocator, sets, layouts, call, datasets=None):
    """one collocate() call described by plain data; datasets = the (live)
    xarray objects to pass, default: fresh ones"""
    a, b = call["primary"], call["secondary"]
    if datasets is None:
        d1 = make_dataset(sets[a], layouts[a])
        d2 = make_dataset(sets[b], layouts[b])
    else:
        d1, d2 = datasets
    names = call.get("names")
    arg1 = (names[0], d1) if names else d1
    arg2 = (names[1], d2) if names else d2
    if names and call.get("names_as") == "list":
        arg1, arg2 = list(arg1), list(arg2)
    kwargs = {}
    if call["max_interval"] is not None:
        kwargs["max_interval"] = interval_argument(call["max_interval"])
    kwargs["max_distance"] = radius_argument(call["max_distance"])
    for key in ("bin_factor", "magnitude_factor", "leaf_size"):
        if call["tuning"].get(key) is not None:
            kwargs[key] = call["tuning"][key]
    if call.get("start") is not None:
        kwargs["start"] = window_argument(call["start"])
    if call.get("end") is not None:
        kwargs["end"] = window_argument(call["end"])
    with P.PinnedShuffle(call["shuffle"]), \
            contextlib.redirect_stdout(io.StringIO()):
        result = collocator.collocate(arg1, arg2, **kwargs)
    return result, (names or ["primary", "secondary"])


def pair_ids(result, names):
    """set of (id1, id2) of a result, empty for None; no validation"""
    if result is None:
        return set()
    try:
        pairs = np.asarray(result["Collocations/pairs"].values)
        ids1 = np.asarray(result[names[0] + "/id"].values)
        ids2 = np.asarray(result[names[1] + "/id"].values)
        return {(int(ids1[a]), int(ids2[b]))
                for a, b in zip(pairs[0], pairs[1])}
    except (KeyError, IndexError, TypeError, ValueError):
        return set()


def compare(ctx, result, names, exp, sets, call, describe):
    p1, p2 = sets[call["primary"]], sets[call["secondary"]]
    if result is None:
        ctx.check(not exp.must, "result/none-but-pairs-exist", lambda: (
            "collocate returned None, expected pairs (id1, id2): %r\n%s"
            % (sorted(exp.must)[:10], describe())))
        return
    import xarray as xr
    ctx.check(isinstance(result, xr.Dataset), "result/type", lambda: (
        "collocate returned %r\n%s" % (type(result), describe())))
    if not isinstance(result, xr.Dataset):
        return
    pairs = np.asarray(result["Collocations/pairs"].values)
    ok = pairs.ndim == 2 and pairs.shape[0] == 2 and pairs.shape[1] >= 1 \
        and np.issubdtype(pairs.dtype, np.integer)
    ctx.check(ok, "pairs/shape", lambda: (
        "Collocations/pairs has shape %r dtype %r\n%s"
        % (pairs.shape, pairs.dtype, describe())))
    if not ok:
        return
    ids1 = np.asarray(result[names[0] + "/id"].values)
    ids2 = np.asarray(result[names[1] + "/id"].values)
    ok = ids1.ndim == 1 and ids2.ndim == 1 \
        and pairs[0].min() >= 0 and pairs[0].max() < ids1.size \
        and pairs[1].min() >= 0 and pairs[1].max() < ids2.size
    ctx.check(ok, "pairs/index-out-of-range", lambda: (
        "pairs %r do not index the %d / %d stored points\n%s"
        % (pairs.tolist()[:2], ids1.size, ids2.size, describe())))
    if not ok:
        return
    got = [(int(ids1[a]), int(ids2[b])) for a, b in zip(pairs[0], pairs[1])]
    gset = set(got)
    ctx.check(len(gset) == len(got), "pairs/duplicates", lambda: (
        "%d pairs, %d distinct\n%s" % (len(got), len(gset), describe())))
    missing = sorted(exp.must - gset)
    extra = sorted(gset - exp.may)
    ctx.check(not missing and not extra, "pairs/wrong-set", lambda: (
        "missing (id1, id2) %r, unexpected %r (got %d pairs)\n%s"
        % (missing[:8], extra[:8], len(got), describe())))
    if missing or extra:
        return

    # interval and distance pair by pair
    interval = np.asarray(result["Collocations/interval"].values)
    distance = np.asarray(result["Collocations/distance"].values)
    ok = interval.shape == (len(got),) and distance.shape == (len(got),) \
        and np.issubdtype(interval.dtype, np.timedelta64)
    ctx.check(ok, "metadata/shape", lambda: (
        "interval %r %r / distance %r for %d pairs\n%s" % (
            interval.shape, interval.dtype, distance.shape, len(got),
            describe())))
    if not ok:
        return
    iv_ns = interval.astype("timedelta64[ns]").astype("int64")
    want_s = np.array([exp.ref[p][0] // 1000 for p in got], dtype="int64")
    badi = np.nonzero(iv_ns != want_s * 10 ** 9)[0]
    ctx.check(badi.size == 0, "interval/wrong-value", lambda: (
        "pair %r: interval %r, |dt| = %d ms\n%s" % (
            got[badi[0]], interval[badi[0]], exp.ref[got[badi[0]]][0],
            describe())))
    want_d = np.array([exp.ref[p][1] for p in got], dtype=S.LD)
    tol = S.value_tol_km(want_d)
    err = np.abs(distance.astype(S.LD) - want_d)
    badd = np.nonzero(~(err <= tol))[0]
    ctx.check(badd.size == 0, "distance/wrong-value", lambda: (
        "pair %r: distance %.12g km, chord %.12g km\n%s" % (
            got[badd[0]], float(distance[badd[0]]), float(want_d[badd[0]]),
            describe())))

    # every other variable of a stored point equals the original
    for name, pset, index, ids in ((names[0], p1, exp.index1, ids1),
                                   (names[1], p2, exp.index2, ids2)):
        lat, lon = P.to_arrays(pset)
        time = times_of(pset)
        pay = payload_of(pset)
        src = np.array([index[int(i)] for i in ids], dtype=int)
        for var, orig in (("lat", lat), ("lon", lon), ("time", time),
                          ("payload", pay)):
            key = name + "/" + var
            ctx.check(key in result.variables, "stored/variable-missing",
                      lambda: "%s not in result\n%s" % (key, describe()))
            if key not in result.variables:
                continue
            var_ = result[key]
            cdim = name + "/collocation"
            if cdim in var_.dims and var_.dims[0] != cdim:
                # stacking a grid moves the point dimension to the end;
                # the order of dimensions is not part of the property
                var_ = var_.transpose(cdim, ...)
            val = np.asarray(var_.values)
            want = orig[src]
            if var == "time":
                same = val.shape == want.shape and bool(np.all(
                    val.astype("datetime64[ns]") == want))
            else:
                same = val.shape == want.shape and bool(np.array_equal(
                    val, want))
            ctx.check(same, "stored/wrong-" + var, lambda: (
                "%s = %r, original points (by id) have %r\n%s" % (
                    key, val.tolist()[:6], want.tolist()[:6], describe())))


def thresholds(call):
    r_km = radius_km_exact(call["max_distance"])
    m_s = None if call["max_interval"] is None else \
        call["max_interval"]["seconds"]
    start = None if call.get("start") is None else call["start"]["ms"]
    end = None if call.get("end") is None else call["end"]["ms"]
    return r_km, m_s, start, end


def run_calls(case, ctx, calls, fresh):
    """fresh=True: every call on a new Collocator; else one shared object"""
    sets, layouts = case["sets"], case["layouts"]
    cache = {}
    shared = None if fresh else collocator_class()()
    prev_build = None
    # "families" (in-place histories): the sets of one family are successive
    # states of ONE xarray.Dataset that lives as long as the history and is
    # overwritten in place when a call refers to another member
    families = case.get("families")
    live = {}

    def dataset_for(idx, other):
        if families is None:
            return make_dataset(sets[idx], layouts[idx])
        fam = families[idx]
        if other is not None and families[other] == fam and other != idx:
            # two different states of one object in one call: not possible
            return make_dataset(sets[idx], layouts[idx])
        if fam not in live:
            live[fam] = [make_dataset(sets[idx], layouts[idx]), idx]
        ent = live[fam]
        if ent[1] != idx:
            overwrite_dataset(ent[0], sets[idx], layouts[idx])
            ent[1] = idx
            ctx.label("inplace-update")
        else:
            ctx.label("same-object-again")
        return ent[0]
    for k, call in enumerate(calls):
        r_km, m_s, start, end = thresholds(call)
        slack = P.radius_rel_slack(call["max_distance"])
        key = (call["primary"], call["secondary"], float(r_km), m_s, start,
               end, slack)
        rkey = (call["secondary"], call["primary"], float(r_km), m_s, start,
                end, slack)
        if key not in cache:
            if rkey in cache:
                cache[key] = transposed(cache[rkey])
            else:
                cache[key] = expected_pairs(
                    sets[call["primary"]], sets[call["secondary"]], r_km, m_s,
                    start, end, slack)
        exp = cache[key]
        col = collocator_class()() if fresh else shared
        col.seen = set()

        def describe(call=call, k=k):
            return "call %d: %r\nprimary=%r\nsecondary=%r\nlayouts=%r" % (
                k, call, _brief(sets[call["primary"]]),
                _brief(sets[call["secondary"]]),
                [layouts[call["primary"]], layouts[call["secondary"]]])

        datasets = (dataset_for(call["primary"], None),
                    dataset_for(call["secondary"], call["primary"]))
        before = [d.copy(deep=True) for d in datasets]
        result, names = call_collocate(col, sets, layouts, call, datasets)
        for side, d, b4 in zip(("primary", "secondary"), datasets, before):
            ctx.check(d.identical(b4), "input/modified", lambda: (
                "collocate changed the %s dataset it was given:\nbefore: "
                "%r\nafter: %r\n%s" % (side, b4, d, describe())))
        if m_s is None and (start is not None or end is not None):
            # (formerly a defect: without max_interval the window was ignored)
            # The claim (exp) is tried first; if the result is instead what
            # the search without window gives, that is reported under its own
            # signature and the remaining checks use that reference.
            ctx.label("spatial-only-window")
            got = pair_ids(result, names)
            if not (exp.must <= got <= exp.may):
                nowin = expected_pairs(
                    sets[call["primary"]], sets[call["secondary"]], r_km,
                    None, None, None, slack)
                if nowin.must <= got <= nowin.may:
                    ctx.fail("spatial-only/window-ignored", (
                        "max_interval=None: pairs outside [start, end] are "
                        "reported: %r\n%s" % (sorted(got - exp.may)[:8],
                                              describe())))
                    exp = nowin
        compare(ctx, result, names, exp, sets, call, describe)
        label_call(ctx, call, exp, col, sets, layouts, k, prev_build)
        build = ("build-primary" in col.seen, "build-secondary" in col.seen)
        if any(build):
            prev_build = build
        if exp.must and exp.near_miss:
            ctx.nontrivial = True


def _brief(pset, limit=12):
    n = len(pset["id"])
    if n <= limit:
        return pset
    return {k: v[:limit] + ["... %d in total" % n] for k, v in pset.items()}


def label_call(ctx, call, exp, col, sets, layouts, k, prev_build):
    p1, p2 = sets[call["primary"]], sets[call["secondary"]]
    ctx.label(*sorted(col.seen - {"build-primary", "build-secondary"}))
    if prev_build is not None and "build-primary" in col.seen \
            and "build-secondary" not in col.seen and prev_build == (
                False, True):
        ctx.label("swap-build-side")
    if prev_build is not None and "build-secondary" in col.seen \
            and "build-primary" not in col.seen and prev_build == (
                True, False):
        ctx.label("swap-build-side")
    if len(exp.may) == 1 and len(exp.must) == 1:
        (a, b), = exp.must
        ctx.label("single-pair")
        if exp.index1[a] == 0 and exp.index2[b] == 0:
            ctx.label("only-00")
    if not exp.must and not exp.may:
        ctx.label("no-pairs")
    for (a, b) in list(exp.must)[:200]:
        la1, lo1 = p1["lat"][exp.index1[a]], p1["lon"][exp.index1[a]]
        la2, lo2 = p2["lat"][exp.index2[b]], p2["lon"][exp.index2[b]]
        if P.near_pole(la1) or P.near_pole(la2):
            ctx.label("pole")
        if P.crosses_dateline(lo1, lo2):
            ctx.label("dateline")
    if any(v is None for v in p1["lat"] + p1["lon"] + p2["lat"] + p2["lon"]):
        ctx.label("nan")
    for ps in (p1, p2):
        if all(a is None or b is None for a, b in zip(ps["lat"], ps["lon"])):
            ctx.label("all-nan-side")
    if exp.straddle_r:
        ctx.label("straddle-r")
    if exp.straddle_m:
        ctx.label("straddle-M")
    if exp.window_cut:
        ctx.label("window-cut")
    for edge in (call.get("start"), call.get("end")):
        if edge is not None:
            ctx.label("window-as-" + edge["as"])
    if len(p1["id"]) == 1 or len(p2["id"]) == 1:
        ctx.label("single-point")
    for key in (call["primary"], call["secondary"]):
        lay = layouts[key]
        ctx.label({"time": "time-as-dim", "grid": "gridded",
                   "n": None}[lay["dim"]])
    if any(t % 1000 for t in p1["t_ms"] + p2["t_ms"]):
        ctx.label("millisecond-times")
    if call["max_interval"] is None:
        ctx.label("spatial-only")
    else:
        ctx.label("interval-as-" + call["max_interval"]["as"])
    rad = call["max_distance"]
    if rad.get("np_type"):
        ctx.label("distance-np-" + rad["np_type"])
    if rad.get("fmt"):
        ctx.label("distance-spelling-" + rad["fmt"]["num"])
    ctx.label("distance-number" if rad["style"] == "number" else
              "distance-" + (UNIT_CLASS[rad["unit"]] if rad["unit"]
                             else "bare-string"))
    if call.get("names"):
        ctx.label("named")
    if call.get("swapped"):
        ctx.label("swapped-variant")
    t1 = p1["t_ms"]
    if any(t1[i] > t1[i + 1] for i in range(len(t1) - 1)):
        ctx.label("unsorted")
    if len(set(zip(p1["lat"], p1["lon"], p1["t_ms"]))) < len(t1):
        ctx.label("dup")


def check_direct(case, ctx):
    if case.get("binned_only00"):
        ctx.label("binned-only-00")
    calls = [case["call"]] + list(case.get("variants", []))
    run_calls(case, ctx, calls, fresh=True)


def check_history(case, ctx):
    ctx.label("history-%d-steps" % len(case["steps"]))
    run_calls(case, ctx, case["steps"], fresh=False)


# --------------------------------------------------------------------------
# strategies
# --------------------------------------------------------------------------
def distance_specs(r_nominal=None, lo=0.001, hi=2000.0):
    @st.composite
    def build(draw):
        if r_nominal is None:
            r = draw(st.one_of(
                st.floats(math.log10(lo), math.log10(hi)).map(
                    lambda e: 10.0 ** e),
                st.floats(math.log10(min(max(lo, 0.1), hi)),
                          math.log10(hi)).map(lambda e: 10.0 ** e),
                st.sampled_from([v for v in (0.001, 0.01, 0.1, 1.0, 5.0, 15.0,
                                             100.0, 300.0, 2000.0)
                                 if lo <= v <= hi]),
                st.integers(max(1, math.ceil(lo)), max(1, min(150, int(hi))))
                .map(float) if hi >= 1 else st.just(hi)))
        else:
            r = r_nominal
        style = draw(st.sampled_from(["number", "number", "space", "space",
                                      "nospace"]))
        if style == "number":
            unit = None
        else:
            unit = draw(st.one_of(
                st.sampled_from(["km", "m", "cm", "miles", "meters"]),
                st.sampled_from(sorted(UNITS)), st.none()))
        num, den = UNITS[unit or "km"]
        value = float("%.6g" % (r * den / num))
        as_int = style == "number" and value.is_integer() and draw(
            st.booleans())
        spec = {"value": value, "unit": unit, "style": style,
                "as_int": as_int}
        if style != "number":
            fmt = draw(P.text_formats())
            if fmt is not None:
                spec["fmt"] = fmt
        if style == "number" and draw(st.sampled_from([False, False, True])):
            # the number as NumPy scalar (same reference distance)
            spec["np_type"] = draw(st.sampled_from(
                sorted(P.np_scalar_types(value))))
        return spec
    return build()


@st.composite
def interval_specs(draw, seconds=None, allow_none=False):
    if allow_none and seconds is None and draw(
            st.sampled_from([False] * 11 + [True])):
        return None
    if seconds is None:
        seconds = draw(st.one_of(
            st.sampled_from([1, 2, 5, 30, 60, 300, 600, 3600, 7200]),
            st.integers(1, 10800)))
    hows = ["int", "int", "float", "td", "s", "seconds", "sec",
            "np.int64", "np.int32", "np.int16", "np.float64", "np.float32",
            "pd.Timedelta"]
    if seconds % 60 == 0:
        hows += ["min", "minutes"]
    if seconds % 3600 == 0:
        hows += ["h", "hours"]
    return {"seconds": seconds, "as": draw(st.sampled_from(hows))}


def tunings():
    return st.fixed_dictionaries({
        "bin_factor": st.sampled_from([None, 1, 2, 5]),
        "magnitude_factor": st.sampled_from([None, 1, 10, 100]),
        "leaf_size": st.sampled_from([None, 1, 2, 40, 100])})


@st.composite
def window_specs(draw, all_times, whole_seconds, loose=False):
    """(start, end) from {None, a point time, between point times};
    loose: a window is always given and its edges often lie outside all the
    data (start / end are set but cut nothing)"""
    def edge(low):
        if loose and draw(st.booleans()):
            k = draw(st.sampled_from([1, 1, 60, 86400])) * 1000
            t = all_times[0] - k if low else all_times[-1] + k
            return {"ms": t, "as": draw(st.sampled_from(
                ["datetime", "iso", "np.datetime64", "pd.Timestamp", "str"]))}
        t = draw(st.sampled_from(all_times))
        how = draw(st.sampled_from(["at", "at", "before", "after"]))
        if how == "before":
            t -= 500 if not whole_seconds or draw(st.booleans()) else 1000
        elif how == "after":
            t += 500 if not whole_seconds or draw(st.booleans()) else 1000
        as_ = draw(st.sampled_from(
            ["datetime", "datetime", "iso", "iso-space", "np.datetime64",
             "pd.Timestamp"] + (["str", "str"] if t % 1000 == 0 else [])))
        return {"ms": t, "as": as_}
    mode = draw(st.sampled_from(
        ["start", "end", "both", "both"] if loose else
        ["none", "none", "none", "start", "end", "both", "both"]))
    start = edge(True) if mode in ("start", "both") else None
    end = edge(False) if mode in ("end", "both") else None
    if start and end and start["ms"] > end["ms"] and draw(
            st.sampled_from([True, True, True, False])):
        start, end = end, start
    return start, end


@st.composite
def layouts_for(draw, pset, allow_grid, allow_time=True):
    """layout of one set; may rewrite the set (grid: one time per line,
    time-as-dim: unique times)"""
    n = len(pset["id"])
    kinds = ["n", "n", "n", "time"] if allow_time else ["n", "n"]
    if allow_grid and n >= 2:
        kinds += ["grid", "grid"]
    kind = draw(st.sampled_from(kinds))
    if kind == "time":
        seen, keep = set(), []
        for i, t in enumerate(pset["t_ms"]):
            if t not in seen:
                seen.add(t)
                keep.append(i)
        pset = {k: [v[i] for i in keep] for k, v in pset.items()}
        return pset, {"dim": "time"}
    if kind == "grid":
        w = draw(st.integers(1, min(n, 6)))
        nl = n // w
        pset = {k: v[:nl * w] for k, v in pset.items()}
        pset["t_ms"] = [pset["t_ms"][(i // w) * w] for i in range(nl * w)]
        labels = draw(P.permutations_of(nl))
        off = draw(st.integers(-3, 100))
        return pset, {"dim": "grid", "width": w,
                      "labels": [x + off for x in labels],
                      "pos_labels": draw(st.booleans())}
    labels = draw(P.permutations_of(n))
    off = draw(st.integers(-3, 100))
    return pset, {"dim": "n", "labels": [x + off for x in labels]}


@st.composite
def call_specs(draw, a, b, distance, interval, all_times, whole_seconds,
               window=True):
    start = end = None
    if window and interval is None and draw(st.booleans()):
        # spatial search only: the window alone selects the data, whatever
        # the time spans of the two datasets are
        start, end = draw(window_specs(all_times, whole_seconds, loose=True))
    elif window and interval is not None:
        start, end = draw(window_specs(all_times, whole_seconds))
    names = draw(st.sampled_from([None, None, ["A", "B"], ["sat", "ground"]]))
    return {"primary": a, "secondary": b,
            "max_distance": distance, "max_interval": interval,
            "start": start, "end": end,
            "tuning": draw(tunings()),
            "names": names,
            "names_as": draw(st.sampled_from(["tuple", "list"])),
            "shuffle": draw(P.shuffle_rules())}


@st.composite
def variant_of(draw, call):
    """same data and thresholds, other tuning / spelling / names / roles"""
    v = dict(call)
    v["tuning"] = draw(tunings())
    v["shuffle"] = draw(P.shuffle_rules())
    if draw(st.booleans()):
        # another spelling of exactly the same distance is not always
        # possible (decimal <-> unit factor); a re-spelt distance is its own
        # threshold, the oracle follows the spelling
        v["max_distance"] = draw(distance_specs(
            float(radius_km_exact(call["max_distance"]))))
    if call["max_interval"] is not None and draw(st.booleans()):
        v["max_interval"] = draw(interval_specs(
            call["max_interval"]["seconds"]))
    v["names"] = draw(st.sampled_from([None, ["A", "B"]]))
    if draw(st.sampled_from([False, False, True])):
        v["primary"], v["secondary"] = call["secondary"], call["primary"]
        v["swapped"] = True
    return v


@st.composite
def direct_cases(draw, allow_grid=True):
    distance = draw(distance_specs())
    r_km = float(radius_km_exact(distance))
    interval = draw(interval_specs(allow_none=True))
    m_s = None if interval is None else interval["seconds"]
    sub_second = draw(st.sampled_from([False] * 5 + [True]))
    big = draw(st.sampled_from([False] * 6 + [True]))
    tile = {"copies": (2, 8)} if big else None
    sizes = draw(st.sampled_from(
        [[(2, 25), (2, 25)]] * 8 + [
            [(1, 3), (1, 25)], [(1, 25), (1, 3)], [(1, 1), (1, 12)],
            [(1, 12), (1, 1)]]))
    cloud = draw(P.clouds(r_km, m_s if m_s is not None else 60, n_sets=2,
                          metric="chord", allow_nan=True,
                          sub_second=sub_second, tile=tile, sizes=sizes,
                          allow_far=False))
    sets, layouts = [], []
    for pset in cloud["sets"]:
        pset, lay = draw(layouts_for(pset, allow_grid))
        sets.append(pset)
        layouts.append(lay)
    all_times = sorted(set(sets[0]["t_ms"] + sets[1]["t_ms"]))
    call = draw(call_specs(0, 1, distance, interval, all_times,
                           not sub_second))
    nvar = draw(st.integers(0, 2))
    variants = [draw(variant_of(call)) for _ in range(nvar)]
    return {"sets": sets, "layouts": layouts, "call": call,
            "variants": variants}


@st.composite
def binned_cases(draw):
    distance = draw(distance_specs(lo=0.5, hi=300.0))
    r_km = float(radius_km_exact(distance))
    interval = draw(interval_specs())
    m_s = interval["seconds"]
    cloud = draw(P.clouds(r_km, m_s, n_sets=2, metric="chord",
                          allow_nan=True, tile={"copies": (42, 52), "sparse": True},
                          sizes=[(28, 34), (28, 34)], max_clusters=4))
    sets, layouts = [], []
    for pset in cloud["sets"]:
        n = len(pset["id"])
        labels = draw(P.permutations_of(n))
        sets.append(pset)
        layouts.append({"dim": "n", "labels": labels})
    all_times = sorted(set(sets[0]["t_ms"] + sets[1]["t_ms"]))
    call = draw(call_specs(0, 1, distance, interval, all_times, True,
                           window=draw(st.sampled_from([False, False,
                                                        True]))))
    variants = [draw(variant_of(call))] if draw(st.booleans()) else []
    return {"sets": sets, "layouts": layouts, "call": call,
            "variants": variants}


@st.composite
def binned_only00_cases(draw):
    """> 10^6 candidate pairs whose ONLY collocation is (first primary,
    first secondary) in time order: one close pair at the earliest times,
    everything else far apart in space (but close in time, so that the bins
    are searched)"""
    distance = draw(distance_specs(lo=0.5, hi=300.0))
    r_km = float(radius_km_exact(distance))
    interval = draw(interval_specs())
    m_s = interval["seconds"]
    n1 = draw(st.integers(1001, 1080))
    n2 = draw(st.integers(1000, 1080))
    if draw(st.booleans()):
        n1, n2 = n2 + 1, n1
    lat0 = draw(st.floats(-10.0, 10.0))
    lon0 = draw(P.longitudes())
    f = draw(st.sampled_from([0.0, 0.5, 1.0 - 1e-3]))
    la2, lo2 = S.destination(lat0, lon0, draw(st.sampled_from(P.BEARINGS)),
                             P._angle_for(f * r_km, "chord"))
    step = max(m_s // draw(st.sampled_from([2, 4])), 1)
    dt0 = draw(st.integers(0, max(m_s - 1, 0)))
    sets, layouts = [], []
    next_id = 0
    for k, (n, first, band) in enumerate((
            (n1, (lat0, lon0, 0), 50.0), (n2, (la2, lo2, dt0), -50.0))):
        lat, lon, t_ms = [first[0]], [first[1]], [first[2] * 1000]
        for i in range(1, n):
            lat.append(band + (i % 7))
            lon.append(((i * 0.37 + 180.0) % 360.0) - 180.0)
            t_ms.append((m_s + i * step) * 1000)
        # arbitrary order in the arrays
        perm = draw(P.permutations_of(n))
        sets.append({"lat": [lat[i] for i in perm],
                     "lon": [lon[i] for i in perm],
                     "t_ms": [t_ms[i] for i in perm],
                     "id": [next_id + i for i in perm]})
        next_id += n
        layouts.append({"dim": "n", "labels": draw(P.permutations_of(n))})
    all_times = sorted(set(sets[0]["t_ms"] + sets[1]["t_ms"]))
    call = draw(call_specs(0, 1, distance, interval, all_times, True,
                           window=False))
    return {"sets": sets, "layouts": layouts, "call": call, "variants": [],
            "binned_only00": True}


@st.composite
def history_cases(draw):
    # "jitter": thresholds of metres and copies displaced by about the
    # threshold - the cached spatial index of the original must not serve
    # the copy although the coordinates agree to 1e-5
    jitter = draw(st.sampled_from([False, False, True]))
    distance = draw(distance_specs(lo=0.001, hi=0.05) if jitter
                    else distance_specs())
    r_km = float(radius_km_exact(distance))
    interval = draw(interval_specs())
    m_s = interval["seconds"]
    n_base = draw(st.integers(2, 3))
    shapes = [(1, 1), (1, 4), (2, 12), (8, 30), (30, 60)]
    sizes = [draw(st.sampled_from(shapes)) for _ in range(n_base)]
    cloud = draw(P.clouds(r_km, m_s, n_sets=n_base, metric="chord",
                          allow_nan=draw(st.booleans()), sizes=sizes))
    sets = list(cloud["sets"])
    # derived sets: slightly displaced copies (what a cached index must not
    # be reused for) and exact copies under new ids
    n_der = draw(st.integers(1, 2))
    derived_from = []
    for d in range(n_der):
        src = draw(st.integers(0, n_base - 1))
        derived_from.append(src)
        f = draw(st.sampled_from([0.5, 1.0 + 1e-3, 3.0] if jitter else
                                 [0.0, 0.5, 1.0 - 1e-3, 1.0 + 1e-3, 3.0]))
        bearing = draw(st.sampled_from(P.BEARINGS + [45.0]))
        sets.append(P.shifted(sets[src], f * r_km, bearing,
                              10000 * (d + 1)))
    layouts = []
    plain_layout = draw(st.booleans())
    for k, pset in enumerate(sets):
        if plain_layout:
            labels = draw(P.permutations_of(len(pset["id"])))
            layouts.append({"dim": "n", "labels": labels})
        else:
            sets[k], lay = draw(layouts_for(pset, True))
            layouts.append(lay)
    all_times = sorted({t for s in sets for t in s["t_ms"]})
    steps = []
    nsteps = draw(st.integers(2, 6))
    prev = None
    for _ in range(nsteps):
        mode = draw(st.sampled_from(["any", "any", "same", "swap",
                                     "keep-primary", "keep-secondary",
                                     "displaced", "displaced"]))
        if prev is not None and mode == "displaced":
            # replace one side by its displaced copy / its original
            twins = {}
            for d in range(n_der):
                twins.setdefault(derived_from[d], []).append(n_base + d)
                twins.setdefault(n_base + d, []).append(derived_from[d])
            a, b = prev
            if a in twins and (b not in twins or draw(st.booleans())):
                a = draw(st.sampled_from(twins[a]))
            elif b in twins:
                b = draw(st.sampled_from(twins[b]))
        elif prev is None or mode in ("any", "displaced"):
            a = draw(st.integers(0, len(sets) - 1))
            b = draw(st.integers(0, len(sets) - 1))
        elif mode == "same":
            a, b = prev
        elif mode == "swap":
            b, a = prev
        elif mode == "keep-primary":
            a, b = prev[0], draw(st.integers(0, len(sets) - 1))
        else:
            a, b = draw(st.integers(0, len(sets) - 1)), prev[1]
        prev = (a, b)
        step = draw(call_specs(a, b, distance, interval, all_times, True,
                               window=draw(st.sampled_from(
                                   [False, False, False, True]))))
        if draw(st.sampled_from([False, False, False, True])):
            step["max_distance"] = draw(distance_specs())
        steps.append(step)
    return {"sets": sets, "layouts": layouts, "steps": steps}


@st.composite
def inplace_history_cases(draw):
    """histories in which the caller keeps its xarray.Dataset objects and
    overwrites lat / lon / time in place between the calls (drifting
    platforms): every family = one live dataset, its members = successive
    states.  Many calls are purely spatial without window (nothing in
    collocate copies the input then) and most sets have no NaN."""
    distance = draw(distance_specs(lo=0.01, hi=2000.0))
    r_km = float(radius_km_exact(distance))
    interval = draw(interval_specs())
    m_s = interval["seconds"]
    n_base = draw(st.integers(2, 3))
    shapes = [(1, 4), (2, 12), (2, 12), (8, 30), (30, 60)]
    sizes = [draw(st.sampled_from(shapes)) for _ in range(n_base)]
    cloud = draw(P.clouds(r_km, m_s, n_sets=n_base, metric="chord",
                          allow_nan=draw(st.sampled_from(
                              [False, False, False, True])), sizes=sizes))
    sets, layouts, families = [], [], []
    for k, pset in enumerate(cloud["sets"]):
        pset, lay = draw(layouts_for(pset, True, allow_time=False))
        sets.append(pset)
        layouts.append(lay)
        families.append(k)
    n_der = draw(st.integers(1, 3))
    for d in range(n_der):
        src = draw(st.integers(0, n_base - 1))
        f = draw(st.sampled_from([0.5, 1.0 - 1e-3, 1.0 + 1e-3, 3.0, 3.0]))
        bearing = draw(st.sampled_from(P.BEARINGS + [45.0]))
        new = P.shifted(sets[src], f * r_km, bearing, 0)
        dt_s = draw(st.sampled_from([0, 0, 0, m_s, -m_s, 1, 3 * m_s]))
        new["t_ms"] = [t + dt_s * 1000 for t in new["t_ms"]]
        sets.append(new)
        layouts.append(layouts[src])
        families.append(src)
    members = {}
    for idx, fam in enumerate(families):
        members.setdefault(fam, []).append(idx)
    all_times = sorted({t for s in sets for t in s["t_ms"]})
    steps = []
    a = draw(st.integers(0, len(sets) - 1))
    b = draw(st.integers(0, len(sets) - 1))
    spatial = draw(st.sampled_from([True, True, False]))
    for k in range(draw(st.integers(2, 6))):
        if k:
            mode = draw(st.sampled_from(["update", "update", "update",
                                         "same", "swap", "any"]))
            if mode == "update":
                # one side has been overwritten in place since the last call
                if len(members[families[a]]) > 1 and (
                        len(members[families[b]]) == 1 or draw(
                            st.booleans())):
                    a = draw(st.sampled_from(
                        [i for i in members[families[a]] if i != a]))
                elif len(members[families[b]]) > 1:
                    b = draw(st.sampled_from(
                        [i for i in members[families[b]] if i != b]))
            elif mode == "swap":
                a, b = b, a
            elif mode == "any":
                a = draw(st.integers(0, len(sets) - 1))
                b = draw(st.integers(0, len(sets) - 1))
            if draw(st.sampled_from([False] * 5 + [True])):
                spatial = not spatial
        step = draw(call_specs(
            a, b, distance, None if spatial else interval, all_times, True,
            window=draw(st.sampled_from([False, False, False, True]))
            and not spatial))
        steps.append(step)
    return {"sets": sets, "layouts": layouts, "families": families,
            "steps": steps}


def check_inplace_history(case, ctx):
    ctx.label("inplace-history")
    run_calls(case, ctx, case["steps"], fresh=False)


def suites(tier):
    return [
        Suite("direct", check_direct, strategy=direct_cases(),
              examples={"quick": 340, "thorough": 12000}),
        Suite("histories", check_history, strategy=history_cases(),
              examples={"quick": 75, "thorough": 2500}),
        Suite("binned", check_direct, strategy=st.one_of(
            binned_cases(), binned_cases(), binned_only00_cases()),
              examples={"quick": 8, "thorough": 150}),
        Suite("histories-inplace", check_inplace_history,
              strategy=inplace_history_cases(),
              examples={"quick": 45, "thorough": 1500}),
    ]
