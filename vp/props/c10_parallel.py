"""C10 - parallel map / imap / collect / icollect / align process each file once
and keep the file order, for every completion order of the tasks.

Schedules: typhon.files.fileset.ThreadPoolExecutor is replaced by the
deterministic pool of vp/gen/simpool.py whose completion order is a priority
permutation taken from the case (all permutations are enumerated for small
file counts).  Real thread and process pools are run as well, with generated
per-file delays.
"""
import datetime as dt
import io
import itertools
import os
import time
import warnings

from hypothesis import strategies as st

from vp.gen import filesets as G
from vp.gen import simpool
from vp.runner import Suite

PROP_ID = "C10"
LEVEL = "exploration"
QUICK_SHARDS = 4
RULE = (
    "A fileset of 1-8 tiny files is processed with map / imap / collect / "
    "icollect / align under a pool of 1-5 workers.  The completion order of "
    "the per-file tasks is owned by the harness: the thread pool is replaced "
    "by a deterministic pool that completes, among the tasks that a pool of W "
    "workers would be running, the one that comes first in the case's "
    "priority permutation; all permutations are enumerated for <= 4 files "
    "(quick) / <= 6 files (thorough) x worker counts x methods, larger cases "
    "are sampled by Hypothesis together with the options (files= vs period, "
    "bundles, on_content, pass_info, return_info, functions returning None, "
    "readers failing on a subset with/without error_to_warning, a failing "
    "function).  Real ThreadPoolExecutor / ProcessPoolExecutor runs with "
    "generated per-file delays sample true concurrency.  Oracle = sequential "
    "reference over the harness' file list (find order), read counter per "
    "file, in-flight bound submitted-consumed <= max_workers, exception "
    "type.  Non-trivial = completion order differs from submission order "
    "(owned schedules) / later files finish first (real pools).  Distinct = "
    "distinct case hash."
)
ASSUMPTIONS = [
    "the deterministic pool models ThreadPoolExecutor: FIFO start when a "
    "worker is free, arbitrary completion order, tasks atomic",
    "process schedules are biased by sleeps, not owned (sampled)",
]
GUARD_S = {"quick": 900, "thorough": 3 * 3600}

TEMPLATE = {
    "dirs": [[["ph", "year"]], [["ph", "month"]]],
    "file": [["lit", "f_"], ["ph", "year"], ["ph", "month"], ["ph", "day"],
             ["ph", "hour"], ["ph", "minute"], ["lit", "-"],
             ["ph", "end_hour"], ["ph", "end_minute"], ["lit", "_"],
             ["ph", "id"], ["lit", ".dat"]],
    "user": {"id": {"kind": "regex", "regex": r"\d+", "values": []}},
    "coverage_s": None,
}
BASE = dt.datetime(2018, 1, 31, 22, 0)


class ReadFailure(Exception):
    pass


class FuncFailure(Exception):
    pass


# --- module level (picklable) reader / function -----------------------------
def _log(path, text):
    fd = os.open(path, os.O_WRONLY | os.O_APPEND | os.O_CREAT)
    try:
        os.write(fd, (text + "\n").encode())
    finally:
        os.close(fd)


class Reader:
    """reads the id stored in a file, logs the access, may fail or sleep"""

    def __init__(self, log, fail=(), delays=None):
        self.log, self.fail, self.delays = log, set(fail), delays or {}

    def __call__(self, file_info, **kwargs):
        with open(file_info.path) as fh:
            fid = int(fh.read())
        _log(self.log, "read %d" % fid)
        d = self.delays.get(fid, 0)
        if d:
            time.sleep(d)
        if fid in self.fail:
            # exceptions come with all kinds of arguments (OSError(errno,
            # text), KeyError(4), none at all)
            raise ReadFailure(*[("cannot read file %d" % fid,), (fid,),
                                (2, "cannot read file", fid), ()][fid % 4])
        return fid


def apply(*args, none=(), fail=None, delays=None, log=None, tag="r"):
    """the mapped function: first argument is the content (an id or a list
    of ids) or a FileInfo"""
    lead = []
    while args and isinstance(args[0], str) and args[0].startswith("tag:"):
        lead.append(args[0])       # positional arguments given via args=
        args = args[1:]
    first = args[0]
    if hasattr(first, "attr"):
        key = int(first.attr["id"])
    elif isinstance(first, list):
        key = first[0] if first else -1
    else:
        key = first
    if log:
        _log(log, "func %d" % key)
    if delays and delays.get(key):
        time.sleep(delays[key])
    if key == fail:
        raise FuncFailure("function fails for %d" % key)
    if key in none:
        return None
    extra = [int(a.attr["id"]) if hasattr(a, "attr") else a for a in args[1:]]
    return [tag, first if not hasattr(first, "attr") else key] + extra + lead


def file_specs(n, gaps):
    specs, t = [], BASE
    for i in range(n):
        t = t + dt.timedelta(minutes=gaps[i % len(gaps)])
        s = t
        e = s + dt.timedelta(minutes=30)
        specs.append({"s": s, "e": e, "attrs": {"id": str(i)}, "wild": ""})
    return specs


def reference(case, ids, bundles):
    """sequential reference: list of ('ok', value) / ('exc', type) per task"""
    out = []
    on_content = case["on_content"] or case["method"] in ("collect",
                                                           "icollect")
    none, fail = set(case["none"]), case["fail_func"]
    for unit in (bundles if bundles is not None else [[i] for i in ids]):
        key = unit[0]
        if on_content:
            if any(i in case["fail_read"] for i in unit):
                if case["error_to_warning"]:
                    out.append(("ok", None, unit))
                else:
                    out.append(("exc", ReadFailure, unit))
                continue
            content = list(unit) if bundles is not None else key
            args = [content]
            if case["pass_info"] and bundles is None:
                args.append(key)
        else:
            args = [key]
            content = key
        if case["method"] in ("collect", "icollect"):
            out.append(("ok", content, unit))
            continue
        if key == fail:
            out.append(("exc", FuncFailure, unit))
        elif key in none:
            out.append(("ok", None, unit))
        else:
            out.append(("ok", ["r"] + args + list(case.get("args") or []),
                        unit))
    return out


def run_case(case, ctx, pool_kind):
    import typhon.files.fileset as FS
    from typhon.files import FileHandler, FileInfo, FileSet
    n = case["n"]
    method = case["method"]
    workers = case["workers"]
    with G.Sandbox() as box:
        root = box.mkdir("tree")
        log = os.path.join(box.root, "access.log")
        specs = file_specs(n, case["gaps"])
        template = TEMPLATE
        content = lambda f: f.attrs["id"].encode()
        if case.get("compress"):
            import gzip
            template = dict(TEMPLATE, file=TEMPLATE["file"][:-1]
                            + [["lit", ".dat.gz"]])
            content = lambda f: gzip.compress(f.attrs["id"].encode())
            ctx.label("compressed-files")
        pop = G.make_population(root, template, specs, content=content)
        order = sorted(pop.files, key=lambda f: (f.t0, f.t1))
        ids = [int(f.attrs["id"]) for f in order]
        by_id = {int(f.attrs["id"]): f for f in order}
        delays = {}
        if pool_kind != "sim":
            delays = {i: d / 1000.0 for i, d in enumerate(case["delays"])}
        reader = Reader(log, case["fail_read"], delays)
        via_default = bool(case.get("workers_via_default"))
        fileset = FileSet(pop.path, name="c10", placeholder={"id": r"\d+"},
                          handler=FileHandler(reader=reader),
                          max_threads=workers if via_default else 3,
                          max_processes=(workers if pool_kind == "process"
                                         else workers + 2)
                          if via_default else 2)
        if via_default:
            ctx.label("workers-from-fileset-default")
        # selection
        kwargs = {}
        bundles = None
        if case["select"] == "period":
            pass
        else:
            found = list(fileset.find())
            ctx.check([int(f.attr["id"]) for f in found] == ids,
                      "setup/find-order", "find() disagrees with the harness")
            if case["select"] == "files":
                subset = case.get("subset")
                if subset is not None:
                    pick = sorted({i % n for i in subset})
                    found = [found[i] for i in pick]
                    ids = [ids[i] for i in pick]
                    ctx.label("files-subset")
                    if not pick:
                        ctx.label("files-empty")
                how = case.get("files_as", "list")
                kwargs["files"] = {
                    "list": list, "tuple": tuple, "iter": iter,
                    "generator": lambda fs_: (f for f in fs_),
                    "paths": lambda fs_: [f.path for f in fs_],
                    # FileInfo objects made by the caller (not the ones the
                    # fileset caches): they carry an attribute of their own,
                    # which func and return_info must see again
                    "own-infos": lambda fs_: [
                        FileInfo(f.path, list(f.times),
                                 dict(f.attr, caller="c10-%s" % f.attr["id"]))
                        for f in fs_],
                }[how](found)
                ctx.label("files-arg", "files-as-" + how)
            else:
                k = case["bundle"]
                bundles = [ids[i:i + k] for i in range(0, n, k)]
                kwargs["files"] = [found[i:i + k] for i in range(0, n, k)]
                ctx.label("bundle")
        on_content = case["on_content"] or method in ("collect", "icollect")
        if bundles is not None and not on_content:
            # a bundle without on_content hands a list of FileInfo to func;
            # use the content path instead (documented use of bundles)
            on_content = True
            case = dict(case, on_content=True)
        ref = reference(case, ids, bundles)
        func_kwargs = {"none": list(case["none"]),
                       "fail": case["fail_func"]}
        if pool_kind == "process":
            worker_type = "process"
        else:
            worker_type = "thread"
        call = dict(kwargs)
        if method in ("map", "imap") and case.get("args"):
            call["args"] = list(case["args"]) \
                if case.get("args_as") == "list" else tuple(case["args"])
            ctx.label("args-" + case.get("args_as", "tuple"))
        if method in ("map", "imap"):
            call.update(func=apply, kwargs=func_kwargs,
                        on_content=case["on_content"] or bundles is not None,
                        pass_info=case["pass_info"] and bundles is None,
                        return_info=case["return_info"],
                        error_to_warning=case["error_to_warning"],
                        max_workers=workers, worker_type=worker_type)
        else:
            call.update(error_to_warning=case["error_to_warning"],
                        max_workers=workers)
            if method == "collect":
                call["return_info"] = case["return_info"]
            else:
                call["return_info"] = case["return_info"]

        sched = simpool.Schedule(case["perm"])
        saved = FS.ThreadPoolExecutor
        if via_default:
            call.pop("max_workers", None)
        if pool_kind == "sim":
            FS.ThreadPoolExecutor = simpool.make_pool_class(sched)
            sched.start_watchdog()
        got, error = [], None
        caught = []
        try:
            with warnings.catch_warnings(record=True) as caught:
                warnings.simplefilter("always")
                try:
                    if method == "map":
                        got = list(fileset.map(**call))
                    elif method == "collect":
                        res = fileset.collect(**call)
                        if case["return_info"]:
                            got = list(zip(*res))
                        else:
                            got = list(res)
                    else:
                        gen = fileset.imap(**call) if method == "imap" \
                            else fileset.icollect(**call)
                        for item in gen:
                            got.append(item)
                            sched.consumed = len(got)
                except (ReadFailure, FuncFailure) as exc:
                    error = exc
        finally:
            FS.ThreadPoolExecutor = saved
            sched.stop()
        where = lambda: "case=%r\nreference=%r\ngot=%r error=%r" % (
            case, ref, got, error)

        # ---- oracle ----------------------------------------------------
        first_exc = next((i for i, r in enumerate(ref) if r[0] == "exc"),
                         None)
        if method == "collect":
            # collect drops None contents and needs at least one content
            ref = [r for r in ref if not (r[0] == "ok" and r[1] is None)]
            first_exc = next((i for i, r in enumerate(ref)
                              if r[0] == "exc"), None)
        if first_exc is not None:
            ctx.label("read-error" if ref[first_exc][1] is ReadFailure
                      else "func-error")
            ctx.check(error is not None, "error/not-propagated", where)
            if error is not None:
                ctx.check(type(error) is ref[first_exc][1],
                          "error/wrong-exception", where)
            if method in ("imap", "icollect"):
                ctx.check(len(got) <= first_exc, "error/results-after-error",
                          where)
            expected = ref[:len(got)] if method in ("imap", "icollect") \
                else []
        else:
            ctx.check(error is None, "error/unexpected-exception", where)
            expected = ref
            if error is not None:
                return
        if first_exc is None or method in ("imap", "icollect"):
            ctx.check(len(got) == len(expected), "results/wrong-count", where)
            for item, (kind, value, unit) in zip(got, expected):
                if case["return_info"]:
                    info, val = item
                    if bundles is None:
                        ctx.check(int(info.attr["id"]) == unit[0]
                                  and list(info.times) == [
                                      by_id[unit[0]].t0, by_id[unit[0]].t1],
                                  "results/wrong-file-info", where)
                        if case.get("files_as") == "own-infos" \
                                and case["select"] == "files":
                            ctx.check(info.attr.get("caller")
                                      == "c10-%d" % unit[0],
                                      "results/not-the-callers-file-info",
                                      lambda: "attr %r; %s" % (
                                          dict(info.attr), where()))
                    else:
                        ctx.check([int(f.attr["id"]) for f in info] == unit,
                                  "results/wrong-file-info", where)
                else:
                    val = item
                val = normalise(val)
                ctx.check(val == value, "results/wrong-value-or-order",
                          lambda: "expected %r got %r for file(s) %r; %s" % (
                              value, val, unit, where()))
        log_text = ""
        if os.path.exists(log):
            with open(log) as fh:
                log_text = fh.read()
        # second call on the same FileSet object, after the cause of the read
        # failures has gone: every selected file must now be processed, and
        # the FileInfo objects must still name the real files
        if case.get("second_call") and pool_kind != "process" \
                and error is None and bundles is None:
            ctx.label("second-call-on-same-object")
            reader.fail = set()
            sched2 = simpool.Schedule(list(reversed(case["perm"])))
            if pool_kind == "sim":
                FS.ThreadPoolExecutor = simpool.make_pool_class(sched2)
                sched2.start_watchdog()
            try:
                with warnings.catch_warnings(record=True):
                    warnings.simplefilter("always")
                    again = fileset.map(
                        apply, on_content=True, return_info=True,
                        worker_type="thread", max_workers=workers,
                        **({"files": list(kwargs["files"])}
                           if isinstance(kwargs.get("files"), (list, tuple))
                           else {}))
            finally:
                FS.ThreadPoolExecutor = saved
                sched2.stop()
            if "files" not in kwargs or isinstance(kwargs["files"],
                                                   (list, tuple)):
                got2 = [(info.path if hasattr(info, "path") else info,
                         normalise(val)) for info, val in again]
                exp2 = [(by_id[i].path, ["r", i]) for i in ids]
                ctx.check(got2 == exp2, "second-call/wrong-results", lambda: (
                    "expected %r got %r; %s" % (exp2, got2, where())))

        # every file read once / at most once
        reads = {}
        for line in log_text.splitlines():
            kind, fid = line.split()
            if kind == "read":
                reads[int(fid)] = reads.get(int(fid), 0) + 1
        if on_content:
            if error is None:
                # members of a bundle whose reading failed may stay unread
                # (the remaining reads of that bundle are cancelled)
                optional = {i for u in (bundles or []) for i in u
                            if any(j in case["fail_read"] for j in u)}
                ctx.check(all(reads.get(i, 0) == 1 for i in ids
                              if i not in optional)
                          and all(reads.get(i, 0) <= 1 for i in optional)
                          and set(reads) <= set(ids),
                          "reads/not-exactly-once", lambda: (
                              "reads=%r; %s" % (reads, where())))
            else:
                ctx.check(all(c <= 1 for c in reads.values()),
                          "reads/more-than-once", lambda: (
                              "reads=%r; %s" % (reads, where())))
        else:
            ctx.check(not reads, "reads/read-without-on_content", where)
        # warnings for skipped files
        skipped = [r for r in ref if r[0] == "ok" and r[1] is None
                   and any(i in case["fail_read"] for i in r[2])]
        if case["error_to_warning"] and on_content and error is None \
                and pool_kind != "process":
            nwarn = sum(1 for w in caught
                        if issubclass(w.category, RuntimeWarning)
                        and "Could not read" in str(w.message))
            n_failed = sum(1 for u in (bundles or [[i] for i in ids])
                           if any(i in case["fail_read"] for i in u))
            ctx.check(nwarn == n_failed, "warning/wrong-number", lambda: (
                "%d warnings for %d unreadable files; %s" % (
                    nwarn, n_failed, where())))
            if n_failed:
                ctx.label("read-error-to-warning")
        # in-flight bound and schedule classification (owned schedules)
        if pool_kind == "sim":
            main_pool = [e for e in sched.events if e[1] == 0]
            if method in ("imap", "icollect"):
                worst = max([e[3] for e in main_pool if e[0] == "submit"],
                            default=0)
                ctx.check(worst <= workers, "imap/too-many-in-flight",
                          lambda: "submitted-consumed reached %d with %d "
                          "workers; %s" % (worst, workers, where()))
                busy = max([e[4] for e in main_pool if e[0] == "submit"],
                           default=0)
                ctx.check(busy <= workers, "imap/too-many-running", where)
            runs = [e[2] for e in main_pool if e[0] == "run"]
            if runs != sorted(runs):
                ctx.nontrivial = True
                ctx.label("out-of-order-completion")
            if runs and runs == sorted(runs, reverse=True) and len(runs) > 1:
                ctx.label("reverse-order")
            if sched.watchdog_fired:
                # something waited for the futures without result(); the
                # schedule was then driven by the idle watchdog
                ctx.label("watchdog-driven")
        else:
            ctx.label(pool_kind)
            d = [delays.get(i, 0) for i in ids]
            if any(a > b for a, b in zip(d, d[1:])):
                ctx.nontrivial = True
        if workers < len(ref):
            ctx.label("workers<files")
        if workers == 1:
            ctx.label("workers=1")
        if any(r[0] == "ok" and r[1] is None for r in ref) \
                or (case["none"] and method in ("map", "imap")):
            ctx.label("none-result")
        ctx.label("method-" + method)


def normalise(val):
    if isinstance(val, tuple):
        return [normalise(v) for v in val]
    if isinstance(val, list):
        return [normalise(v) for v in val]
    if hasattr(val, "attr"):
        return int(val.attr["id"])
    return val


def check_sim(case, ctx):
    run_case(case, ctx, "sim")


def check_real(case, ctx):
    run_case(case, ctx, case["pool"])


# --------------------------------------------------------------------------
# align
# --------------------------------------------------------------------------
def check_align(case, ctx):
    import typhon.files.fileset as FS
    from typhon.files import FileHandler, FileSet
    with G.Sandbox() as box:
        log = os.path.join(box.root, "access.log")
        sets, pops = [], []
        nid = 0
        for k, files in enumerate(case["sets"]):
            root = box.mkdir("set%d" % k)
            specs = []
            for (start_min, dur_min) in files:
                s = BASE + dt.timedelta(minutes=start_min)
                specs.append({"s": s, "e": s + dt.timedelta(minutes=dur_min),
                              "attrs": {"id": str(nid)}, "wild": ""})
                nid += 1
            pop = G.make_population(root, TEMPLATE, specs,
                                    content=lambda f: f.attrs["id"].encode())
            pops.append(pop)
            reader = Reader(log, case["fail_read"])
            sets.append(FileSet(pop.path, name="set%d" % k,
                                placeholder={"id": r"\d+"},
                                handler=FileHandler(reader=reader),
                                max_threads=case["workers"]))
        prim = sorted(pops[0].files, key=lambda f: (f.t0, f.t1))
        sec = sorted(pops[1].files, key=lambda f: (f.t0, f.t1))
        expected = []
        for p in prim:
            partners = [q for q in sec if q.t0 <= p.t1 and q.t1 >= p.t0]
            for q in partners:
                expected.append((int(p.attrs["id"]), int(q.attrs["id"])))
        if not expected:
            ctx.label("no-match")
            return
        fail = set(case["fail_read"])
        if case["skip_errors"]:
            exp_pairs = [(a, b) for a, b in expected
                         if a not in fail and b not in fail]
        else:
            exp_pairs = expected
        sched = simpool.Schedule(case["perm"])
        saved = FS.ThreadPoolExecutor
        FS.ThreadPoolExecutor = simpool.make_pool_class(sched)
        sched.start_watchdog()
        got, error = [], None
        try:
            with warnings.catch_warnings(record=True):
                warnings.simplefilter("always")
                try:
                    for primary, secondary in sets[0].align(
                            sets[1], skip_errors=case["skip_errors"],
                            return_info=case["return_info"]):
                        if case["return_info"]:
                            ctx.check(
                                int(primary[0].attr["id"]) == primary[1]
                                and int(secondary[0].attr["id"])
                                == secondary[1], "align/info-data-mismatch",
                                repr((primary, secondary)))
                            got.append((primary[1], secondary[1]))
                        else:
                            got.append((primary, secondary))
                except ReadFailure as exc:
                    error = exc
        finally:
            FS.ThreadPoolExecutor = saved
            sched.stop()
        where = lambda: "case=%r expected=%r got=%r error=%r" % (
            case, exp_pairs, got, error)
        involved = {a for a, b in expected} | {b for a, b in expected}
        if fail & involved and not case["skip_errors"]:
            ctx.label("read-error")
            ctx.check(error is not None, "align/error-not-propagated", where)
            return
        ctx.check(error is None, "align/unexpected-exception", where)
        ctx.check(got == exp_pairs, "align/wrong-pairs-or-order", where)
        reads = {}
        with open(log) as fh:
            for line in fh:
                kind, fid = line.split()
                reads[int(fid)] = reads.get(int(fid), 0) + 1
        ctx.check(all(reads.get(i, 0) == 1 for i in involved),
                  "align/file-not-read-exactly-once", lambda: (
                      "reads=%r; %s" % (reads, where())))
        counts = {}
        for a, b in expected:
            counts[b] = counts.get(b, 0) + 1
        if any(c > 1 for c in counts.values()):
            ctx.label("align-shared-secondary")
            ctx.nontrivial = True
        if fail & involved:
            ctx.label("align-skip-errors")
        runs = [e[2] for e in sched.events if e[0] == "run" and e[1] == 0]
        if runs != sorted(runs):
            ctx.label("out-of-order-completion")


# --------------------------------------------------------------------------
# truly concurrent readers of compressed files (real threads, barrier-owned)
# --------------------------------------------------------------------------
COMPRESSED_TEMPLATE = {
    "dirs": [[["ph", "id"]]],
    "file": [["lit", "f_"], ["ph", "year"], ["ph", "month"], ["ph", "day"],
             ["ph", "hour"], ["ph", "minute"], ["lit", "-"],
             ["ph", "end_hour"], ["ph", "end_minute"], ["lit", ".dat"]],
    "user": {"id": {"kind": "regex", "regex": r"\d+", "values": []}},
    "coverage_s": None,
}


class BarrierReader:
    """All concurrently running readers meet at a barrier *inside* the
    decompress block before any of them reads its (temporary) file, so that
    several decompressed copies are alive at the same moment - the schedule
    that lets readers see each other's temporary files if those are not
    private."""

    def __init__(self, parties):
        import threading
        self.barrier = threading.Barrier(parties)

    def __call__(self, file_info, **kwargs):
        import threading
        try:
            self.barrier.wait(timeout=3)
        except threading.BrokenBarrierError:
            pass
        with open(file_info.path, "rb") as fh:
            return int(fh.read())


def check_concurrent_readers(case, ctx):
    import bz2
    import gzip
    import lzma
    import zipfile
    from typhon.files import FileHandler, FileSet
    n, workers, fmt = case["n"], case["workers"], case["fmt"]
    ctx.label("concurrent-" + fmt, "method-" + case["method"])
    tpl = dict(COMPRESSED_TEMPLATE)
    tpl["file"] = COMPRESSED_TEMPLATE["file"][:-1] + [["lit", ".dat." + fmt]]
    with G.Sandbox() as box:
        root = box.mkdir("tree")
        tmpdir = box.mkdir("tmp") if case["tmpdir"] else None
        s = BASE
        specs = [{"s": s, "e": s + dt.timedelta(minutes=30),
                  "attrs": {"id": str(i)}, "wild": ""} for i in range(n)]

        def content(f):
            raw = f.attrs["id"].encode()
            if fmt == "gz":
                return gzip.compress(raw)
            if fmt == "bz2":
                return bz2.compress(raw)
            if fmt == "xz":
                return lzma.compress(raw)
            buf = io.BytesIO()
            with zipfile.ZipFile(buf, "w") as zf:
                zf.writestr(os.path.basename(f.rel)[:-4], raw)
            return buf.getvalue()
        pop = G.make_population(root, tpl, specs, content=content)
        fileset = FileSet(
            pop.path, name="c10c", placeholder={"id": r"\d+"},
            handler=FileHandler(reader=BarrierReader(min(workers, n))),
            temp_dir=tmpdir)
        if case["method"] == "collect":
            infos, data = fileset.collect(return_info=True,
                                          max_workers=workers)
            got = list(zip(infos, data))
        else:
            got = list(fileset.icollect(return_info=True,
                                        max_workers=workers))
        pairs = sorted((int(info.attr["id"]), value) for info, value in got)
        ctx.check(pairs == [(i, i) for i in range(n)],
                  "concurrent/content-of-another-file", lambda: (
                      "(file id, content read) = %r for %r" % (pairs, case)))
        left = os.listdir(tmpdir) if tmpdir else []
        ctx.check(not left, "concurrent/temp-debris", lambda: repr(left))
        ctx.nontrivial = True


def concurrent_cases():
    for fmt in ("gz", "bz2", "zip", "xz"):
        for n in (2, 3, 4):
            for workers in (2, 3, 4):
                for method in ("collect", "icollect"):
                    yield {"n": n, "workers": workers, "fmt": fmt,
                           "method": method, "tmpdir": (n + workers) % 2 == 0}


# --------------------------------------------------------------------------
# strategies / enumerations
# --------------------------------------------------------------------------
def base_case(n, perm, workers, method, **over):
    case = {"n": n, "perm": list(perm), "workers": workers, "method": method,
            "gaps": [31], "select": "period", "bundle": None,
            "on_content": True, "pass_info": False, "return_info": False,
            "none": [], "fail_read": [], "error_to_warning": False,
            "fail_func": None, "delays": [], "pool": "sim"}
    case.update(over)
    return case


def exhaustive_cases(max_n):
    def gen():
        for n in range(1, max_n + 1):
            for perm in itertools.permutations(range(n)):
                for workers in sorted({1, 2, 3, n}):
                    if workers > n and n > 1:
                        continue
                    for method in ("map", "imap", "icollect"):
                        yield base_case(n, perm, workers, method,
                                        return_info=(sum(perm[:2]) % 2 == 0))
                    if n >= 2:
                        # one unreadable file, skipped with a warning
                        yield base_case(n, perm, workers, "imap",
                                        fail_read=[perm[0]],
                                        error_to_warning=True)
    return gen


@st.composite
def sampled_cases(draw, real=False):
    n = draw(st.integers(1, 8))
    perm = draw(st.permutations(list(range(n))))
    method = draw(st.sampled_from(["map", "imap", "collect", "icollect"]))
    select = draw(st.sampled_from(["period", "files", "bundles"]))
    fail_read = draw(st.lists(st.integers(0, n - 1), max_size=2,
                              unique=True)) \
        if draw(st.integers(0, 2)) == 0 else []
    if method == "collect" and len(fail_read) >= n:
        fail_read = fail_read[:n - 1]
    case = base_case(
        n, perm, draw(st.integers(1, 5)), method,
        gaps=draw(st.lists(st.sampled_from([1, 31, 45, 120]),
                           min_size=1, max_size=3)),
        select=select, bundle=draw(st.integers(1, 3)),
        on_content=draw(st.booleans()), pass_info=draw(st.booleans()),
        return_info=draw(st.booleans()),
        none=draw(st.lists(st.integers(0, n - 1), max_size=2, unique=True)),
        fail_read=fail_read, error_to_warning=draw(st.booleans()),
        fail_func=draw(st.one_of(st.none(), st.none(),
                                 st.integers(0, n - 1))))
    if select == "files":
        case["files_as"] = draw(st.sampled_from(
            ["list", "list", "tuple", "iter", "generator", "paths",
             "own-infos", "own-infos"]))
    if select == "files" and draw(st.booleans()):
        case["subset"] = draw(st.one_of(
            st.just([]), st.lists(st.integers(0, n - 1), max_size=n),
            st.lists(st.integers(0, n - 1), max_size=n)))
        case["files_as"] = draw(st.sampled_from(
            ["list", "tuple", "iter", "generator", "paths", "own-infos"]))
        if method == "collect" and not case["subset"]:
            case["subset"] = [0]     # collect() needs at least one content
        if method == "collect":
            picked = {i % n for i in case["subset"]}
            case["fail_read"] = [i for i in case["fail_read"]
                                 if i not in picked] \
                if picked <= set(case["fail_read"]) else case["fail_read"]
    if method == "collect":
        # collect() needs at least one readable file (documented use)
        readable = [i for i in range(n) if i not in case["fail_read"]]
        if not readable or select == "bundles":
            case["fail_read"] = []
    case["workers_via_default"] = draw(st.integers(0, 3)) == 0
    if draw(st.integers(0, 2)) == 0:
        case["args"] = draw(st.lists(st.sampled_from(["tag:a", "tag:b"]),
                                     min_size=1, max_size=2))
        case["args_as"] = draw(st.sampled_from(["list", "tuple"]))
    case["compress"] = draw(st.integers(0, 3)) == 0
    case["second_call"] = draw(st.booleans())
    if real:
        case["pool"] = draw(st.sampled_from(["thread", "thread", "process"]))
        case["delays"] = draw(st.lists(st.sampled_from([0, 2, 5, 10, 20]),
                                       min_size=n, max_size=n))
        if case["pool"] == "process" and method in ("collect", "icollect"):
            case["pool"] = "thread"      # collect always uses threads
    return case


@st.composite
def align_cases(draw):
    sets = []
    for k in range(2):
        n = draw(st.integers(1, 5))
        t, files = 0, []
        for _ in range(n):
            t += draw(st.sampled_from([0, 5, 20, 45, 90]))
            d = draw(st.sampled_from([10, 30, 60, 200, 600]))
            files.append([t, d])
            # next file: after this one, overlapping it, or nested inside it
            t += draw(st.sampled_from([d, d, d // 2, 5, d + 30]))
        # distinct (start, end) so that the time order is well defined
        seen, uniq = set(), []
        for t0, d in files:
            while (t0, d) in seen or any(t0 == u[0] for u in uniq):
                t0 += 1
            seen.add((t0, d))
            uniq.append([t0, d])
        sets.append(uniq)
    total = len(sets[0]) + len(sets[1])
    return {"sets": sets, "workers": draw(st.integers(1, 4)),
            "perm": draw(st.permutations(list(range(total)))),
            "skip_errors": draw(st.integers(0, 3)) > 0,
            "return_info": draw(st.booleans()),
            "fail_read": draw(st.lists(st.one_of(
                st.integers(0, len(sets[0]) - 1), st.integers(0, total - 1)),
                min_size=1, max_size=2, unique=True))
            if draw(st.booleans()) else []}


def suites(tier):
    return [
        Suite("schedules-exhaustive", check_sim,
              cases=exhaustive_cases(4 if tier == "quick" else 6),
              exhaustive=True),
        Suite("schedules-sampled", check_sim, strategy=sampled_cases(),
              examples={"quick": 220, "thorough": 3000}),
        Suite("align", check_align, strategy=align_cases(),
              examples={"quick": 110, "thorough": 1500}),
        Suite("real-pools", check_real, strategy=sampled_cases(real=True),
              examples={"quick": 25, "thorough": 150}),
        Suite("concurrent-readers", check_concurrent_readers,
              cases=concurrent_cases, exhaustive=False),
    ]
