"""C14 - column integrals and hydrostatic conversions.

Oracles: exact (integer / rational) integral of the piecewise-linear
interpolant for integrate_column; long-double trapezoid sums and Gauss-Legendre
quadrature of analytic profiles for IWV / CRH; the closed form of the
layer-mean-density scheme and the logarithmic law for pressure2height; the ISA
definition (base values, lapse rates, hydrostatic integration) for
standard_atmosphere.
"""
import numpy as np
from hypothesis import strategies as st

from vp.gen import c19_samples as GS
from vp.oracle.c14_exact import trapezoid_exact
from vp.runner import Suite

PROP_ID = "C14"
LEVEL = "exploration"
QUICK_SHARDS = 4
RULE = (
    "integrals: 2-10^4 levels along one axis of a rank 1-4 array (any axis, "
    "also negative), grid uniform / irregular (drawn positive steps), "
    "increasing / decreasing, nearly uniform (spacings differing by 1e-7 "
    "... 1e-5 relative), scaled by 1e-9 / 1e-6 / 1e3, given as 1-D array, as array of the shape of y "
    "(a different grid per column) or omitted; integrand values k/16 or "
    "sign*a*10^e (|e| <= 30), in 1 of 5 non-integer cases complex (u + i v, "
    "complex coefficients in the linearity relation) or long double (hi + "
    "lo 2^-50, not representable in float64); y C-ordered, Fortran-ordered "
    "or a reversed view; a second integrand, two coefficients and a "
    "split level for linearity / additivity / reversal.  profiles: analytic "
    "T(p) (isothermal, lapse rate with stratospheric asymptote, two-layer "
    "with the kink at a level of every grid), vmr(p) (power law in p = "
    "exponential in log-pressure height, constant relative humidity), p "
    "from 1000-1100 hPa down to 1-300 hPa, linear / logarithmic / quadratic "
    "spacing, on the nested grids of 25, 97, 385, 1537 levels; plus "
    "arbitrary drawn non-negative vmr, T, z on irregular grids and rank-2 "
    "input; column_relative_humidity for rank 1-4 input (square and "
    "rectangular horizontal grids, level axis at every position, also "
    "negative) with drawn T in 185-300 K that differs between the columns "
    "and q = beta * q_sat.  heights: pressure2height on irregular decreasing pressure grids "
    "of 2-2000 levels (a third of them stored top-down, i.e. with "
    "increasing pressure) with no / isothermal / arbitrary temperatures; the ISA "
    "table levels are enumerated.  Integer-typed input is a class of its "
    "own: whole-Pa pressure grids as int64 / int32 arrays and lists of ints "
    "(also in equal steps of 1-250 Pa), whole-K temperatures and whole-metre "
    "heights as integer arrays for pressure2height (explicit T and default), "
    "integrate_water_vapor and column_relative_humidity; integer y (int64 / "
    "int32) and integer x (also a list) for integrate_column; integer "
    "heights for standard_atmosphere.  Non-trivial = irregular grid or rank >= 2 "
    "or >= 100 levels (integrals, heights) / every analytic profile.  "
    "Distinct = distinct case hash."
)
ASSUMPTIONS = [
    "integrate_column is documented as a plain wrapper of numpy's "
    "trapezoid, and the property quantifies over all integrands and claims "
    "linearity: complex128 and long double integrands (which trapezoid "
    "integrates in their own type) are therefore taken as inside the "
    "domain - real and imaginary part resp. hi and lo part are compared with "
    "the exact integral separately (long double with 2^-64 instead of 2^-53 "
    "in the tolerance).  Masked arrays are not generated (their treatment "
    "is not stated anywhere)",
    "integrate_column: float ndarrays, values 0 or 1e-60 <= |v| <= 1e60 (no "
    "overflow / underflow of the panel products); x strictly monotone; "
    "tolerance |I - exact| <= 2 (N+4) 2^-53 * sum |panel| (3 roundings per "
    "panel + the summation), relations between results use the sum of the "
    "tolerances of the results involved",
    "profiles are physically admissible: vmr in [0, 0.3], p strictly "
    "decreasing and > 0, T in [150, 350] K; saturation pressure < 0.3 p for "
    "CRH (levels above that are cut off)",
    "the moist hydrostatic height handed to the general form of "
    "integrate_water_vapor is integrated by the harness (8-point "
    "Gauss-Legendre per layer in ln p, long double) with typhon.constants "
    "for g, R and the molar masses",
    "convergence: |IWV_hydrostatic - IWV_general| / IWV <= 1e-4 on 1537 "
    "levels and diff(4N) <= diff(N)/4 unless diff(4N) <= 1e-9; the same two "
    "criteria for the deviation of each form from the quadrature value "
    "(measured on 400 profiles: <= 3e-5 on 1537 levels, ratios 1/15.3 .. "
    "1/16)",
    "p is an ndarray or a list of numbers; T, z, vmr, q are ndarrays (a "
    "list for T fails in density(): documented as ndarray)",
    "pressure2height on a grid stored top-down: unchanged typhon returns 0 "
    "at the first level and negative heights below it; the clauses 'starts "
    "at 0', 'higher where the pressure is lower', z = (R T/g) ln(p[0]/p) "
    "and the layer-mean-density closed form are applied with p0 = p[0] in "
    "either direction, and reversing the grid must mirror the heights",
    "pressure2height: neighbouring levels differ by at least 1e-6 relative "
    "(otherwise a layer is thinner than the rounding error of the height)",
    "standard_atmosphere vs the ISA definition (T0 = 288.15 K, p0 = 101325 "
    "Pa, lapse rates -6.5, 0, 1, 2.8, 0, -2.8, -2 K/km, g0 = 9.80665, R = "
    "8.31432/0.0289644): 0.1 K at -610 m and 84852 m (the table is rounded "
    "there / uses the kinetic temperature of US76), 0.002 K in between",
]

LD = np.longdouble
U = 2.0 ** -53


# --------------------------------------------------------------------------
# integer-typed input (whole Pa, whole K, whole metres, integer integrands)
# --------------------------------------------------------------------------
PTYPES = ["float", "float", "float", "int64", "int32", "list-int"]


def typed(values, kind):
    """the numeric values as float64 / int64 / int32 array or list of ints"""
    if kind == "int64":
        return np.array([int(v) for v in values], dtype=np.int64)
    if kind == "int32":
        return np.array([int(v) for v in values], dtype=np.int32)
    if kind == "list-int":
        return [int(v) for v in values]
    return np.array(values, dtype=float)


def int_grid(p, floor=1):
    """whole-Pa version of a decreasing pressure grid: rounded, strictly
    decreasing by at least 1 Pa, cut off at `floor`"""
    out = [int(round(p[0]))]
    for v in p[1:]:
        nxt = min(int(round(v)), out[-1] - 1)
        if nxt < floor:
            break
        out.append(nxt)
    if len(out) < 2:
        out = [max(out[0], floor + 1), max(out[0], floor + 1) - 1]
    return out


def label_types(ctx, **kinds):
    for name, kind in kinds.items():
        if kind not in (None, "float"):
            ctx.label("%s-%s" % (name, kind), "integer-typed-input")


# ==========================================================================
# integrate_column
# ==========================================================================
def _lattice():
    return st.integers(-1600, 1600).map(lambda k: k / 16.0)


def _floats():
    return st.one_of(
        st.tuples(st.sampled_from([-1.0, 1.0]),
                  st.floats(1.0, 10.0, allow_nan=False),
                  st.integers(-30, 30)).map(
            lambda t: t[0] * t[1] * 10.0 ** t[2]),
        st.floats(-1e3, 1e3, allow_nan=False).map(
            lambda v: 0.0 if abs(v) < 1e-60 else v),
        st.sampled_from([0.0, 1.0, -1.0]))


@st.composite
def integral_cases(draw, nmax=10000):
    style = draw(st.sampled_from(["lattice", "float", "int"]))
    el = (_lattice() if style == "lattice" else _floats() if style == "float"
          else st.integers(-1600, 1600).map(float))
    N = draw(st.one_of(st.integers(2, 8), st.integers(2, 60),
                       st.integers(100, 600), st.integers(100, nmax)))
    rank = draw(st.sampled_from([1, 1, 2, 2, 3, 4]))
    budget = max(1, 20000 // N)
    other = []
    for _ in range(rank - 1):
        d = draw(st.integers(1, min(4, budget)))
        other.append(d)
        budget = max(1, budget // d)
    pos = draw(st.integers(0, rank - 1))
    shape = other[:pos] + [N] + other[pos:]
    axis = pos - rank if draw(st.booleans()) else pos
    total = int(np.prod(shape))

    def values(k):
        if k <= 60:
            return draw(st.lists(el, min_size=k, max_size=k))
        pool = draw(st.lists(el, min_size=17, max_size=41))
        return GS.tile(pool, k, draw(st.integers(1, 40)),
                       draw(st.integers(0, 40)), 0.0)

    y = values(total)
    y2 = values(total)
    # grid
    xmode = draw(st.sampled_from(["none", "1d", "1d", "1d", "nd"]))
    grid = draw(st.sampled_from(["uniform", "irregular", "irregular",
                                 "nearly-uniform"]))
    if style != "float" and grid == "nearly-uniform":
        grid = "irregular"
    # coordinates of small / large magnitude (wavelengths in m, ...)
    xscale = draw(st.sampled_from([1.0, 1.0, 1e-9, 1e-6, 1e3])) \
        if style == "float" else 1.0
    direction = draw(st.sampled_from(["increasing", "decreasing"]))
    x = None
    if xmode != "none":
        if style == "int":
            step = st.integers(1, 64).map(float)
            x0 = float(draw(st.integers(-1000, 100000)))
        elif style == "lattice":
            step = st.integers(1, 64).map(lambda k: k / 16.0)
            x0 = draw(_lattice())
        else:
            step = st.one_of(st.floats(1e-3, 10.0, allow_nan=False),
                             st.floats(1.0, 1e4, allow_nan=False))
            x0 = draw(st.floats(-1e4, 1e5, allow_nan=False))
        if grid == "uniform":
            steps = [draw(step)] * (N - 1)
        elif grid == "nearly-uniform":
            # spacings that differ by 1e-7 .. 1e-5 relative
            h = draw(step)
            pool = draw(st.lists(st.floats(-1.0, 1.0, allow_nan=False),
                                 min_size=5, max_size=19))
            mag = draw(st.sampled_from([1e-7, 1e-6, 1e-5]))
            steps = [h * (1.0 + mag * v) for v in GS.tile(
                pool, N - 1, draw(st.integers(1, 18)),
                draw(st.integers(0, 18)), 0.0)]
        elif N - 1 <= 60:
            steps = draw(st.lists(step, min_size=N - 1, max_size=N - 1))
        else:
            pool = draw(st.lists(step, min_size=7, max_size=29))
            steps = GS.tile(pool, N - 1, draw(st.integers(1, 28)),
                            draw(st.integers(0, 28)), 0.0)
        sgn = 1.0 if direction == "increasing" else -1.0
        x = [x0 * xscale]
        for s in steps:
            x.append(x[-1] + sgn * s * xscale)
        if any(x[i + 1] == x[i] for i in range(N - 1)):
            # steps below the resolution of x0: use a plain grid
            x = [sgn * float(i) for i in range(N)]
            grid = "uniform"
        if xmode == "nd":
            # a different grid per column: c + s * x
            ncol = total // N
            half = [] if style == "int" else [0.5]
            cs = draw(st.lists(st.sampled_from([0.0, 1.0, -3.0] + half),
                               min_size=ncol, max_size=ncol))
            ss = draw(st.lists(st.sampled_from([1.0, 2.0, -1.0, 4.0] + half),
                               min_size=ncol, max_size=ncol))
            cols = np.array([[c + s * v for v in x]
                             for c, s in zip(cs, ss)])       # (ncol, N)
            xa = np.moveaxis(cols.reshape(other + [N]), -1, pos)
            x = xa.reshape(-1).tolist()
    coef = st.sampled_from([1.0, -1.0, 2.0, 0.5, -0.25, 3.0, 0.0])
    # value type of the integrand: real float64, complex128 (u + i v) or
    # long double (hi + lo * 2^-50, not representable in float64)
    ykind = "real"
    extra = {}
    if style != "int" and N <= 3000 and draw(st.integers(0, 4)) == 0:
        ykind = "complex" if (style == "float" or draw(st.booleans())) \
            else "longdouble"
        extra = {"y_b": values(total), "y2_b": values(total)}
        if ykind == "complex":
            extra.update({"a_im": draw(coef), "b_im": draw(coef)})
    extra["ylayout"] = draw(st.sampled_from(["C", "C", "F", "reversed"]))
    ytype = xtype = "float"
    if style == "int":
        ytype = draw(st.sampled_from(["int64", "int32"]))
        xtype = draw(st.sampled_from(
            ["int64", "int32", "float"]
            + (["list-int"] if xmode == "1d" else [])))
    return {"shape": shape, "axis": axis, "style": style, "xmode": xmode,
            "ytype": ytype, "xtype": xtype, "ykind": ykind, **extra,
            "xscale": xscale if xmode != "none" else 1.0,
            "grid": grid if xmode != "none" else "unit",
            "direction": direction if xmode != "none" else "increasing",
            "x": x, "y": y, "y2": y2, "a": draw(coef), "b": draw(coef),
            "split": draw(st.integers(0, N - 1))}


def columns(arr, pos):
    """(ncol, N) view of the columns along axis pos, in the order of the
    result of a reduction over that axis"""
    a = np.moveaxis(arr, pos, -1)
    return a.reshape(-1, a.shape[-1])


def check_integral(case, ctx):
    from typhon.math import integrate_column
    shape = tuple(case["shape"])
    rank = len(shape)
    axis = case["axis"]
    pos = axis % rank
    N = shape[pos]
    ytype, xtype = case.get("ytype", "float"), case.get("xtype", "float")
    y = typed(case["y"], ytype).reshape(shape)
    y2 = typed(case["y2"], ytype).reshape(shape)
    ykind = case.get("ykind", "real")
    # (re, im) resp. (hi, lo) parts as float64 arrays for the exact oracle
    parts = [(y, y2)]
    wgt = [1]
    rdt, EPS = float, U
    if ykind == "complex":
        yb = np.array(case["y_b"], dtype=float).reshape(shape)
        y2b = np.array(case["y2_b"], dtype=float).reshape(shape)
        parts.append((yb, y2b))
        wgt = [1, 1]
        y, y2 = y + 1j * yb, y2 + 1j * y2b
        rdt = complex
    elif ykind == "longdouble":
        from fractions import Fraction as _F
        yb = np.array(case["y_b"], dtype=float).reshape(shape)
        y2b = np.array(case["y2_b"], dtype=float).reshape(shape)
        parts.append((yb, y2b))
        wgt = [1, _F(1, 2 ** 50)]
        sc = LD(2) ** -50
        yl, y2l = y.astype(LD) + yb.astype(LD) * sc, \
            y2.astype(LD) + y2b.astype(LD) * sc
        if not (np.array_equal((yl - y.astype(LD)) / sc, yb.astype(LD))
                and np.array_equal((y2l - y2.astype(LD)) / sc,
                                   y2b.astype(LD))):
            raise AssertionError("generator: hi + lo 2^-50 is not exact")
        y, y2 = yl, y2l
        rdt, EPS = LD, 2.0 ** -64
    ctx.label("integrand-" + ykind)
    lay = case.get("ylayout", "C")
    ctx.label("y-layout-" + lay)
    if lay == "F":
        y, y2 = np.asfortranarray(y), np.asfortranarray(y2)
    elif lay == "reversed":
        y = np.ascontiguousarray(y[::-1])[::-1]
        y2 = np.ascontiguousarray(y2[::-1])[::-1]
    xmode = case["xmode"]
    x_list = None
    if xmode == "none":
        x = None
    elif xmode == "1d":
        x = typed(case["x"], xtype)
        if xtype == "list-int":       # handed over as a list of ints
            x_list, x = x, np.array(x, dtype=np.int64)
    else:
        x = typed(case["x"], xtype).reshape(shape)
    label_types(ctx, y=ytype, x=xtype if xmode != "none" else None)
    if case.get("xscale", 1.0) != 1.0:
        ctx.label("x-scale-%g" % case["xscale"])
    if x is not None and xmode == "1d" and N > 2:
        dx = np.diff(np.asarray(x, dtype=float))
        if (np.abs(dx - dx[0]).max() > 0
                and np.abs(dx - dx[0]).max() <= 1e-8 + 1e-5 * abs(dx[0])):
            ctx.label("x-irregular-but-nearly-equidistant")
    ctx.label("rank-%d" % rank, "x-" + xmode, "grid-" + case["grid"],
              case["direction"], "style-" + case["style"])
    if rank >= 3:
        ctx.label("rank>=3")
    if pos != 0:
        ctx.label("axis!=0")
    if axis < 0:
        ctx.label("negative-axis")
    if N >= 100:
        ctx.label("N>=100")
    if N >= 1000:
        ctx.label("N>=1000")
    if case["grid"] == "irregular" or rank >= 2 or N >= 100:
        ctx.nontrivial = True
    out_shape = shape[:pos] + shape[pos + 1:]

    if xmode == "none":
        got = (integrate_column(y, axis=axis) if (axis != 0 or rank > 1)
               else integrate_column(y))
    else:
        got = integrate_column(y, x if x_list is None else x_list, axis=axis)
    ctx.check(np.shape(got) == out_shape, "integral/shape", lambda: (
        "y shape %r axis %r: result shape %r, expected %r" % (
            shape, axis, np.shape(got), out_shape)))
    gflat = np.asarray(got, dtype=rdt).reshape(-1)
    ycols = columns(y, pos)
    pcols = [columns(pr[0], pos) for pr in parts]
    xcols = None if xmode != "nd" else columns(x, pos)
    tol = np.zeros(len(ycols))
    S = np.zeros(len(ycols))
    for c in range(len(ycols)):
        xc = None if x is None else (x if xmode == "1d" else xcols[c])
        xl = None if xc is None else xc.tolist()
        ex = [trapezoid_exact(pc[c].tolist(), xl) for pc in pcols]
        S[c] = float(sum(w * e[1] for w, e in zip(wgt, ex)))
        tol[c] = 2.0 * (N + 4) * EPS * S[c] + 1e-300
        if ykind == "complex":
            errs = [abs(float(ex[0][0] - _frac(gflat[c].real))),
                    abs(float(ex[1][0] - _frac(gflat[c].imag)))]
            exact = complex(float(ex[0][0]), float(ex[1][0]))
        else:
            exact = sum(w * e[0] for w, e in zip(wgt, ex))
            errs = [abs(float(exact - _frac(gflat[c])))]
            exact = float(exact)
        err = max(errs)
        ctx.check(err <= tol[c], "integral/value", lambda: (
            "%s integrand, shape %r axis %r x-%s column %d: got %r, exact %r "
            "(error %.3g, tolerance %.3g)" % (
                ykind, shape, axis, xmode, c, gflat[c], exact, err, tol[c])))
    if ykind == "complex":
        tol = 2 * tol
    elif ykind == "longdouble":
        tol = tol * (U / EPS)       # relations: double-precision tolerances

    def integ(yy, xx):
        if xx is None:
            return np.asarray(integrate_column(yy, axis=axis),
                              dtype=rdt).reshape(-1)
        return np.asarray(integrate_column(yy, xx, axis=axis),
                          dtype=rdt).reshape(-1)

    # linear in y.  The elements of a*y + b*y2 are rounded, so the bound uses
    # A = sum |dx| (|y_i| + |y_i+1|) / 2 >= sum |panel|
    a, b = case["a"], case["b"]
    if ykind == "complex":              # linear over the complex numbers
        a, b = complex(a, case["a_im"]), complex(b, case["b_im"])
    g2 = integ(y2, x)

    def abs_integral(yy):
        cols = np.abs(columns(yy, pos))
        if x is None:
            dx = np.ones((1, N - 1))
        elif xmode == "1d":
            dx = np.abs(np.diff(x))[None, :]
        else:
            dx = np.abs(np.diff(xcols, axis=1))
        return (dx * (cols[:, :-1] + cols[:, 1:])).sum(axis=1) / 2

    Az = abs(a) * abs_integral(y) + abs(b) * abs_integral(y2)
    gz = integ(a * y + b * y2, x)
    lim = 2.0 * (2 * N + 16) * U * Az * (1 + 1e-9) + 1e-300
    if ykind == "complex":
        lim = 4 * lim                   # complex products: 6 roundings each
    bad = np.abs(gz - (a * gflat + b * g2)) > lim
    ctx.check(not bad.any(), "integral/not-linear", lambda: (
        "I(%r y + %r y2) = %r, %r I(y) + %r I(y2) = %r" % (
            a, b, gz[bad][:3], a, b, (a * gflat + b * g2)[bad][:3])))
    # additive at a grid point
    k = case["split"]
    sl1 = [slice(None)] * rank
    sl2 = [slice(None)] * rank
    sl1[pos] = slice(0, k + 1)
    sl2[pos] = slice(k, N)
    sl1, sl2 = tuple(sl1), tuple(sl2)
    if x is None:
        parts = integ(y[sl1], None) + integ(y[sl2], None)
    elif xmode == "1d":
        parts = integ(y[sl1], x[:k + 1]) + integ(y[sl2], x[k:])
    else:
        parts = integ(y[sl1], x[sl1]) + integ(y[sl2], x[sl2])
    ctx.label("split")
    bad = np.abs(parts - gflat) > 3 * tol
    ctx.check(not bad.any(), "integral/not-additive", lambda: (
        "split at level %d of %d: %r + ... = %r, whole = %r" % (
            k, N, None, parts[bad][:3], gflat[bad][:3])))
    # reversal of the coordinate
    rev = [slice(None)] * rank
    rev[pos] = slice(None, None, -1)
    rev = tuple(rev)
    if x is not None:
        xr = x[::-1] if xmode == "1d" else x[rev]
        gr = integ(y[rev], xr)
        bad = np.abs(gr + gflat) > 2 * tol
        ctx.check(not bad.any(), "integral/reversal-sign", lambda: (
            "reversed: %r, original %r" % (gr[bad][:3], gflat[bad][:3])))
    else:
        # unit spacing by default
        gu = integ(y, np.arange(N, dtype=float))
        bad = np.abs(gu - gflat) > 2 * tol
        ctx.check(not bad.any(), "integral/default-spacing", lambda: (
            "x omitted: %r, x = arange: %r" % (gflat[bad][:3], gu[bad][:3])))


def _frac(v):
    """exact rational value of a float64 or long double number"""
    from fractions import Fraction
    hi = float(v)
    if isinstance(v, np.longdouble):
        return Fraction(hi) + Fraction(float(v - np.longdouble(hi)))
    return Fraction(hi)


# ==========================================================================
# profiles: IWV, CRH
# ==========================================================================
def consts():
    from typhon import constants as c
    return {"g": c.earth_standard_gravity, "R": c.gas_constant,
            "Md": c.molar_mass_dry_air, "Mw": c.molar_mass_water,
            "Rd": c.gas_constant_dry_air, "Rv": c.gas_constant_water_vapor,
            "Tt": c.triple_point_water}


def e_liq(T):
    """Murphy & Koop (2005), liquid water, as documented in typhon"""
    T = np.asarray(T, dtype=LD)
    return np.exp(LD(54.842763) - LD(6763.22) / T - LD(4.21) * np.log(T)
                  + LD(0.000367) * T
                  + np.tanh(LD(0.0415) * (T - LD(218.8)))
                  * (LD(53.878) - LD(1331.22) / T - LD(9.44523) * np.log(T)
                     + LD(0.014025) * T))


def e_ice(T):
    T = np.asarray(T, dtype=LD)
    return np.exp(LD(9.550426) - LD(5723.265) / T + LD(3.53068) * np.log(T)
                  - LD(0.00728332) * T)


def e_mixed(T, Tt):
    """IFS mixed phase: liquid above T_t, ice below T_t - 23 K, quadratic
    blend in between"""
    T = np.asarray(T, dtype=LD)
    el, ei = e_liq(T), e_ice(T)
    a = ((T - LD(Tt) + 23) / 23) ** 2
    e = ei + (el - ei) * a
    e = np.where(T > LD(Tt), el, e)
    e = np.where(T < LD(Tt) - 23, ei, e)
    return e


class Profile:
    """analytic T(p), vmr(p) (long double in, long double out)"""

    def __init__(self, spec, C):
        self.s = spec
        self.C = C

    def T(self, p):
        s = self.s
        p = np.asarray(p, dtype=LD)
        r = p / LD(s["p0"])
        if s["T_family"] == "isothermal":
            return np.full(p.shape, LD(s["T0"]))
        if s["T_family"] == "lapse":
            return LD(s["Ts"]) + (LD(s["T0"]) - LD(s["Ts"])) * r ** LD(s["kappa"])
        # two-layer: T0 r^kappa below the tropopause pressure, constant above
        pt = LD(s["p_trop"])
        Tt = LD(s["T0"]) * (pt / LD(s["p0"])) ** LD(s["kappa"])
        return np.where(p >= pt, LD(s["T0"]) * r ** LD(s["kappa"]), Tt)

    def vmr(self, p):
        s = self.s
        p = np.asarray(p, dtype=LD)
        if s["q_family"] == "power":
            return LD(s["x0"]) * (p / LD(s["p0"])) ** LD(s["k"])
        return LD(s["rh"]) * e_liq(self.T(p)) / p

    def q(self, p):
        x = self.vmr(p)
        C = self.C
        return x * LD(C["Mw"]) / ((1 - x) * LD(C["Md"]) + x * LD(C["Mw"]))

    def dz_dlnp(self, p):
        """-dz/dln p = R* T / (g M_mix)"""
        x = self.vmr(p)
        C = self.C
        M = (1 - x) * LD(C["Md"]) + x * LD(C["Mw"])
        return LD(C["R"]) * self.T(p) / (LD(C["g"]) * M)


_GL = np.polynomial.legendre.leggauss(8)


def layer_integrals(f, p):
    """integral of f(p) d(ln p) over every layer [p[i+1], p[i]] (long
    double, 8-point Gauss-Legendre in ln p)"""
    lp = np.log(np.asarray(p, dtype=LD))
    mid = (lp[:-1] + lp[1:]) / 2
    half = (lp[:-1] - lp[1:]) / 2          # > 0 for decreasing p
    tot = np.zeros(len(p) - 1, dtype=LD)
    for t, w in zip(_GL[0], _GL[1]):
        tot += LD(w) * f(np.exp(mid + half * LD(t)))
    return tot * half


def grid(spec, N):
    t = np.arange(N, dtype=float) / (N - 1)
    p0, pt = spec["p0"], spec["ptop"]
    if spec["spacing"] == "log":
        p = p0 * (pt / p0) ** t
    elif spec["spacing"] == "quadratic":
        p = p0 + (pt - p0) * (t + t * t) / 2
    else:
        p = p0 + (pt - p0) * t
    p[0], p[-1] = p0, pt
    return p


GRID_N = (25, 97, 385, 1537)


@st.composite
def profile_cases(draw):
    p0 = draw(st.floats(1000e2, 1100e2, allow_nan=False))
    q_family = draw(st.sampled_from(["power", "rh"]))
    T_family = draw(st.sampled_from(["isothermal", "lapse", "two-layer"]))
    if q_family == "rh":
        ptop = draw(st.floats(100e2, 300e2, allow_nan=False))
    else:
        ptop = draw(st.one_of(st.floats(1e2, 300e2, allow_nan=False),
                              st.sampled_from([1e2, 10e2, 100e2, 300e2])))
    spacing = draw(st.sampled_from(["linear", "log", "quadratic"]))
    spec = {"p0": p0, "ptop": ptop, "spacing": spacing,
            "q_family": q_family, "T_family": T_family}
    if T_family == "isothermal":
        spec["T0"] = draw(st.floats(200.0, 285.0 if q_family == "rh" else 320.0,
                                    allow_nan=False))
    else:
        spec["T0"] = draw(st.floats(255.0, 310.0, allow_nan=False))
        spec["kappa"] = draw(st.floats(0.09, 0.28, allow_nan=False))
        if T_family == "lapse":
            spec["Ts"] = draw(st.floats(150.0, 220.0, allow_nan=False))
        else:
            j = draw(st.integers(3, 21))
            spec["p_trop"] = float(grid(spec, 25)[j])
            # the layer above the kink is not colder than 150 K
            kmax = float(np.log(spec["T0"] / 150.0)
                         / np.log(p0 / spec["p_trop"]))
            spec["kappa"] = min(spec["kappa"], kmax)
    if q_family == "power":
        spec["x0"] = draw(st.floats(1e-4, 0.04, allow_nan=False))
        spec["k"] = draw(st.floats(1.0, 4.0, allow_nan=False))
    else:
        spec["rh"] = draw(st.floats(0.1, 1.0, allow_nan=False))
    spec["alpha"] = draw(st.floats(0.05, 1.0, allow_nan=False))
    spec["beta_pool"] = draw(st.lists(st.floats(0.0, 1.0, allow_nan=False),
                                      min_size=3, max_size=11))
    return spec


def ld_trapz(y, x):
    y = np.asarray(y, dtype=LD)
    x = np.asarray(x, dtype=LD)
    return ((x[1:] - x[:-1]) * (y[1:] + y[:-1])).sum() / 2


def check_profile(case, ctx):
    from typhon.physics import (integrate_water_vapor,
                                column_relative_humidity)
    C = consts()
    prof = Profile(case, C)
    ctx.label("T-" + case["T_family"], "q-" + case["q_family"],
              "spacing-" + case["spacing"], "convergence")
    if case["T_family"] == "isothermal":
        ctx.label("isothermal")
    ctx.nontrivial = True
    pc = grid(case, GRID_N[0])
    exact = float(layer_integrals(lambda p: prof.q(p) * p, pc).sum()
                  / LD(C["g"]))
    diffs, errs_h, errs_g = [], [], []
    for N in GRID_N:
        p = grid(case, N)
        T = prof.T(p).astype(float)
        vmr = prof.vmr(p).astype(float)
        if not (vmr.max() <= 0.3 and vmr.min() >= 0 and T.min() >= 100):
            raise AssertionError("generator: inadmissible profile %r" % case)
        z = np.r_[LD(0), np.cumsum(layer_integrals(prof.dz_dlnp, p))]
        z = z.astype(float)
        h = float(integrate_water_vapor(vmr, p))
        g = float(integrate_water_vapor(vmr, p, T, z))
        ctx.check(h >= 0 and g >= 0, "iwv/negative", lambda: (
            "N=%d hydrostatic %r general %r" % (N, h, g)))
        # both forms are what their formulas say (long-double trapezoids)
        x = vmr.astype(LD)
        qh = x * LD(C["Mw"]) / ((1 - x) * LD(C["Md"]) + x * LD(C["Mw"]))
        ref_h = float(-ld_trapz(qh, p) / LD(C["g"]))
        rho = x * p.astype(LD) / (LD(C["Rv"]) * T.astype(LD))
        ref_g = float(ld_trapz(rho, z))
        ctx.check(abs(h - ref_h) <= 1e-12 * ref_h, "iwv/hydrostatic-formula",
                  lambda: "N=%d: %r, -1/g int q dp = %r" % (N, h, ref_h))
        ctx.check(abs(g - ref_g) <= 1e-12 * ref_g, "iwv/general-formula",
                  lambda: "N=%d: %r, int rho_v dz = %r" % (N, g, ref_g))
        errs_h.append(abs(h - exact) / exact)
        errs_g.append(abs(g - exact) / exact)
        diffs.append(abs(h - g) / exact)
    for name, errs in (("hydrostatic", errs_h), ("general", errs_g)):
        ctx.check(errs[-1] <= 1e-4 and all(
            e1 <= e0 / 4 or e1 <= 1e-9 for e0, e1 in zip(errs, errs[1:])),
            "iwv/%s-form-does-not-converge-to-the-integral" % name, lambda: (
                "relative deviation from the quadrature value %r on %r "
                "levels: %r" % (exact, GRID_N, errs)))
    ctx.check(diffs[-1] <= 1e-4, "iwv/forms-differ", lambda: (
        "relative differences on %r levels: %r" % (GRID_N, diffs)))
    for d0, d1, N in zip(diffs, diffs[1:], GRID_N[1:]):
        ctx.check(d1 <= d0 / 4 or d1 <= 1e-9, "iwv/forms-do-not-converge",
                  lambda: "relative differences on %r levels: %r" % (
                      GRID_N, diffs))
    # ---- column relative humidity --------------------------------------
    N = GRID_N[1]
    p = grid(case, N)
    T = prof.T(p).astype(float)
    es = e_mixed(T, C["Tt"])
    ok = np.cumprod(es / p.astype(LD) <= 0.3).astype(bool)
    nlev = int(ok.sum())
    if nlev < 2:
        ctx.label("crh-skipped(saturation pressure > 0.3 p)")
        return
    p, T, es = p[:nlev], T[:nlev], es[:nlev]
    if (T > C["Tt"]).any() and (T < C["Tt"] - 23).any():
        ctx.label("crh-all-three-phases")
    elif ((T <= C["Tt"]) & (T >= C["Tt"] - 23)).any():
        ctx.label("crh-mixed-phase")
    qs = (LD(0.622) * es / (p.astype(LD) - LD(0.378) * es))
    crh1 = float(column_relative_humidity(qs.astype(float), p, T))
    ctx.check(abs(crh1 - 1.0) <= 1e-12, "crh/saturated-not-1", lambda: (
        "CRH of the saturated profile = %r (N=%d)" % (crh1, nlev)))
    pool = case["beta_pool"]
    beta = np.array([pool[(3 * i) % len(pool)] for i in range(nlev)])
    q = (qs * beta.astype(LD)).astype(float)
    crh = float(column_relative_humidity(q, p, T))
    ref = float(ld_trapz(q, p) / ld_trapz(qs.astype(float), p))
    ctx.check(abs(crh - ref) <= 1e-12 * max(ref, 1e-300) + 1e-300,
              "crh/value", lambda: "CRH %r, int q dp / int q_s dp = %r" % (
                  crh, ref))
    al = case["alpha"]
    crh_a = float(column_relative_humidity(al * q, p, T))
    ctx.check(abs(crh_a - al * crh) <= 1e-10 * al * crh + 1e-300,
              "crh/not-linear-in-q", lambda: (
                  "CRH(%r q) = %r, %r CRH(q) = %r" % (al, crh_a, al, al * crh)))
    ctx.check(0 <= crh <= 1 + 1e-12, "crh/out-of-range", lambda: repr(crh))


# ---- arbitrary columns (no analytic form) ------------------------------------
@st.composite
def column_cases(draw):
    N = draw(st.one_of(st.integers(2, 12), st.integers(2, 60),
                       st.integers(100, 3000)))
    ncol = draw(st.sampled_from([0, 0, 1, 2, 3]))     # 0 = rank 1
    axis = draw(st.integers(0, 1)) if ncol else 0

    def vec(el, k):
        if k <= 60:
            return draw(st.lists(el, min_size=k, max_size=k))
        pool = draw(st.lists(el, min_size=11, max_size=37))
        return GS.tile(pool, k, draw(st.integers(1, 36)),
                       draw(st.integers(0, 36)), 0.0)

    p0 = draw(st.floats(900e2, 1100e2, allow_nan=False))
    ratios = vec(st.one_of(st.floats(0.5, 0.999, allow_nan=False),
                           st.floats(0.99, 0.99999, allow_nan=False)), N - 1)
    p = [p0]
    for r in ratios:
        p.append(max(p[-1] * r, 1e-3))
    p = [float(v) for v in p]
    for i in range(1, N):              # strictly decreasing by >= 1e-6 rel.
        if p[i] > p[i - 1] * (1 - 1e-6):
            p[i] = p[i - 1] * (1 - 1e-6)
    ptype = draw(st.sampled_from(PTYPES))
    Ttype = ztype = "float"
    if ptype != "float":
        p = int_grid(p)                  # whole Pa
        N = len(p)
        Ttype = draw(st.sampled_from(["float", "int64", "int32"]))
        ztype = draw(st.sampled_from(["float", "int64", "int32"]))
    tot = N * max(ncol, 1)
    vmr = vec(st.one_of(st.floats(0.0, 0.05, allow_nan=False),
                        st.sampled_from([0.0, 0.0, 1e-6, 0.3])), tot)
    T = vec(st.floats(150.0, 350.0, allow_nan=False), tot)
    dz = vec(st.floats(0.5, 3000.0, allow_nan=False), tot)
    if Ttype != "float":
        T = [float(round(v)) for v in T]             # whole K
    if ztype != "float":
        dz = [float(max(1, round(v))) for v in dz]   # whole metres
    return {"N": N, "ncol": ncol, "axis": axis, "p": p, "vmr": vmr, "T": T,
            "dz": dz, "ptype": ptype, "Ttype": Ttype, "ztype": ztype}


def check_columns(case, ctx):
    from typhon.physics import integrate_water_vapor
    C = consts()
    N, ncol, axis = case["N"], case["ncol"], case["axis"]
    ptype = case.get("ptype", "float")
    Ttype, ztype = case.get("Ttype", "float"), case.get("ztype", "float")
    p = np.array(case["p"], dtype=float)
    p_arg = typed(case["p"], ptype)          # what typhon gets
    label_types(ctx, p=ptype, T=Ttype, z=ztype)
    if ncol == 0:
        shape = (N,)
    else:
        shape = (N, ncol) if axis == 0 else (ncol, N)
    ctx.label("rank-%d" % len(shape), "decreasing")
    if axis != 0:
        ctx.label("axis!=0")
    if N >= 100:
        ctx.label("N>=100")
    ctx.nontrivial = True

    def arr(name):
        a = np.array(case[name], dtype=float)
        if ncol == 0:
            return a
        a = a.reshape(ncol, N)
        return a.T.copy() if axis == 0 else a

    vmr, T, dz = arr("vmr"), arr("T"), arr("dz")
    z = np.cumsum(dz, axis=axis) - np.take(dz, [0], axis=axis)
    T_arg = T if Ttype == "float" else T.astype(Ttype)
    z_arg = z if ztype == "float" else z.astype(ztype)
    h = integrate_water_vapor(vmr, p_arg, axis=axis)
    ctx.check(np.shape(h) == (() if ncol == 0 else (ncol,)), "iwv/shape",
              lambda: repr(np.shape(h)))
    if ncol == 0:
        pfull = p_arg
    else:
        pa = np.asarray(p_arg)
        pfull = np.broadcast_to(pa[:, None] if axis == 0 else pa[None, :],
                                shape).copy()
    g = integrate_water_vapor(vmr, pfull, T_arg, z_arg, axis=axis)
    h = np.atleast_1d(np.asarray(h, dtype=float))
    g = np.atleast_1d(np.asarray(g, dtype=float))
    vc = vmr.reshape(N, -1) if axis == 0 else vmr.reshape(-1, N).T
    Tc = T.reshape(N, -1) if axis == 0 else T.reshape(-1, N).T
    zc = z.reshape(N, -1) if axis == 0 else z.reshape(-1, N).T
    for c in range(vc.shape[1]):
        x = vc[:, c].astype(LD)
        qh = x * LD(C["Mw"]) / ((1 - x) * LD(C["Md"]) + x * LD(C["Mw"]))
        ref_h = float(-ld_trapz(qh, p) / LD(C["g"]))
        rho = x * p.astype(LD) / (LD(C["Rv"]) * Tc[:, c].astype(LD))
        ref_g = float(ld_trapz(rho, zc[:, c]))
        ctx.check(h[c] >= 0 and g[c] >= 0, "iwv/negative", lambda: (
            "column %d: hydrostatic %r general %r" % (c, h[c], g[c])))
        ctx.check(abs(h[c] - ref_h) <= 1e-12 * ref_h + 1e-300,
                  "iwv/hydrostatic-formula", lambda: (
                      "column %d (N=%d): %r, -1/g int q dp = %r" % (
                          c, N, h[c], ref_h)))
        ctx.check(abs(g[c] - ref_g) <= 1e-12 * ref_g + 1e-300,
                  "iwv/general-formula", lambda: (
                      "column %d (N=%d): %r, int rho_v dz = %r" % (
                          c, N, g[c], ref_g)))
    # T without z (or z without T) is an error by documentation
    for kw in ({"T": T_arg}, {"z": z_arg}):
        try:
            integrate_water_vapor(vmr, p_arg, axis=axis, **kw)
        except ValueError:
            continue
        ctx.fail("iwv/no-ValueError-for-T-xor-z", repr(list(kw)))


# ---- column relative humidity of several columns -----------------------------
@st.composite
def crh_cases(draw):
    N = draw(st.one_of(st.integers(2, 8), st.integers(2, 40)))
    rank = draw(st.sampled_from([1, 2, 2, 3, 3, 3, 4]))
    if rank == 2:
        other = [draw(st.sampled_from([1, 2, 3, 5, N, N + 3]))]
    elif rank >= 3:
        # horizontal grids: square and rectangular, also equal to N
        d = draw(st.sampled_from([2, 3, 4, N]))
        if draw(st.booleans()):
            other = [d] * (rank - 1)
        else:
            other = [d] + [draw(st.sampled_from([1, 2, 3, 5]))
                           for _ in range(rank - 2)]
            if draw(st.booleans()):
                other = other[::-1]
        while N * int(np.prod(other)) > 6000:
            other[other.index(max(other))] = 2
    else:
        other = []
    pos = draw(st.integers(0, rank - 1)) if draw(st.booleans()) else 0
    axis = pos - rank if (rank > 1 and draw(st.integers(0, 2)) == 0) else pos
    shape = other[:pos] + [N] + other[pos:]
    p0 = draw(st.floats(950e2, 1050e2, allow_nan=False))
    ratios = draw(st.lists(st.floats(0.8, 0.995, allow_nan=False),
                           min_size=N - 1, max_size=N - 1))
    p = [p0]
    for r in ratios:
        p.append(max(p[-1] * r, 150e2 * (1 - 1e-3 * len(p))))
    for i in range(1, N):
        if p[i] > p[i - 1] * (1 - 1e-6):
            p[i] = p[i - 1] * (1 - 1e-6)
    tot = int(np.prod(shape))
    pool_T = draw(st.lists(st.floats(185.0, 300.0, allow_nan=False),
                           min_size=7, max_size=23, unique=True))
    pool_b = draw(st.lists(st.one_of(st.floats(0.0, 1.0, allow_nan=False),
                                     st.just(1.0)), min_size=5, max_size=13))
    a = draw(st.integers(1, 22))
    T = GS.tile(pool_T, tot, a, draw(st.integers(0, 22)), 0.0)
    beta = GS.tile(pool_b, tot, draw(st.integers(1, 12)),
                   draw(st.integers(0, 12)), 0.0)
    ptype = draw(st.sampled_from(PTYPES))
    Ttype = "float"
    if ptype != "float":
        p = int_grid(p)                  # whole Pa (never cut: p > 140 hPa)
        Ttype = draw(st.sampled_from(["float", "int64", "int32"]))
        if Ttype != "float":
            T = [float(round(v)) for v in T]         # whole K
    return {"shape": shape, "axis": axis, "p": [float(v) for v in p],
            "T": T, "beta": beta, "ptype": ptype, "Ttype": Ttype,
            "alpha": draw(st.floats(0.05, 1.0, allow_nan=False))}


def check_crh(case, ctx):
    from typhon.physics import column_relative_humidity
    C = consts()
    shape = tuple(case["shape"])
    rank = len(shape)
    axis = case["axis"]
    pos = axis % rank
    N = shape[pos]
    other = shape[:pos] + shape[pos + 1:]
    p = np.array(case["p"], dtype=float)
    ptype, Ttype = case.get("ptype", "float"), case.get("Ttype", "float")
    p_arg = typed(case["p"], ptype)
    label_types(ctx, p=ptype, T=Ttype)
    ctx.label("crh-rank-%d" % rank, "decreasing")
    if rank >= 2:
        ctx.nontrivial = True
        ctx.label("crh-axis-%d" % axis)
        ncol = int(np.prod(other))
        ctx.label("crh-ncol==nlev" if ncol == N else
                  "crh-ncol>nlev" if ncol > N else "crh-ncol<nlev")
    if rank >= 3:
        ctx.label("crh-level-axis-%s" % (
            "front" if pos <= rank - 3 else "last-two"))
        ctx.label("crh-square-grid" if len(set(other)) == 1
                  else "crh-rectangular-grid")
    T = np.array(case["T"], dtype=float).reshape(shape)
    beta = np.array(case["beta"], dtype=float).reshape(shape)
    bshape = [1] * rank
    bshape[pos] = N
    pl = p.astype(LD).reshape(bshape)
    es = e_mixed(T, C["Tt"])
    if not (es <= 0.3 * pl).all():
        raise AssertionError("generator: saturation pressure > 0.3 p")
    qs = (LD(0.622) * es / (pl - LD(0.378) * es)).astype(float)
    q = (qs.astype(LD) * beta.astype(LD)).astype(float)
    Tcols = columns(T, pos)
    if rank >= 2 and len({tuple(c) for c in Tcols.tolist()}) > 1:
        ctx.label("crh-columns-differ")

    def crh(qq):
        T_arg = T.copy() if Ttype == "float" else T.astype(Ttype)
        if rank == 1:
            return column_relative_humidity(qq.copy(), p_arg, T_arg)
        return column_relative_humidity(qq.copy(), p_arg, T_arg, axis=axis)

    sat = crh(qs)
    ctx.check(np.shape(sat) == other, "crh/shape", lambda: (
        "q shape %r axis %r: result shape %r" % (shape, axis, np.shape(sat))))
    sat = np.asarray(sat, dtype=float).reshape(-1)
    ctx.check(bool((np.abs(sat - 1.0) <= 1e-12).all()), "crh/saturated-not-1",
              lambda: "q shape %r axis %r: CRH of saturated columns = %r" % (
                  shape, axis, sat[:12]))
    got = np.asarray(crh(q), dtype=float).reshape(-1)
    al = case["alpha"]
    got_a = np.asarray(crh(al * q), dtype=float).reshape(-1)
    qc, qsc = columns(q, pos), columns(qs, pos)
    for c in range(qc.shape[0]):
        ref = float(ld_trapz(qc[c], p) / ld_trapz(qsc[c], p))
        ctx.check(abs(got[c] - ref) <= 1e-12 * ref + 1e-300, "crh/value",
                  lambda: "q shape %r axis %r column %d: CRH %r, int q dp / "
                  "int q_s dp = %r" % (shape, axis, c, got[c], ref))
        ctx.check(abs(got_a[c] - al * got[c]) <= 1e-10 * al * got[c] + 1e-300,
                  "crh/not-linear-in-q", lambda: (
                      "column %d: CRH(%r q) = %r, %r CRH(q) = %r" % (
                          c, al, got_a[c], al, al * got[c])))


# ==========================================================================
# pressure2height / standard_atmosphere
# ==========================================================================
@st.composite
def height_cases(draw):
    N = draw(st.one_of(st.integers(2, 12), st.integers(2, 60),
                       st.integers(100, 2000)))

    def vec(el, k):
        if k <= 60:
            return draw(st.lists(el, min_size=k, max_size=k))
        pool = draw(st.lists(el, min_size=11, max_size=37))
        return GS.tile(pool, k, draw(st.integers(1, 36)),
                       draw(st.integers(0, 36)), 0.0)

    p0 = draw(st.one_of(st.floats(500e2, 1100e2, allow_nan=False),
                        st.sampled_from([1013.25e2, 1000e2])))
    uniform = draw(st.integers(0, 3)) == 0
    if uniform:
        ratios = [draw(st.floats(0.9, 0.9999, allow_nan=False))] * (N - 1)
    else:
        ratios = vec(st.one_of(st.floats(0.3, 0.999, allow_nan=False),
                               st.floats(0.99, 0.999999, allow_nan=False)),
                     N - 1)
    p = [p0]
    for r in ratios:
        nxt = p[-1] * r
        if nxt < 0.5:                 # stay inside the ISA range
            nxt = p[-1] * 0.9999
        p.append(float(nxt))
    for i in range(1, N):
        if p[i] > p[i - 1] * (1 - 1e-6):
            p[i] = p[i - 1] * (1 - 1e-6)
    gridname = "uniform-ratio" if uniform else "irregular"
    ptype = draw(st.sampled_from(PTYPES))
    Ttype = "float"
    if ptype != "float":
        if draw(st.integers(0, 2)) == 0:
            # whole Pa in equal steps, like np.arange(100000, 49999, -5)
            step = draw(st.sampled_from([1, 2, 5, 10, 50, 250]))
            p = [int(round(p0)) - k * step for k in range(N)]
            p = [v for v in p if v >= 1000]
            gridname = "uniform-step"
        p = int_grid(p)
        N = len(p)
        Ttype = draw(st.sampled_from(["float", "int64", "int32"]))
    mode = draw(st.sampled_from(["isa", "isothermal", "isothermal",
                                 "arbitrary"]))
    T = None
    if mode == "isothermal":
        T = [draw(st.floats(150.0, 350.0, allow_nan=False))] * N
    elif mode == "arbitrary":
        T = vec(st.floats(150.0, 350.0, allow_nan=False), N)
    if T is not None and Ttype != "float":
        T = [float(round(v)) for v in T]             # whole K
    # profiles stored from the top downwards (increasing pressure)
    order = draw(st.sampled_from(["bottom-up", "bottom-up", "top-down"]))
    if order == "top-down":
        p = p[::-1]
        T = T[::-1] if T is not None else None
    return {"p": p, "T": T, "mode": mode, "grid": gridname, "order": order,
            "ptype": ptype, "Ttype": Ttype if T is not None else "float"}


def check_heights(case, ctx):
    from typhon.physics import pressure2height, standard_atmosphere
    from typhon import constants as c
    p = np.array(case["p"], dtype=float)
    ptype, Ttype = case.get("ptype", "float"), case.get("Ttype", "float")
    p_arg = typed(case["p"], ptype)          # what typhon gets
    label_types(ctx, p=ptype, T=Ttype)
    N = p.size
    mode = case["mode"]
    down = bool(p[0] < p[-1])               # stored top-down
    sgn = -1.0 if down else 1.0
    ctx.label("T-" + mode, "grid-" + case["grid"],
              "increasing-pressure(top-down)" if down else "decreasing")
    if mode == "isothermal":
        ctx.label("isothermal")
    if N >= 100:
        ctx.label("N>=100")
    if case["grid"] == "irregular" or N >= 100:
        ctx.nontrivial = True
    if mode == "isa":
        z = pressure2height(p_arg)
        T = np.asarray(standard_atmosphere(p_arg, coordinates="pressure"),
                       dtype=float)
        Tf = np.asarray(standard_atmosphere(p, coordinates="pressure"),
                        dtype=float)
        ctx.check(np.array_equal(T, Tf), "isa/integer-pressures-differ",
                  lambda: "max difference %r" % np.abs(T - Tf).max())
        z2 = pressure2height(p_arg, T)
        ctx.check(np.shape(z2) == (N,) and np.allclose(z, z2, rtol=1e-14,
                                                       atol=0),
                  "p2h/default-is-not-standard-atmosphere", lambda: (
                      "max difference %r" % np.abs(z - z2).max()))
        if N >= 3:
            # history: another grid with the same size and the same end
            # levels (interior levels moved half a layer) in the same process
            ps = p.copy()
            ps[1:-1] = p[1:-1] + 0.5 * (p[2:] - p[1:-1])
            zs = np.asarray(pressure2height(ps), dtype=float)
            zs2 = pressure2height(ps, np.asarray(standard_atmosphere(
                ps, coordinates="pressure"), dtype=float))
            ctx.label("isa-second-grid-with-same-size-and-end-levels")
            ctx.check(zs.shape == (N,) and np.allclose(zs, zs2, rtol=1e-14,
                                                       atol=0),
                      "p2h/default-depends-on-earlier-calls", lambda: (
                          "second grid with the same size and end levels: "
                          "max difference to the explicit standard "
                          "atmosphere %r m" % np.abs(zs - zs2).max()))
    else:
        T = np.array(case["T"], dtype=float)
        z = pressure2height(p_arg, T if Ttype == "float" else T.astype(Ttype))
    z_raw = np.asarray(z)
    z = np.asarray(z, dtype=float)
    ctx.check(z.shape == (N,), "p2h/shape", lambda: repr(z.shape))
    ctx.check(z[0] == 0, "p2h/does-not-start-at-0", lambda: repr(z[0]))
    # strictly higher where the pressure is lower, in either storage order
    ctx.check(bool((sgn * np.diff(z) > 0).all()), "p2h/not-increasing",
              lambda: (
        "heights do not rise with falling pressure at level %d: p %r z %r" % (
            int(np.argmax(sgn * np.diff(z) <= 0)), p[:6], z[:6])))
    # closed form of the layer-mean-density scheme
    Rd, g = LD(c.gas_constant_dry_air), LD(c.g)
    pl, Tl = p.astype(LD), T.astype(LD)
    rho = pl / (Rd * Tl)
    dzl = 2 * (pl[:-1] - pl[1:]) / (g * (rho[:-1] + rho[1:]))
    ref = np.r_[LD(0), np.cumsum(dzl)]
    err = np.abs(z.astype(LD) - ref)
    tol = (1e-12 + 4 * N * U) * np.abs(ref)
    ctx.check(bool((err <= tol).all()), "p2h/layer-mean-density", lambda: (
        "level %d: z=%r, sum 2 dp / (g (rho_i + rho_i+1)) = %r" % (
            int(np.argmax(err - tol)), z[int(np.argmax(err - tol))],
            float(ref[int(np.argmax(err - tol))]))))
    if mode == "isothermal":
        H = Rd * Tl[0] / g
        lnr = np.log(pl[:-1] / pl[1:])
        law = np.r_[LD(0), np.cumsum(lnr)] * H
        slack = np.r_[LD(0), np.cumsum(np.abs(lnr) ** 3 / 12)] * H
        # |2 tanh(L/2)| <= |L|: the scheme stays on the near side of the law
        d = LD(sgn) * (law - z.astype(LD))
        ctx.check(bool(((d >= -1e-12 * np.abs(law))
                        & (d <= slack * (1 + 1e-9)
                           + 1e-12 * np.abs(law))).all()),
                  "p2h/isothermal-log-law", lambda: (
                      "z=%r..., (RT/g) ln(p0/p)=%r..., allowed deficit %r" % (
                          z[-3:], law[-3:].astype(float),
                          slack[-3:].astype(float))))

    # the same column stored in the other direction: the heights are the
    # mirrored ones, counted from the other end
    if mode == "isa":
        zr = pressure2height(p_arg[::-1])
    else:
        Tr = (T if Ttype == "float" else T.astype(Ttype))[::-1]
        zr = pressure2height(p_arg[::-1], Tr)
    zr = np.asarray(zr, dtype=float)
    mir = z[::-1] - z[-1]
    ctx.check(zr.shape == (N,) and zr[0] == 0 and bool(
        (np.abs(zr - mir) <= (1e-12 + 8 * N * U) * np.abs(z).max()).all()),
        "p2h/not-mirrored-for-reversed-grid", lambda: (
            "reversed grid: %r..., mirrored heights %r..." % (
                zr[:4], mir[:4])))
    ctx.check(np.issubdtype(z_raw.dtype, np.floating),
              "p2h/result-not-float", lambda: (
                  "p %s: heights have dtype %r: %r" % (
                      ptype, z_raw.dtype, z_raw[:6])))

ISA_H = [-610.0, 11000.0, 20000.0, 32000.0, 47000.0, 51000.0, 71000.0,
         84852.0]
ISA_BASE = [0.0, 11000.0, 20000.0, 32000.0, 47000.0, 51000.0, 71000.0,
            84852.0]
ISA_LAPSE = [-0.0065, 0.0, 0.001, 0.0028, 0.0, -0.0028, -0.002]


def isa_definition(h):
    """(T, p) of the International Standard Atmosphere at geopotential
    height h, integrated hydrostatically from the definition"""
    g0, R = 9.80665, 8.31432 / 0.0289644
    T, p = 288.15, 101325.0
    if h < 0:
        T1 = T + ISA_LAPSE[0] * h
        return T1, p * (T1 / T) ** (-g0 / (R * ISA_LAPSE[0]))
    for i in range(7):
        dh = min(h, ISA_BASE[i + 1]) - ISA_BASE[i]
        if dh <= 0:
            break
        if ISA_LAPSE[i] == 0:
            p *= np.exp(-g0 * dh / (R * T))
        else:
            T1 = T + ISA_LAPSE[i] * dh
            p *= (T1 / T) ** (-g0 / (R * ISA_LAPSE[i]))
            T = T1
    return T, p


def isa_cases():
    for i in range(len(ISA_H)):
        yield {"level": i, "kind": "table"}
    for i in range(len(ISA_H) - 1):
        yield {"level": i, "kind": "midpoint"}
    yield {"level": 0, "kind": "below"}
    yield {"level": len(ISA_H) - 1, "kind": "above"}


def check_isa(case, ctx):
    from typhon.physics import standard_atmosphere
    i = case["level"]
    ctx.label("isa-" + case["kind"])
    ctx.nontrivial = True

    def sa(v, **kw):
        return float(np.asarray(standard_atmosphere(v, **kw)))

    if case["kind"] == "table":
        h = ISA_H[i]
        T_def, p_def = isa_definition(h)
        tol = 0.1 if i in (0, len(ISA_H) - 1) else 0.002
        Th = sa(h)
        Tp = sa(p_def, coordinates="pressure")
        ctx.check(abs(Th - T_def) <= tol, "isa/height-addressing", lambda: (
            "T(h=%r) = %r, ISA %r" % (h, Th, T_def)))
        ctx.check(abs(Tp - T_def) <= tol, "isa/pressure-addressing", lambda: (
            "T(p=%r) = %r, ISA at %r m: %r" % (p_def, Tp, h, T_def)))
        ctx.check(abs(Th - Tp) <= (0.03 if tol == 0.1 else 5e-4),
                  "isa/addressing-disagrees", lambda: (
                      "level %r m: by height %r, by pressure %r" % (h, Th, Tp)))
        # integer heights (Python int, int64 / int32 arrays, list of ints)
        for arg in (int(h), np.array([int(h)], dtype=np.int64),
                    np.array([int(h)], dtype=np.int32), [int(h)]):
            Ti = np.asarray(standard_atmosphere(arg), dtype=float).reshape(-1)
            ctx.check(Ti.size == 1 and Ti[0] == Th, "isa/integer-height",
                      lambda: "T(%r) = %r, T(%r) = %r" % (arg, Ti, h, Th))
        ctx.label("integer-typed-input")
        # array input gives the same as scalar input
        arr = np.asarray(standard_atmosphere(np.array([h, h + 1.0])))
        ctx.check(arr.shape == (2,) and arr[0] == Th, "isa/array-input",
                  lambda: repr(arr))
    elif case["kind"] == "midpoint":
        a, b = ISA_H[i], ISA_H[i + 1]
        for f in (0.5, 0.25, 0.9):
            hm = a + f * (b - a)
            exp = sa(a) + f * (sa(b) - sa(a))
            ctx.check(abs(sa(hm) - exp) <= 1e-12 * exp,
                      "isa/not-linear-between-levels", lambda: (
                          "T(%r) = %r, interpolated %r" % (hm, sa(hm), exp)))
    else:
        # linear extrapolation outside of the table
        if case["kind"] == "below":
            a, b, hs = ISA_H[0], ISA_H[1], [-1000.0, -2000.0]
        else:
            a, b, hs = ISA_H[-1], ISA_H[-2], [90000.0, 100000.0]
        slope = (sa(b) - sa(a)) / (b - a)
        for h in hs:
            exp = sa(a) + slope * (h - a)
            ctx.check(abs(sa(h) - exp) <= 1e-10 * abs(exp),
                      "isa/not-linearly-extrapolated", lambda: (
                          "T(%r) = %r, extrapolated %r" % (h, sa(h), exp)))
    # an unknown coordinate is an error by documentation
    try:
        standard_atmosphere(0.0, coordinates="depth")
    except ValueError:
        return
    ctx.fail("isa/no-ValueError-for-unknown-coordinate", "")


def suites(tier):
    nmax = 10000
    return [
        Suite("integrals", check_integral, strategy=integral_cases(nmax),
              examples={"quick": 750, "thorough": 5000}),
        Suite("profiles", check_profile, strategy=profile_cases(),
              examples={"quick": 40, "thorough": 300}),
        Suite("columns", check_columns, strategy=column_cases(),
              examples={"quick": 150, "thorough": 1000}),
        Suite("crh-columns", check_crh, strategy=crh_cases(),
              examples={"quick": 100, "thorough": 1000}),
        Suite("heights", check_heights, strategy=height_cases(),
              examples={"quick": 200, "thorough": 1500}),
        Suite("isa-table", check_isa, cases=isa_cases, exhaustive=True),
    ]
