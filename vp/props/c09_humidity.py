"""C09 - humidity measures, saturation pressures, RH <-> VMR, moist lapse rate.

Oracles:
  * exact: typhon.constants.molar_mass_dry_air / _water are replaced by
    fractions.Fraction for the duration of a case; the six (branch-free)
    converters are evaluated on Fraction arguments and compared *as rationals*
    with the definitions x = n_w/(n_w+n_d), w = m_w/m_d, q = m_w/(m_w+m_d) of
    a composition, with each other (inverse pairs, two-step routes), for
    0 -> 0 and strict monotonicity;
  * float: the same identities against a long-double reference (rtol 1e-13);
  * saturation pressures: positivity, monotonicity, ice <= liquid below the
    triple point, the three regimes and continuity of the mixed-phase
    formula, rejection of T <= 0, the documented Murphy-Koop formulas in long
    double;
  * RH <-> VMR inverse for built-in and custom saturation functions;
  * moist lapse rate: bounds, dry limit, Bohren & Albrecht 6.111 in long
    double.
"""
import math
from fractions import Fraction

import numpy as np
from hypothesis import strategies as st

from vp.oracle.c07_guard import Guarded
from vp.runner import Suite

PROP_ID = "C09"
LEVEL = "exploration"
QUICK_SHARDS = 4
RULE = (
    "exact suite: 1-12 rational mixing ratios p/q in [0, 1) (denominators up "
    "to 1e6, plus 0, 1/2, 1e-12, 1-1e-9) and rational molar masses (the "
    "decimal values of typhon.constants or random positive rationals, also "
    "M_w >= M_d); float suite: 1-40 floats (0, log-uniform 1e-12..0.999, "
    "1-2^-k) as Python/NumPy scalars, 0-d, 1-D, 2-D, 3-D arrays; saturation "
    "suite: temperatures in [100, 400] K weighted on T_t = 273.16 K, "
    "T_t - 23 K and their float neighbours (+-1, +-2 ulp), every case also "
    "probes both branch temperatures +-0..2 ulp; reject suite: scalars and "
    "arrays containing a temperature <= 0; rh-lapse suite: (RH in [0, 2], "
    "T in [100, 400] K, p in [100, 110000] Pa) with the default, the three "
    "typhon and three custom saturation functions, for the lapse rate with "
    "p >= e_s(T)/0.99 (unsaturated air exists).  Non-trivial = exact case "
    "with a non-zero ratio (two-step routes are then distinct from the "
    "identity), or a temperature within 2 ulp of a branch temperature, or "
    "array input, or a rejected input.  Distinct = distinct case hash."
)
ASSUMPTIONS = [
    "the six converters read typhon.constants.molar_mass_* at call time "
    "(checked in every exact case; otherwise the run is inconclusive)",
    "mixing ratios in [0, 1); temperatures 100..400 K; pressures 100..110000 "
    "Pa; for the lapse rate additionally e_s(T) <= 0.99 p (a saturation "
    "mixing ratio exists only below the boiling point)",
    "custom saturation functions are positive and elementwise",
    "the mixed-phase weight is ((T - (T_t - 23)) / 23)^2 (IFS documentation; "
    "the only reading of the docstring that is continuous)",
]

LD = np.longdouble
TT = 273.16
TI = 273.16 - 23.0            # as computed by typhon: 250.16000000000003
MD_DEC = Fraction("28.9645e-3")
MW_DEC = Fraction("18.01528e-3")


def ld(a):
    return np.asarray(a, dtype=LD)


def ulps(x, k):
    for _ in range(abs(k)):
        x = float(np.nextafter(x, math.inf if k > 0 else -math.inf))
    return x


BRANCH_PROBES = [ulps(TT, k) for k in (-2, -1, 0, 1, 2)] + \
    [ulps(TI, k) for k in (-2, -1, 0, 1, 2)]


def _mk(values, shape, scalar_type="py"):
    if shape == []:
        v = float(values[0])
        if scalar_type == "py":
            return v
        if scalar_type == "np":
            return np.float64(v)
        return np.array(v)
    return np.array(values, dtype=float).reshape(shape)


def relclose(got, ref, rtol):
    got, ref = ld(got), ld(ref)
    return bool(np.all(np.abs(got - ref) <= rtol * np.abs(ref)))


# --------------------------------------------------------------------------
# exact (rational) converters
# --------------------------------------------------------------------------
def check_exact(case, ctx):
    from typhon import constants
    from typhon.physics import atmosphere
    A = Guarded(atmosphere, ctx)
    md, mw = case["md"], case["mw"]
    vals = sorted(set(case["vals"]))
    ctx.label("exact", "exact-decimal-masses" if (md, mw) == (MD_DEC, MW_DEC)
              else "exact-random-masses")
    if mw >= md:
        ctx.label("exact-Mw>=Md")
    old = (constants.molar_mass_dry_air, constants.molar_mass_water)
    constants.molar_mass_dry_air, constants.molar_mass_water = md, mw
    try:
        probe = A.vmr2mixing_ratio(Fraction(1, 2))
        if not isinstance(probe, Fraction):
            raise RuntimeError(
                "harness assumption broken: vmr2mixing_ratio does not read "
                "typhon.constants.molar_mass_* at call time (got %r)"
                % (probe,))
        x2w, x2q = A.vmr2mixing_ratio, A.vmr2specific_humidity
        w2x, w2q = A.mixing_ratio2vmr, A.mixing_ratio2specific_humidity
        q2x, q2w = A.specific_humidity2vmr, A.specific_humidity2mixing_ratio
        fns = {"vmr2mixing_ratio": x2w, "vmr2specific_humidity": x2q,
               "mixing_ratio2vmr": w2x,
               "mixing_ratio2specific_humidity": w2q,
               "specific_humidity2vmr": q2x,
               "specific_humidity2mixing_ratio": q2w}

        def same(got, exp, sig, what):
            ctx.check(isinstance(got, (Fraction, int)) and got == exp, sig,
                      lambda: "Md=%s Mw=%s: %s = %r, expected %s"
                      % (md, mw, what, got, exp))

        for name, fn in fns.items():
            same(fn(Fraction(0)), 0, "zero/" + name, name + "(0)")
            ctx.check(fn(0) == 0, "zero/" + name, lambda: (
                "%s(int 0) = %r" % (name, fn(0))))
        for v in vals:
            # a composition of n_w = v and n_d = 1 - v moles
            m_w, m_d = v * mw, (1 - v) * md
            x, w, q = v, m_w / m_d, m_w / (m_w + m_d)
            same(x2w(x), w, "definition/vmr2mixing_ratio",
                 "vmr2mixing_ratio(%s)" % x)
            same(x2q(x), q, "definition/vmr2specific_humidity",
                 "vmr2specific_humidity(%s)" % x)
            same(w2x(w), x, "definition/mixing_ratio2vmr",
                 "mixing_ratio2vmr(%s)" % w)
            same(w2q(w), q, "definition/mixing_ratio2specific_humidity",
                 "mixing_ratio2specific_humidity(%s)" % w)
            same(q2x(q), x, "definition/specific_humidity2vmr",
                 "specific_humidity2vmr(%s)" % q)
            same(q2w(q), w, "definition/specific_humidity2mixing_ratio",
                 "specific_humidity2mixing_ratio(%s)" % q)
            # the statement's identities with v in every role
            for a, b, nm in ((x2w, w2x, "vmr-mixing_ratio"),
                             (w2x, x2w, "mixing_ratio-vmr"),
                             (w2q, q2w, "mixing_ratio-specific_humidity"),
                             (q2w, w2q, "specific_humidity-mixing_ratio"),
                             (x2q, q2x, "vmr-specific_humidity"),
                             (q2x, x2q, "specific_humidity-vmr")):
                same(b(a(v)), v, "inverse/" + nm,
                     "%s(%s(%s))" % (b.__name__, a.__name__, v))
            for a, b, d in ((x2w, w2q, x2q), (x2q, q2w, x2w),
                            (w2x, x2q, w2q), (w2q, q2x, w2x),
                            (q2w, w2x, q2x), (q2x, x2w, q2w)):
                same(b(a(v)), d(v), "route/" + d.__name__,
                     "%s(%s(%s)) vs %s" % (b.__name__, a.__name__, v,
                                           d.__name__))
            for name, fn in fns.items():
                r = fn(v)
                ctx.check(r >= 0 and (r < 1 or name.endswith("mixing_ratio")),
                          "range/" + name, lambda: "%s(%s) = %s" % (name, v,
                                                                    r))
        for v1, v2 in zip(vals, vals[1:]):
            for name, fn in fns.items():
                ctx.check(fn(v1) < fn(v2), "monotone/" + name, lambda: (
                    "Md=%s Mw=%s: %s(%s) = %s is not below %s(%s) = %s"
                    % (md, mw, name, v1, fn(v1), name, v2, fn(v2))))
    finally:
        constants.molar_mass_dry_air, constants.molar_mass_water = old
    ctx.nontrivial = any(v != 0 for v in vals)
    if len(vals) > 1:
        ctx.label("exact-ordered-pairs")


@st.composite
def exact_cases(draw):
    ratio = st.one_of(
        st.fractions(0, Fraction(999, 1000), max_denominator=10 ** 6),
        st.fractions(0, Fraction(1, 10), max_denominator=10 ** 6),
        st.fractions(0, Fraction(49, 50), max_denominator=50),
        st.sampled_from([Fraction(0), Fraction(1, 2), Fraction(1, 10 ** 12),
                         1 - Fraction(1, 10 ** 9), Fraction(1, 25),
                         Fraction(999, 1000)]))
    vals = draw(st.lists(ratio, min_size=1, max_size=12))
    if draw(st.booleans()):
        md, mw = MD_DEC, MW_DEC
    else:
        mass = st.fractions(Fraction(1, 1000), Fraction(1, 5),
                            max_denominator=10 ** 5)
        md, mw = draw(mass), draw(mass)
    return {"md": md, "mw": mw, "vals": vals}


# --------------------------------------------------------------------------
# float converters
# --------------------------------------------------------------------------
def check_float(case, ctx):
    from typhon import constants
    from typhon.physics import atmosphere
    A = Guarded(atmosphere, ctx)
    kind = case["kind"]
    ctx.label("float-" + kind)
    if kind == "0d":
        ctx.label("0d")
    md, mw = LD(constants.molar_mass_dry_air), LD(constants.molar_mass_water)
    x2w, x2q = A.vmr2mixing_ratio, A.vmr2specific_humidity
    w2x, w2q = A.mixing_ratio2vmr, A.mixing_ratio2specific_humidity
    q2x, q2w = A.specific_humidity2vmr, A.specific_humidity2mixing_ratio
    fns = [x2w, x2q, w2x, w2q, q2x, q2w]
    RT = 1e-13

    def rt(second, u):
        """tolerance of a two-step route: u / (1 - u) in the second step
        amplifies the rounding of the intermediate ratio u by 1 / (1 - u)"""
        if second in (x2w, q2w):
            return RT + 8e-16 / (1 - ld(u))
        return RT

    def run(V):
        v = ld(V)
        shape = np.shape(V)

        def info():
            return "v=%r" % (np.asarray(V).tolist(),)

        m_w, m_d = v * mw, (1 - v) * md
        w, q = m_w / m_d, m_w / (m_w + m_d)
        # v as a mole fraction (x), as a mass ratio (w: n_w/n_d = w Md/Mw)
        # and as a mass fraction (q: n_w = q/Mw, n_d = (1-q)/Md)
        for fn, arg, ref in ((x2w, V, w), (x2q, V, q),
                             (w2x, V, (v * md / mw) / (1 + v * md / mw)),
                             (w2q, V, v / (1 + v)),
                             (q2x, V, (v / mw) / (v / mw + (1 - v) / md)),
                             (q2w, V, v / (1 - v))):
            got = fn(arg)
            ctx.check(np.shape(got) == shape, "shape/" + fn.__name__,
                      lambda: "%s: result shape %r" % (info(), np.shape(got)))
            ctx.check(relclose(got, ref, RT), "reference/" + fn.__name__,
                      lambda: "%s: %s = %r, expected %r" % (
                          info(), fn.__name__, np.asarray(got).tolist(),
                          ref.astype(float).tolist()))
            ctx.check(np.all(np.asarray(got)[np.asarray(V) == 0] == 0),
                      "zero/" + fn.__name__, lambda: info())
        for a, b, nm in ((x2w, w2x, "vmr-mixing_ratio"),
                         (w2x, x2w, "mixing_ratio-vmr"),
                         (w2q, q2w, "mixing_ratio-specific_humidity"),
                         (q2w, w2q, "specific_humidity-mixing_ratio"),
                         (x2q, q2x, "vmr-specific_humidity"),
                         (q2x, x2q, "specific_humidity-vmr")):
            got = b(a(V))
            ctx.check(relclose(got, v, rt(b, a(V))), "inverse/" + nm, lambda: (
                "%s: %s(%s(v)) = %r" % (info(), b.__name__, a.__name__,
                                        np.asarray(got).tolist())))
        for a, b, d in ((x2w, w2q, x2q), (x2q, q2w, x2w), (w2x, x2q, w2q),
                        (w2q, q2x, w2x), (q2w, w2x, q2x), (q2x, x2w, q2w)):
            got, direct = b(a(V)), d(V)
            ctx.check(relclose(got, direct, rt(b, a(V))),
                      "route/" + d.__name__,
                      lambda: "%s: %s(%s(v)) = %r but %s(v) = %r" % (
                          info(), b.__name__, a.__name__,
                          np.asarray(got).tolist(), d.__name__,
                          np.asarray(direct).tolist()))

    if kind in ("scalar", "0d"):
        for i, val in enumerate(case["vals"]):
            run(_mk([val], [], "0d" if kind == "0d" else ("py", "np")[i % 2]))
    else:
        run(_mk(case["vals"], case["shape"]))
    # increasing: ordered values at least 1e-9 (relative) apart
    vs = sorted(set(case["vals"]))
    sep = [vs[0]] if vs else []
    for v in vs[1:]:
        if v >= sep[-1] * (1 + 1e-9) + 1e-300:
            sep.append(v)
    if len(sep) > 1:
        arr = np.array(sep)
        for fn in fns:
            out = np.asarray(fn(arr))
            ctx.check(np.all(np.diff(out) > 0), "monotone/" + fn.__name__,
                      lambda: "%s(%r) = %r is not strictly increasing" % (
                          fn.__name__, sep, out.tolist()))
        ctx.label("float-ordered-pairs")
    ctx.nontrivial = kind not in ("scalar", "0d")


def ratio_floats():
    def logu(lo, hi):
        a, b = math.log(lo), math.log(hi)
        return st.floats(0.0, 1.0).map(lambda u: math.exp(a + u * (b - a)))
    return st.one_of(
        logu(1e-12, 0.999), st.floats(1e-12, 0.999), logu(1e-4, 0.1),
        st.sampled_from([0.0, 0.5, 0.02, 0.04, 0.999, 1e-12]),
        st.integers(1, 40).map(lambda k: 1.0 - 2.0 ** -k))


@st.composite
def float_cases(draw):
    kind = draw(st.sampled_from(["scalar", "scalar", "0d", "1d", "1d", "2d",
                                 "3d"]))
    if kind in ("scalar", "0d"):
        shape = []
        n = draw(st.integers(1, 8))
    elif kind == "1d":
        n = draw(st.one_of(st.integers(1, 8), st.integers(1, 40)))
        shape = [n]
    elif kind == "2d":
        shape = [draw(st.integers(1, 5)), draw(st.integers(1, 6))]
        n = shape[0] * shape[1]
    else:
        shape = [draw(st.integers(1, 3)), draw(st.integers(1, 3)),
                 draw(st.integers(1, 4))]
        n = shape[0] * shape[1] * shape[2]
    vals = draw(st.lists(ratio_floats(), min_size=n, max_size=n))
    return {"kind": kind, "shape": shape, "vals": vals}


# --------------------------------------------------------------------------
# saturation pressures
# --------------------------------------------------------------------------
def ref_ice(T):
    T = ld(T)
    return np.exp(LD(9.550426) - LD(5723.265) / T + LD(3.53068) * np.log(T)
                  - LD(0.00728332) * T)


def ref_water(T):
    T = ld(T)
    return np.exp(LD(54.842763) - LD(6763.22) / T - LD(4.21) * np.log(T)
                  + LD(0.000367) * T
                  + np.tanh(LD(0.0415) * (T - LD(218.8)))
                  * (LD(53.878) - LD(1331.22) / T - LD(9.44523) * np.log(T)
                     + LD(0.014025) * T))


def ref_mixed(T):
    T = ld(T)
    i, w = ref_ice(T), ref_water(T)
    wgt = ((T - LD(TI)) / LD(23)) ** 2
    return np.where(T > LD(TT), w, np.where(T < LD(TI), i,
                                            i + (w - i) * wgt))


def saturation_checks(ctx, A, T, what):
    shape = np.shape(T)
    Tf = np.asarray(T, dtype=float)
    T_before = Tf.copy()
    scalar_in = not isinstance(T, np.ndarray) or T.ndim == 0

    def info():
        return "%s T=%r" % (what, Tf.tolist())

    ice = A.e_eq_ice_mk(T)
    water = A.e_eq_water_mk(T)
    mixed = A.e_eq_mixed_mk(T)
    ctx.check(np.array_equal(np.asarray(T, float), T_before),
              "saturation/input-modified", info)
    for name, v in (("e_eq_ice_mk", ice), ("e_eq_water_mk", water),
                    ("e_eq_mixed_mk", mixed)):
        ctx.check(np.shape(v) == shape, "shape/" + name, lambda: (
            "%s: result shape %r" % (info(), np.shape(v))))
        if scalar_in:
            ctx.check(np.ndim(v) == 0 and not (
                isinstance(v, np.ndarray) and not isinstance(T, np.ndarray)),
                "shape/" + name + "-scalar", lambda: "%s: result %r of type "
                "%s" % (info(), v, type(v).__name__))
        ctx.check(np.all(np.asarray(v) > 0) and np.all(np.isfinite(v)),
                  "positive/" + name, lambda: "%s: %r" % (
                      info(), np.asarray(v).tolist()))
    ice, water, mixed = (np.broadcast_to(np.asarray(v, float), shape)
                         for v in (ice, water, mixed))
    ctx.check(relclose(ice, ref_ice(Tf), 2e-13), "reference/e_eq_ice_mk",
              lambda: "%s: %r, Murphy-Koop in long double %r" % (
                  info(), ice.tolist(), ref_ice(Tf).astype(float).tolist()))
    ctx.check(relclose(water, ref_water(Tf), 2e-13),
              "reference/e_eq_water_mk", lambda: (
                  "%s: %r, Murphy-Koop in long double %r" % (
                      info(), water.tolist(),
                      ref_water(Tf).astype(float).tolist())))
    # ice <= liquid below the triple point, equal there
    below = Tf <= TT
    ctx.check(np.all(ice[below] <= water[below] * (1 + 1e-6)),
              "order/ice-above-liquid", lambda: "%s: ice %r water %r" % (
                  info(), ice.tolist(), water.tolist()))
    at = Tf == TT
    ctx.check(np.all(np.abs(ice[at] / water[at] - 1) <= 1e-6),
              "order/triple-point", lambda: "%s: ice %r water %r" % (
                  info(), ice.tolist(), water.tolist()))
    # regimes of the mixed-phase formula
    is_ice, is_water = Tf < TI, Tf > TT
    mid = ~is_ice & ~is_water
    ctx.check(np.all(np.abs(mixed[is_ice] - ice[is_ice])
                     <= 1e-15 * ice[is_ice]), "mixed/not-ice-below-Tt-23",
              lambda: "%s: mixed %r ice %r" % (info(), mixed.tolist(),
                                               ice.tolist()))
    ctx.check(np.all(np.abs(mixed[is_water] - water[is_water])
                     <= 1e-15 * water[is_water]), "mixed/not-liquid-above-Tt",
              lambda: "%s: mixed %r water %r" % (info(), mixed.tolist(),
                                                 water.tolist()))
    lo, hi = np.minimum(ice, water), np.maximum(ice, water)
    ctx.check(np.all(mixed[mid] >= lo[mid] * (1 - 1e-12))
              and np.all(mixed[mid] <= hi[mid] * (1 + 1e-12)),
              "mixed/not-between", lambda: "%s: mixed %r ice %r water %r" % (
                  info(), mixed.tolist(), ice.tolist(), water.tolist()))
    ctx.check(relclose(mixed, ref_mixed(Tf), 1e-12), "reference/e_eq_mixed_mk",
              lambda: "%s: %r, expected %r" % (
                  info(), mixed.tolist(),
                  ref_mixed(Tf).astype(float).tolist()))
    # continuity at the branch temperatures
    near_i = np.abs(Tf - TI) <= 1e-9
    near_t = np.abs(Tf - TT) <= 1e-9
    ctx.check(np.all(np.abs(mixed[near_i] / ice[near_i] - 1) <= 1e-9),
              "mixed/jump-at-Tt-23", lambda: "%s: mixed %r ice %r" % (
                  info(), mixed.tolist(), ice.tolist()))
    ctx.check(np.all(np.abs(mixed[near_t] / water[near_t] - 1) <= 1e-9),
              "mixed/jump-at-Tt", lambda: "%s: mixed %r water %r" % (
                  info(), mixed.tolist(), water.tolist()))
    # strictly increasing for a step of 1e-6 K (and more)
    for step in (1e-6, 1e-3, 1.0):
        T2 = Tf + step
        T2 = T2 if shape else float(T2)
        for name, fn, v in (("e_eq_ice_mk", A.e_eq_ice_mk, ice),
                            ("e_eq_water_mk", A.e_eq_water_mk, water),
                            ("e_eq_mixed_mk", A.e_eq_mixed_mk, mixed)):
            v2 = np.asarray(fn(T2), float)
            ctx.check(np.all(v2 > v), "monotone/" + name, lambda: (
                "%s: value at T + %g (%r) is not above the value at T (%r)"
                % (info(), step, v2.tolist(), v.tolist())))


def check_saturation(case, ctx):
    from typhon import constants
    from typhon.physics import atmosphere
    A = Guarded(atmosphere, ctx)
    if constants.triple_point_water != TT:
        raise RuntimeError("harness constant T_t differs from typhon's")
    kind = case["kind"]
    ctx.label("sat-" + kind)
    if kind == "0d":
        ctx.label("0d")
    Ts = np.asarray(case["T"], float)
    nb_t = np.abs(Ts - TT) <= 2.5 * np.spacing(TT)
    nb_i = np.abs(Ts - TI) <= 2.5 * np.spacing(TI)
    if np.any(nb_t):
        ctx.label("branch-Tt")
    if np.any(nb_i):
        ctx.label("branch-Tt-23")
    if np.any(Ts < TI) and np.any(Ts > TT) and np.any((Ts >= TI) & (Ts <= TT)):
        ctx.label("sat-all-three-regimes")
    if kind in ("scalar", "0d"):
        for i, t in enumerate(case["T"]):
            saturation_checks(ctx, A, _mk([t], [], "0d" if kind == "0d" else
                                          ("py", "np")[i % 2]), "scalar")
    else:
        saturation_checks(ctx, A, _mk(case["T"], case["shape"]), "array")
    # both branch temperatures and their neighbours, as array and as scalars
    saturation_checks(ctx, A, np.array(BRANCH_PROBES), "branch probes")
    for t in BRANCH_PROBES:
        saturation_checks(ctx, A, t, "branch probe")
    # integer temperatures are numbers, too
    if case["int_T"] is not None:
        t = int(case["int_T"])
        for fn, ref in ((A.e_eq_ice_mk, ref_ice), (A.e_eq_water_mk, ref_water),
                        (A.e_eq_mixed_mk, ref_mixed)):
            v = fn(t)
            ctx.check(np.ndim(v) == 0 and relclose(v, ref(float(t)), 1e-12),
                      "reference/" + fn.__name__ + "-int", lambda: (
                          "%s(%d) = %r" % (fn.__name__, t, v)))
    ctx.nontrivial = bool(np.any(nb_t) or np.any(nb_i)
                          or kind not in ("scalar", "0d"))


def temperature_values():
    branch = st.builds(ulps, st.sampled_from([TT, TI]),
                       st.sampled_from([-2, -1, 0, 1, 2]))
    near = st.builds(lambda b, d: b + d, st.sampled_from([TT, TI]),
                     st.floats(-1e-3, 1e-3))
    return st.one_of(st.floats(100.0, 399.0), st.floats(240.0, 280.0), branch,
                     near, st.sampled_from([100.0, 399.0, 273.15, 218.8,
                                            250.16, 300.0]))


@st.composite
def saturation_cases(draw):
    kind = draw(st.sampled_from(["scalar", "scalar", "0d", "1d", "1d", "2d",
                                 "3d"]))
    if kind in ("scalar", "0d"):
        shape, n = [], draw(st.integers(1, 5))
    elif kind == "1d":
        n = draw(st.one_of(st.integers(1, 8), st.integers(1, 40)))
        shape = [n]
    elif kind == "2d":
        shape = [draw(st.integers(1, 5)), draw(st.integers(1, 6))]
        n = shape[0] * shape[1]
    else:
        shape = [draw(st.integers(1, 3)), draw(st.integers(1, 3)),
                 draw(st.integers(1, 4))]
        n = shape[0] * shape[1] * shape[2]
    return {"kind": kind, "shape": shape,
            "T": draw(st.lists(temperature_values(), min_size=n, max_size=n)),
            "int_T": draw(st.one_of(st.none(), st.integers(100, 399)))}


def check_reject(case, ctx):
    from typhon.physics import atmosphere
    A = Guarded(atmosphere, ctx)
    ctx.label("reject", "reject-" + case["kind"])
    ctx.nontrivial = True
    vals = case["T"]
    if case["kind"] == "scalar":
        T = {"py": float, "np": np.float64, "0d": np.array,
             "int": int}[case["stype"]](vals[0])
    else:
        T = np.array(vals, dtype=float).reshape(case["shape"])
    for fn in (A.e_eq_ice_mk, A.e_eq_water_mk, A.e_eq_mixed_mk):
        try:
            out = fn(T)
        except ValueError:
            continue
        ctx.fail("reject/no-ValueError-" + fn.__name__,
                 "%s(%r) returned %r although a temperature is <= 0"
                 % (fn.__name__, np.asarray(T).tolist(), out))


@st.composite
def reject_cases(draw):
    bad = st.one_of(st.floats(-400.0, 0.0), st.sampled_from([0.0, -0.0, -1.0,
                                                             -273.15]),
                    st.floats(-1e-300, 0.0))
    if draw(st.booleans()):
        stype = draw(st.sampled_from(["py", "np", "0d", "int"]))
        v = draw(bad)
        if stype == "int":
            v = float(math.floor(v))
        return {"kind": "scalar", "stype": stype, "T": [v], "shape": []}
    shape = draw(st.sampled_from([[1], [3], [7], [2, 3], [2, 2, 2], [1, 5]]))
    n = int(np.prod(shape))
    vals = draw(st.lists(st.floats(100.0, 400.0), min_size=n, max_size=n))
    k = draw(st.integers(1, min(3, n)))
    for _ in range(k):
        vals[draw(st.integers(0, n - 1))] = draw(bad)
    return {"kind": "array", "stype": "py", "T": vals, "shape": shape}


# --------------------------------------------------------------------------
# RH <-> VMR and the moist lapse rate
# --------------------------------------------------------------------------
def _custom(name):
    from typhon.physics import atmosphere as A
    table = {
        "default": None,
        "water": A.e_eq_water_mk,
        "ice": A.e_eq_ice_mk,
        "mixed": A.e_eq_mixed_mk,
        "const": lambda T: 611.0 + 0.0 * T,
        "magnus": lambda T: 611.2 * np.exp(17.62 * (T - 273.15)
                                           / (T - 30.03)),
        "linear": lambda T: 3.0 * T,
    }
    return table[name]


def py_esat(name, T):
    """double precision saturation pressure used by the generator to keep
    e_s <= 0.99 p (plain Python, independent of typhon)"""
    lnT = math.log(T)
    ice = math.exp(9.550426 - 5723.265 / T + 3.53068 * lnT - 0.00728332 * T)
    wat = math.exp(54.842763 - 6763.22 / T - 4.21 * lnT + 0.000367 * T
                   + math.tanh(0.0415 * (T - 218.8))
                   * (53.878 - 1331.22 / T - 9.44523 * lnT + 0.014025 * T))
    if name in ("default", "water"):
        return wat
    if name == "ice":
        return ice
    if name == "mixed":
        if T > TT:
            return wat
        if T < TI:
            return ice
        return ice + (wat - ice) * ((T - TI) / 23.0) ** 2
    if name == "const":
        return 611.0
    if name == "magnus":
        return 611.2 * math.exp(17.62 * (T - 273.15) / (T - 30.03))
    return 3.0 * T


def lapse_tmax(name):
    """largest temperature (<= 400 K) with e_s(T) <= 0.99 * 110000 Pa"""
    if py_esat(name, 400.0) <= 0.99 * 110000.0:
        return 400.0
    lo, hi = 100.0, 400.0
    for _ in range(60):
        mid = 0.5 * (lo + hi)
        if py_esat(name, mid) <= 0.99 * 110000.0:
            lo = mid
        else:
            hi = mid
    return lo


def check_rh_lapse(case, ctx):
    from typhon import constants
    from typhon.physics import atmosphere
    A = Guarded(atmosphere, ctx)
    name = case["e_eq"]
    e_eq = _custom(name)
    kind = case["kind"]
    ctx.label("rh-" + kind, "e_eq-" + name)
    if name in ("const", "magnus", "linear"):
        ctx.label("custom-e_eq")
    sh = case["shapes"]

    def run(RH, P, T, PL, TL):
        shape = np.broadcast(RH, P, T).shape
        kw = {} if e_eq is None else {"e_eq": e_eq}
        es = (A.e_eq_water_mk if e_eq is None else e_eq)(T)

        def info():
            return "e_eq=%s RH=%r p=%r T=%r" % (
                name, np.asarray(RH).tolist(), np.asarray(P).tolist(),
                np.asarray(T).tolist())

        vmr = A.relative_humidity2vmr(RH, P, T, **kw)
        ctx.check(np.shape(vmr) == shape, "shape/relative_humidity2vmr",
                  lambda: "%s: %r" % (info(), np.shape(vmr)))
        ctx.check(relclose(vmr, ld(RH) * ld(es) / ld(P), 1e-14),
                  "reference/relative_humidity2vmr", lambda: (
                      "%s: %r" % (info(), np.asarray(vmr).tolist())))
        rh2 = A.vmr2relative_humidity(vmr, P, T, **kw)
        ctx.check(np.shape(rh2) == shape and relclose(
            rh2, np.broadcast_to(ld(RH), shape), 1e-13), "inverse/rh-vmr-rh",
            lambda: "%s: back %r" % (info(), np.asarray(rh2).tolist()))
        # the other way round, RH taken as a VMR
        rh3 = A.vmr2relative_humidity(RH, P, T, **kw)
        ctx.check(relclose(rh3, ld(RH) * ld(P) / ld(es), 1e-14),
                  "reference/vmr2relative_humidity", lambda: (
                      "%s: %r" % (info(), np.asarray(rh3).tolist())))
        v3 = A.relative_humidity2vmr(rh3, P, T, **kw)
        ctx.check(relclose(v3, np.broadcast_to(ld(RH), shape), 1e-13),
                  "inverse/vmr-rh-vmr", lambda: "%s: back %r" % (
                      info(), np.asarray(v3).tolist()))
        # ---- moist lapse rate with the admissible pressure PL ------------
        g = LD(constants.earth_standard_gravity)
        Lv = LD(constants.heat_of_vaporization)
        Rd = LD(constants.gas_constant_dry_air)
        Rv = LD(constants.gas_constant_water_vapor)
        cp = LD(constants.isobaric_mass_heat_capacity)
        eps_ = LD(constants.molar_mass_water) / LD(constants.molar_mass_dry_air)
        T = TL
        es = (A.e_eq_water_mk if e_eq is None else e_eq)(T)
        shape2 = np.broadcast(PL, T).shape
        Tl, Pl = np.broadcast_arrays(ld(T), ld(PL))
        # e_s as handed out by the saturation function (its correctness is
        # the business of the saturation suite)
        esl = ld(np.broadcast_to(np.asarray(es, float), shape2))
        xs = esl / Pl
        ws = eps_ * xs / (1 - xs)
        a = Lv * ws / (Rd * Tl)
        b = Lv * Lv * ws / (cp * Rv * Tl * Tl)
        gam = A.moist_lapse_rate(PL, T, **kw)

        def info2():
            return "e_eq=%s p=%r T=%r (e_s/p=%r)" % (
                name, np.asarray(PL).tolist(), np.asarray(T).tolist(),
                xs.astype(float).tolist())

        ctx.check(np.shape(gam) == shape2, "shape/moist_lapse_rate",
                  lambda: "%s: %r" % (info2(), np.shape(gam)))
        gd = float(g / cp)
        ga = np.asarray(gam, float)
        ctx.check(np.all(ga > 0) and np.all(ga <= gd * (1 + 1e-15)),
                  "lapse/outside-(0,g/cp]", lambda: "%s: %r, g/cp = %r" % (
                      info2(), ga.tolist(), gd))
        lim = 2 * np.maximum(a, b).astype(float)
        ctx.check(np.all(np.abs(ga / gd - 1) <= lim + 1e-15),
                  "lapse/dry-limit", lambda: "%s: lapse*cp/g - 1 = %r, bound "
                  "%r" % (info2(), (ga / gd - 1).tolist(), lim.tolist()))
        ctx.check(relclose(gam, (g / cp) * (1 + a) / (1 + b), 1e-12),
                  "reference/moist_lapse_rate", lambda: (
                      "%s: %r, Bohren & Albrecht 6.111 in long double %r" % (
                          info2(), ga.tolist(), ((g / cp) * (1 + a) / (1 + b))
                          .astype(float).tolist())))
        if np.any(xs.astype(float) < 1e-6):
            ctx.label("lapse-dry-limit")
        if np.any(xs.astype(float) > 0.5):
            ctx.label("lapse-near-boiling")

    if kind in ("scalar", "0d"):
        for i in range(len(case["T"])):
            st_ = "0d" if kind == "0d" else ("py", "np")[i % 2]
            run(*[_mk([case[k][i]], [], st_)
                  for k in ("RH", "p", "T", "pl", "Tl")])
        ctx.nontrivial = name not in ("default",)
    else:
        run(*[_mk(case[k], sh["T" if k == "Tl" else k])
              for k in ("RH", "p", "T", "pl", "Tl")])
        ctx.nontrivial = True
    if kind == "0d":
        ctx.label("0d")


@st.composite
def rh_lapse_cases(draw):
    name = draw(st.sampled_from(["default", "water", "ice", "mixed", "const",
                                 "magnus", "linear"]))
    kind = draw(st.sampled_from(["scalar", "scalar", "0d", "1d", "1d", "2d",
                                 "bcast"]))

    def logu(lo, hi):
        a, b = math.log(lo), math.log(hi)
        return st.floats(0.0, 1.0).map(lambda u: math.exp(a + u * (b - a)))

    rh = st.one_of(st.floats(1e-9, 2.0), st.floats(1e-3, 1.0),
                   st.sampled_from([0.0, 1.0, 0.5, 1e-6]))
    pv = st.one_of(logu(100.0, 110000.0), st.floats(100.0, 110000.0),
                   st.sampled_from([100.0, 110000.0, 101325.0]))
    tmax = lapse_tmax(name)
    tv = st.one_of(st.floats(100.0, 400.0), st.floats(230.0, 310.0),
                   st.sampled_from([100.0, TT, TI, 288.15, tmax, 400.0]))

    def lapse_p(T, u):
        lo = max(100.0, py_esat(name, T) / 0.99)
        lo = min(lo, 110000.0)
        return math.exp(math.log(lo) + u * (math.log(110000.0) - math.log(lo)))

    uu = st.one_of(st.floats(0.0, 1.0), st.sampled_from([0.0, 1.0]))
    if kind == "bcast":
        a, b = draw(st.integers(1, 4)), draw(st.integers(1, 5))
        Ts = draw(st.lists(tv, min_size=b, max_size=b))
        Tl = [min(t, tmax) for t in Ts]
        lo = max(100.0, max(py_esat(name, t) for t in Tl) / 0.99)
        lo = min(lo, 110000.0)
        pls = [math.exp(math.log(lo) + draw(uu) * (math.log(110000.0)
                                                    - math.log(lo)))
               for _ in range(a)]
        rhshape = draw(st.sampled_from([[], [a, 1], [1, b], [a, b]]))
        nrh = int(np.prod(rhshape)) if rhshape else 1
        return {"e_eq": name, "kind": kind,
                "shapes": {"RH": rhshape, "p": [a, 1], "T": [1, b],
                           "pl": [a, 1]},
                "RH": draw(st.lists(rh, min_size=nrh, max_size=nrh)),
                "p": draw(st.lists(pv, min_size=a, max_size=a)),
                "T": Ts, "pl": pls, "Tl": Tl}
    if kind in ("scalar", "0d"):
        n, shp = draw(st.integers(1, 5)), []
    elif kind == "1d":
        n = draw(st.one_of(st.integers(1, 8), st.integers(1, 30)))
        shp = [n]
    else:
        shp = [draw(st.integers(1, 4)), draw(st.integers(1, 5))]
        n = shp[0] * shp[1]
    Ts = draw(st.lists(tv, min_size=n, max_size=n))
    Tl = [min(t, tmax) for t in Ts]
    return {"e_eq": name, "kind": kind,
            "shapes": {"RH": shp, "p": shp, "T": shp, "pl": shp},
            "RH": draw(st.lists(rh, min_size=n, max_size=n)),
            "p": draw(st.lists(pv, min_size=n, max_size=n)),
            "T": Ts, "Tl": Tl, "pl": [lapse_p(t, draw(uu)) for t in Tl]}


def suites(tier):
    return [
        Suite("exact", check_exact, strategy=exact_cases(),
              examples={"quick": 1000, "thorough": 8000}),
        Suite("float", check_float, strategy=float_cases(),
              examples={"quick": 1200, "thorough": 10000}),
        Suite("saturation", check_saturation, strategy=saturation_cases(),
              examples={"quick": 500, "thorough": 4000}),
        Suite("reject", check_reject, strategy=reject_cases(),
              examples={"quick": 300, "thorough": 1500}),
        Suite("rh-lapse", check_rh_lapse, strategy=rh_lapse_cases(),
              examples={"quick": 1200, "thorough": 10000}),
    ]
