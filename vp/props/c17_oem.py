"""C17 - optimal-estimation matrices satisfy their defining identities.

Oracle: numpy.linalg solves of the n-form and of the alternative m-form
expressions, compared in the relative Frobenius norm with a tolerance that is
computed from the condition numbers measured on the case.
"""
import numpy as np
from hypothesis import strategies as st

from vp.gen import c17_matrices as GM
from vp.gen.c19_samples import fill_matrix
from vp.runner import Suite

PROP_ID = "C17"
LEVEL = "exploration"
QUICK_SHARDS = 4
RULE = (
    "state dimension n in 1..30, measurement dimension m in 1..40 (both "
    "skewed towards small values; under-, over-determined and square); S_a "
    "and S_y = Q diag(lam) Q^T with Q a product of 0-3 drawn Householder "
    "reflectors (0 = diagonal), eigenvalues log-uniform with a spread of at "
    "most 3 decades around a scale 1e-3..1e3; K with entries in [-1,1] "
    "(drawn directly up to 120 entries, arranged from a drawn pool of 61 "
    "values above), optionally scaled globally / per column, made "
    "rank-deficient (repeated / zero column, zero row, rank 1) or zero.  "
    "Limit cases repeat the checks with S_y*eps resp. S_a*eps, eps = 1e-2 "
    "... 1e-10.  K, S_a, S_y are handed over C-ordered, Fortran-ordered, as "
    "transposed view or as strided view of a larger array; after the calls "
    "all inputs must be bitwise unchanged.  In half of the cases "
    "retrieval_noise and smoothing_error are also given ensembles stored in "
    "columns, e_y of shape (m,k) and x, x_a of shape (n,k) (x_a also (n,1)), "
    "k in {1, 2, m, n, another size}, compared member by member with G e_y "
    "and A (x - x_a) including the result shape (n,k).  history: n <= 6, m <= 8; the "
    "same ndarray objects (also the averaging kernel handed to "
    "smoothing_error) are evaluated, updated in place 1-5 times (K / S_a / "
    "S_y scaled, overwritten with a new drawn matrix, K zeroed; e_y, x "
    "overwritten; or left alone) and evaluated again after every update "
    "against the references for the current values; the objects returned "
    "by earlier evaluations (also within the limit sequences) are kept and "
    "must stay bitwise unchanged by later calls, and no result may share "
    "memory with an input or another result.  dtypes: n <= 6, m <= 8; K a "
    "0/1 selection matrix, small integers or multiples of 0.5 as bool / "
    "uint8 / int8 / int32 / int64 / float16 / float32 / float64 array, S_a "
    "and S_y (non-integer entries, variances below 1) as float64 array, "
    "nested list or float32 array, x / x_a / e_y as float64, float32, "
    "integer array or list; references in float64 from the values handed "
    "over.  Oracle = numpy.linalg.solve of the n-form and of the "
    "m-form.  Non-trivial = (n != m or a covariance with off-diagonal "
    "entries) and the case is compared (not ill-conditioned); for a "
    "history: an in-place update of K / S_a / S_y between two compared "
    "evaluations.  Distinct = "
    "distinct case hash."
)
ASSUMPTIONS = [
    "K, S_a, S_y are float ndarrays; S_a, S_y are exactly symmetric and "
    "positive definite with a condition number <= 1e3 each (the statement "
    "quantifies over well-conditioned covariances)",
    "tolerance (relative Frobenius error) = 1e-13 * cond(S_y) * (cond(S_a) "
    "+ cond(S_y) + cond(K^T S_y^-1 K + S_a^-1) + cond(K S_a K^T + S_y)), "
    "all condition numbers measured on the case; cases whose tolerance "
    "exceeds 1e-4 are labelled ill-conditioned, counted and not compared; "
    "the m-form reference of S (a difference) is compared with the "
    "tolerance multiplied by ||S_a||/||S||",
    "K, x are ndarrays; S_a, S_y, x_a, e_y may also be (nested) lists - "
    "what the clean tree accepts.  Integer / bool / float16 / float32 K is "
    "promoted to float64 by the products, so the float64 tolerance applies; "
    "float32 covariances are inverted in single precision by scipy: there "
    "the tolerance is multiplied by 2^29 (cases with a bound > 1e-3 are "
    "not compared) and float32 profiles are subtracted in single precision "
    "(2e-7 (|x| + |x_a|) ||A||)",
    "limits: ||I - A|| <= ||(K^T S_y^-1 K)^-1|| ||S_a^-1|| (K of full "
    "column rank) and ||A|| <= ||S_a|| ||K||^2 ||S_y^-1|| (spectral norms), "
    "which vanish with S_y -> 0 resp. S_a -> 0",
]

EPS_SEQ = [1e-2, 1e-4, 1e-6, 1e-8, 1e-10]


def fro(a):
    return float(np.linalg.norm(a))


def rel(a, b):
    """relative Frobenius distance of a to the reference b"""
    nb = fro(b)
    d = fro(np.asarray(a) - b)
    return d / nb if nb > 0 else d


LAYOUTS = ["C", "C", "F", "T", "strided"]
layout_strategy = st.sampled_from(LAYOUTS)


def as_layout(a, layout):
    """the same values as a C-ordered copy, a Fortran-ordered copy, the
    transposed view of a C-ordered array or a strided view of a larger one"""
    a = np.array(a, dtype=float)
    if layout == "F":
        return np.asfortranarray(a)
    if layout == "T":
        return np.ascontiguousarray(a.T).T
    if layout == "strided":
        big = np.full((2 * a.shape[0], 2 * a.shape[1] + 1), np.nan)
        big[::2, 1::2] = a
        return big[::2, 1::2]
    return np.ascontiguousarray(a)


@st.composite
def ensemble(draw, n, m):
    """2-D right-hand sides: k error vectors / profiles stored in columns,
    k in {1, 2, m, n, something else}; None in half of the cases"""
    if draw(st.booleans()):
        return None
    kind = draw(st.sampled_from(["1", "2", "m", "m", "n", "other"]))
    k = {"1": 1, "2": 2, "m": m, "n": n}.get(kind)
    if k is None:
        k = draw(st.integers(3, 12))
        while k in (m, n):
            k += 1
    pool = draw(st.lists(st.floats(-10.0, 10.0, allow_nan=False),
                         min_size=13, max_size=13))
    abc = [draw(st.integers(1, 12)) for _ in range(6)]
    return {
        "k_kind": kind,
        "E": fill_matrix(pool, m, k, abc[0], abc[1], abc[2]),
        "X": fill_matrix(pool, n, k, abc[3], abc[4], abc[5]),
        "Xa": fill_matrix(pool[::-1], n, k, abc[1], abc[3], abc[0]),
        "Xa_form": draw(st.sampled_from(["full", "column"])),
    }


@st.composite
def oem_cases(draw):
    n = draw(st.one_of(st.integers(1, 6), st.integers(1, 30)))
    m = draw(st.one_of(st.integers(1, 6), st.integers(1, 40),
                       st.just(n)))
    limit = draw(st.sampled_from([None, None, None, None, "noise", "prior"]))
    if limit == "noise" and m < n:
        n, m = m, n
    Sa = draw(GM.spd(n))
    Sy = draw(GM.spd(m))
    K = draw(GM.jacobian(m, n))
    if limit == "noise" and K["kind"] in ("rank-deficient", "zero"):
        limit = None
    vec = st.floats(-10.0, 10.0, allow_nan=False)
    return {
        "n": n, "m": m, "K": K["matrix"], "K_kind": K["kind"],
        "Sa": Sa["matrix"], "Sa_structure": Sa["structure"],
        "Sy": Sy["matrix"], "Sy_structure": Sy["structure"],
        "x": draw(st.lists(vec, min_size=n, max_size=n)),
        "xa": draw(st.lists(vec, min_size=n, max_size=n)),
        "ey": draw(st.lists(vec, min_size=m, max_size=m)),
        "limit": limit,
        "layout": {k: draw(layout_strategy) for k in ("K", "Sa", "Sy")},
        "ensemble": draw(ensemble(n, m)),
    }


def identities(ctx, K, Sa, Sy, x, xa, ey, tag="", A_buf=None, args=None,
               prec=1.0, kept=None, ens=None):
    """All identities for one (K, S_a, S_y).  Returns (tol or None, A).

    K ... ey are the float64 values the references are computed from; args
    optionally holds what typhon is given instead (other dtypes, lists) for
    some of them.  prec multiplies the tolerance (float32 covariances are
    inverted in single precision).  kept: results of earlier evaluations
    [(name, returned object, private copy)], checked and extended here.
    """
    from typhon.retrieval import oem
    m, n = K.shape
    eye = np.eye(n)
    args = args or {}
    tK, tSa, tSy = args.get("K", K), args.get("Sa", Sa), args.get("Sy", Sy)
    tx, txa, tey = args.get("x", x), args.get("xa", xa), args.get("ey", ey)
    given = (tK, tSa, tSy, tx, txa, tey)
    saved = [np.array(a, copy=True) for a in given]
    # --- references -------------------------------------------------------
    SyiK = np.linalg.solve(Sy, K)
    Sai = np.linalg.solve(Sa, eye)
    N = K.T @ SyiK + Sai
    N = (N + N.T) / 2
    M = K @ Sa @ K.T + Sy
    M = (M + M.T) / 2
    cSa, cSy = np.linalg.cond(Sa), np.linalg.cond(Sy)
    cN, cM = np.linalg.cond(N), np.linalg.cond(M)
    tol = 1e-13 * cSy * (cSa + cSy + cN + cM) * prec
    if not np.isfinite(tol) or tol > (1e-4 if prec == 1.0 else 1e-3):
        ctx.label("ill-conditioned" + ("@history" if tag.startswith("@step") else tag))
        return None, None
    ctx.label("compared" + ("@history" if tag.startswith("@step") else tag))
    S_n = np.linalg.solve(N, eye)
    G_n = np.linalg.solve(N, SyiK.T)
    MiK = np.linalg.solve(M, K)                 # M^-1 K
    G_m = Sa @ MiK.T                            # S_a K^T M^-1 (M symmetric)
    S_m = Sa - G_m @ K @ Sa
    A_m = G_m @ K

    # --- typhon -------------------------------------------------------------
    def unchanged(after):
        for name, now, before in zip(("K", "S_a", "S_y", "x", "x_a", "e_y"),
                                     given, saved):
            ctx.check(np.array_equal(np.asarray(now), before)
                      and np.asarray(now).dtype == before.dtype,
                      "inputs-modified", lambda: (
                "%s was changed by %s%s: before %r, after %r" % (
                    name, after, tag, before, now)))

    S = oem.error_covariance_matrix(tK, tSa, tSy)
    unchanged("error_covariance_matrix")
    G = oem.retrieval_gain_matrix(tK, tSa, tSy)
    unchanged("retrieval_gain_matrix")
    A = oem.averaging_kernel_matrix(tK, tSa, tSy)
    unchanged("averaging_kernel_matrix")
    ctx.check(np.shape(S) == (n, n) and np.shape(G) == (n, m)
              and np.shape(A) == (n, n), "shape", lambda: (
                  "n=%d m=%d: S %r, G %r, A %r" % (
                      n, m, np.shape(S), np.shape(G), np.shape(A))))

    def info():
        return ("n=%d m=%d tol=%.3g cond(Sa)=%.3g cond(Sy)=%.3g cond(N)=%.3g "
                "cond(M)=%.3g%s" % (n, m, tol, cSa, cSy, cN, cM, tag))

    e = rel(S, S_n)
    ctx.notes["S"] = e / tol
    ctx.check(e <= tol, "S/n-form", lambda: "rel. error %.3g; %s" % (e, info()))
    amp = max(1.0, fro(Sa) / max(fro(S_n), 1e-300))
    e = rel(S, S_m)
    ctx.check(e <= tol * amp, "S/m-form", lambda: (
        "rel. error %.3g (amplification %.3g); %s" % (e, amp, info())))
    e = rel(S, S.T)
    ctx.check(e <= tol, "S/not-symmetric", lambda: "%.3g; %s" % (e, info()))
    ev = np.linalg.eigvalsh((S + S.T) / 2)
    ctx.check(ev.min() > 0, "S/not-positive-definite", lambda: (
        "smallest eigenvalue %r; %s" % (ev.min(), info())))
    ev = np.linalg.eigvalsh(Sa - (S + S.T) / 2)
    ctx.check(ev.min() >= -tol * np.linalg.norm(Sa, 2),
              "S/larger-than-S_a", lambda: (
                  "smallest eigenvalue of S_a - S: %r (||S_a||=%r); %s" % (
                      ev.min(), np.linalg.norm(Sa, 2), info())))

    e = rel(G, G_n)
    ctx.check(e <= tol, "G/n-form", lambda: "rel. error %.3g; %s" % (e, info()))
    e = rel(G, G_m)
    ctx.check(e <= tol, "G/m-form", lambda: "rel. error %.3g; %s" % (e, info()))

    e = rel(A, A_m)
    ctx.check(e <= tol, "A/GK", lambda: "rel. error %.3g; %s" % (e, info()))
    e = fro(A - (eye - S_n @ Sai)) / (fro(eye) + fro(A_m))
    ctx.check(e <= tol, "A/I-S-Sa^-1", lambda: (
        "rel. error %.3g; %s" % (e, info())))
    e = fro(np.asarray(G) @ K - A) / max(fro(A_m), 1e-300) if fro(A_m) else \
        fro(np.asarray(G) @ K - A)
    ctx.check(e <= tol, "A/not-G@K", lambda: "%.3g; %s" % (e, info()))
    # eigenvalues real, in [0, 1): A is similar to a symmetric PSD matrix
    # through S^(1/2) (Bauer-Fike with cond = sqrt(cond(S)))
    lam = np.linalg.eigvals(A)
    etol = (np.sqrt(np.linalg.cond(S_n)) * (tol + 1e-14 * n)
            * max(np.linalg.norm(A_m, 2), 1e-300)) + 1e-300
    ctx.check(float(np.abs(lam.imag).max()) <= etol
              and lam.real.min() >= -etol and lam.real.max() < 1.0 + etol,
              "A/eigenvalues", lambda: (
                  "eigenvalues %r (tolerance %.3g); %s" % (lam, etol, info())))

    # --- error terms ----------------------------------------------------------
    if A_buf is not None:
        A_buf[...] = A_m          # the same array object in every evaluation
        A_m = A_buf
    se = oem.smoothing_error(tx, txa, A_m)
    ref = A_m @ (x - xa)
    # float32 profiles are subtracted in single precision
    f32 = any(getattr(a, "dtype", None) == np.float32 for a in (tx, txa))
    se_tol = (1e-12 * fro(x - xa) + (2e-7 * (fro(x) + fro(xa)) if f32 else 0))
    ctx.check(np.shape(se) == (n,) and fro(se - ref) <= (
        np.linalg.norm(A_m, 2) * se_tol) + 1e-300,
        "smoothing_error", lambda: "got %r expected %r" % (se, ref))
    rn = oem.retrieval_noise(tK, tSa, tSy, tey)
    ref = G_m @ ey
    ctx.check(np.shape(rn) == (n,) and fro(rn - ref) <= (
        tol + 1e-13) * np.linalg.norm(G_m, 2) * fro(ey) + 1e-300,
        "retrieval_noise", lambda: "got %r expected %r; %s" % (
            rn, ref, info()))
    if ens is not None:
        # ensembles stored in columns: the maps act column by column
        E = np.array(ens["E"], dtype=float).reshape(m, -1)
        X = np.array(ens["X"], dtype=float).reshape(n, -1)
        Xa = np.array(ens["Xa"], dtype=float).reshape(n, -1)
        if ens["Xa_form"] == "column":
            Xa = Xa[:, :1].copy()
        k = E.shape[1]
        before = [a.copy() for a in (E, X, Xa)]
        R = oem.retrieval_noise(tK, tSa, tSy, E)
        ctx.check(np.shape(R) == (n, k), "retrieval_noise/ensemble-shape",
                  lambda: "e_y of shape %r (n=%d, m=%d): result shape %r, "
                  "expected %r" % (E.shape, n, m, np.shape(R), (n, k)))
        Sm = oem.smoothing_error(X, Xa, A_m)
        ctx.check(np.shape(Sm) == (n, k), "smoothing_error/ensemble-shape",
                  lambda: "x %r, x_a %r, A %r: result shape %r" % (
                      X.shape, Xa.shape, A_m.shape, np.shape(Sm)))
        nG, nA = np.linalg.norm(G_m, 2), np.linalg.norm(A_m, 2)
        for j in range(k):
            ref = G_m @ E[:, j]
            ctx.check(fro(R[:, j] - ref) <= (tol + 1e-13) * nG * fro(E[:, j])
                      + 1e-300, "retrieval_noise/ensemble", lambda: (
                          "e_y of shape %r, member %d: got %r, G e_y = %r; %s"
                          % (E.shape, j, R[:, j], ref, info())))
            d = X[:, j] - Xa[:, j if Xa.shape[1] > 1 else 0]
            ref = A_m @ d
            ctx.check(fro(Sm[:, j] - ref) <= 1e-12 * nA * fro(d) + 1e-300,
                      "smoothing_error/ensemble", lambda: (
                          "x %r, x_a %r, member %d: got %r, A (x - x_a) = %r"
                          % (X.shape, Xa.shape, j, Sm[:, j], ref)))
        ctx.check(all(np.array_equal(a, b) for a, b in zip((E, X, Xa), before)),
                  "inputs-modified", "an ensemble was changed by the call")
    unchanged("smoothing_error / retrieval_noise")
    # results are the caller's: new arrays that no later call changes
    results = [("S", S), ("G", G), ("A", A), ("smoothing_error", se),
               ("retrieval_noise", rn)]
    others = [("input " + nm, a) for nm, a in zip(
        ("K", "S_a", "S_y", "x", "x_a", "e_y"), given)
        if isinstance(a, np.ndarray)] + [("input A", A_m)]
    if kept is not None:
        for name, obj, cp in kept:
            ctx.check(np.array_equal(obj, cp), "result/changed-by-later-call",
                      lambda: "%s returned earlier was %r, now it is %r (%s)"
                      % (name, cp, obj, tag))
        others = others + [("earlier " + nm, o) for nm, o, _ in kept]
    for i, (name, obj) in enumerate(results):
        if not isinstance(obj, np.ndarray):
            continue
        for oname, other in others + results[:i]:
            ctx.check(not (isinstance(other, np.ndarray)
                           and np.shares_memory(obj, other)),
                      "result/shares-memory", lambda: (
                          "%s shares memory with %s%s" % (name, oname, tag)))
    if kept is not None:
        kept.extend((name + tag, obj, np.array(obj, copy=True))
                    for name, obj in results if isinstance(obj, np.ndarray))
    return tol, np.asarray(A)


def check_oem(case, ctx):
    n, m = case["n"], case["m"]
    lay = case.get("layout") or {"K": "C", "Sa": "C", "Sy": "C"}
    K = as_layout(np.array(case["K"], dtype=float).reshape(m, n), lay["K"])
    Sa = as_layout(np.array(case["Sa"], dtype=float).reshape(n, n), lay["Sa"])
    Sy = as_layout(np.array(case["Sy"], dtype=float).reshape(m, m), lay["Sy"])
    x = np.array(case["x"], dtype=float)
    xa = np.array(case["xa"], dtype=float)
    ey = np.array(case["ey"], dtype=float)
    for k in ("K", "Sa", "Sy"):
        ctx.label("layout-%s-%s" % (k, lay[k]))
    if "F" in lay.values() or "T" in lay.values():
        ctx.label("layout-fortran-ordered-input")
    ctx.label("under" if m < n else "over" if m > n else "square")
    ctx.label("K-" + case["K_kind"], "Sa-" + case["Sa_structure"],
              "Sy-" + case["Sy_structure"])
    rank = np.linalg.matrix_rank(K)
    if rank < min(m, n):
        ctx.label("rank-deficient")
    if not K.any():
        ctx.label("zero-K")
    if n >= 10 or m >= 10:
        ctx.label("dim>=10")
    correlated = (np.count_nonzero(Sa - np.diag(np.diag(Sa))) > 0
                  or np.count_nonzero(Sy - np.diag(np.diag(Sy))) > 0)
    if correlated:
        ctx.label("correlated")
    kept = []
    ens = case.get("ensemble")
    if ens is not None:
        ctx.label("ensemble-k=" + ens["k_kind"],
                  "ensemble-x_a-" + ens["Xa_form"], "ensemble")
        if len(ens["E"][0]) == m:
            ctx.label("ensemble-e_y-square(m x m)")
            if n == m:
                ctx.label("ensemble-e_y-square-and-n==m")
    compared, A = identities(ctx, K, Sa, Sy, x, xa, ey, kept=kept, ens=ens)
    if compared is not None and (n != m or correlated):
        ctx.nontrivial = True

    eye = np.eye(n)
    if case["limit"] == "noise":
        ctx.label("limit-noise")
        if rank < n:
            ctx.label("limit-noise-without-full-column-rank(skipped)")
            return
        last = None
        for eps in EPS_SEQ:
            Sy_e = Sy * eps
            tol, A = identities(ctx, K, Sa, Sy_e, x, xa, ey, "@limit",
                                     kept=kept)
            if tol is None:
                continue
            KtSiK = K.T @ np.linalg.solve(Sy_e, K)
            evk = np.linalg.eigvalsh((KtSiK + KtSiK.T) / 2)
            if evk.min() <= 1e-9 * evk.max():
                # K^T S_y^-1 K numerically singular: its inverse (the bound)
                # cannot be computed to the accuracy of the comparison
                ctx.label("limit-noise-K-nearly-rank-deficient(skipped)")
                continue
            bound = 1.0 / evk.min() / np.linalg.eigvalsh(Sa).min()
            dist = np.linalg.norm(eye - A, 2)
            # A itself is only accurate to tol * ||A|| (~ tol * sqrt(n))
            ctx.check(dist <= bound * (1 + 1e-6) + 2 * tol * fro(A) + 1e-12,
                      "limit/noise-A-not-identity", lambda: (
                          "eps=%g: ||I - A|| = %.6g > bound %.6g (+ %.3g)" % (
                              eps, dist, bound, 2 * tol * fro(A))))
            last = (eps, dist, bound)
        if last is not None and last[2] < 1e-3:
            ctx.label("limit-noise-reached(|I-A|<1e-3)")
    elif case["limit"] == "prior":
        ctx.label("limit-prior")
        last = None
        for eps in EPS_SEQ:
            Sa_e = Sa * eps
            tol, A = identities(ctx, K, Sa_e, Sy, x, xa, ey, "@limit",
                                     kept=kept)
            if tol is None:
                continue
            bound = (np.linalg.norm(Sa_e, 2) * np.linalg.norm(K, 2) ** 2
                     / np.linalg.eigvalsh(Sy).min())
            dist = np.linalg.norm(A, 2)
            ctx.check(dist <= bound * (1 + 1e-6) + 2 * tol * dist + 1e-300,
                      "limit/prior-A-not-zero", lambda: (
                          "eps=%g: ||A|| = %.6g > bound %.6g" % (
                              eps, dist, bound)))
            last = (eps, dist, bound)
        if last is not None and last[2] < 1e-3:
            ctx.label("limit-prior-reached(|A|<1e-3)")


# --------------------------------------------------------------------------
# histories: the same array objects, updated in place between the calls
# --------------------------------------------------------------------------
@st.composite
def history_cases(draw):
    n = draw(st.integers(1, 6))
    m = draw(st.integers(1, 8))
    vec = st.floats(-10.0, 10.0, allow_nan=False)
    case = {
        "n": n, "m": m,
        "K": draw(GM.jacobian(m, n))["matrix"],
        "Sa": draw(GM.spd(n))["matrix"], "Sy": draw(GM.spd(m))["matrix"],
        "x": draw(st.lists(vec, min_size=n, max_size=n)),
        "xa": draw(st.lists(vec, min_size=n, max_size=n)),
        "ey": draw(st.lists(vec, min_size=m, max_size=m)),
        "layout": {k: draw(layout_strategy) for k in ("K", "Sa", "Sy")},
    }
    steps = []
    for _ in range(draw(st.integers(1, 5))):
        target = draw(st.sampled_from(["K", "K", "Sa", "Sy", "Sy", "ey", "x",
                                       "none"]))
        step = {"target": target}
        if target == "none":
            step["op"] = "none"
        elif target in ("ey", "x"):
            step["op"] = "assign"
            k = m if target == "ey" else n
            step["value"] = draw(st.lists(vec, min_size=k, max_size=k))
        else:
            op = draw(st.sampled_from(
                ["scale", "assign"] + (["zero"] if target == "K" else [])))
            step["op"] = op
            if op == "scale":
                step["factor"] = draw(st.sampled_from(
                    [25.0, 0.04, 2.0, 0.5, 100.0, 3.0]
                    + ([-1.0] if target == "K" else [])))
            elif op == "assign":
                step["value"] = draw(
                    GM.jacobian(m, n) if target == "K" else
                    GM.spd(n if target == "Sa" else m))["matrix"]
        steps.append(step)
    case["steps"] = steps
    return case


def check_history(case, ctx):
    n, m = case["n"], case["m"]
    lay = case["layout"]
    obj = {
        "K": as_layout(np.array(case["K"], dtype=float).reshape(m, n),
                       lay["K"]),
        "Sa": as_layout(np.array(case["Sa"], dtype=float).reshape(n, n),
                        lay["Sa"]),
        "Sy": as_layout(np.array(case["Sy"], dtype=float).reshape(m, m),
                        lay["Sy"]),
        "x": np.array(case["x"], dtype=float),
        "xa": np.array(case["xa"], dtype=float),
        "ey": np.array(case["ey"], dtype=float),
    }
    A_buf = np.zeros((n, n))
    for k in ("K", "Sa", "Sy"):
        ctx.label("layout-%s-%s" % (k, lay[k]))
    if "F" in lay.values() or "T" in lay.values():
        ctx.label("layout-fortran-ordered-input")

    kept = []          # results of the earlier steps (objects + copies)

    def evaluate(tag):
        before = len(kept)
        tol, _ = identities(ctx, obj["K"], obj["Sa"], obj["Sy"], obj["x"],
                            obj["xa"], obj["ey"], tag, A_buf, kept=kept)
        if before and len(kept) > before:
            ctx.label("earlier-results-rechecked")
        return tol is not None

    compared = evaluate("@step0")
    for i, step in enumerate(case["steps"]):
        t, op = step["target"], step["op"]
        ctx.label("step-%s-%s" % (t, op))
        if op == "scale":
            obj[t] *= step["factor"]
        elif op == "zero":
            obj[t][...] = 0.0
        elif op == "assign":
            obj[t][...] = np.array(step["value"], dtype=float).reshape(
                obj[t].shape)
        now = evaluate("@step%d(after %s of %s in place)" % (i + 1, op, t))
        if now and compared and t in ("K", "Sa", "Sy"):
            ctx.nontrivial = True
            ctx.label("in-place-update-then-compared")
        compared = now


# --------------------------------------------------------------------------
# other dtypes and containers
# --------------------------------------------------------------------------
KTYPES = {"selection": ["bool", "uint8", "int8", "int32", "int64", "float32"],
          "small-int": ["int8", "int32", "int64", "float32", "float64"],
          "halves": ["float32", "float16", "float64"]}


@st.composite
def dtype_cases(draw):
    n = draw(st.integers(1, 6))
    m = draw(st.integers(1, 8))
    kkind = draw(st.sampled_from(["selection", "selection", "small-int",
                                  "halves"]))
    el = {"selection": st.integers(0, 1), "small-int": st.integers(-3, 3),
          "halves": st.integers(-8, 8).map(lambda k: k / 2.0)}[kkind]
    K = draw(st.lists(el, min_size=m * n, max_size=m * n))
    if kkind == "selection" and not any(K):
        K[0] = 1
    vec = st.floats(-10.0, 10.0, allow_nan=False)
    ivec = st.integers(-10, 10).map(float)
    x_form = draw(st.sampled_from(["f64", "f32", "int"]))
    ey_form = draw(st.sampled_from(["f64", "list", "f32", "int"]))
    return {
        "n": n, "m": m, "K": [float(v) for v in K], "K_kind": kkind,
        "K_type": draw(st.sampled_from(KTYPES[kkind])),
        # covariances with non-integer entries and variances below 1
        "Sa": draw(GM.spd(n, scales=(-1.0, 1.0)))["matrix"],
        "Sy": draw(GM.spd(m, scales=(-1.0, 1.0)))["matrix"],
        "Sa_form": draw(st.sampled_from(["f64", "f64", "list", "f32"])),
        "Sy_form": draw(st.sampled_from(["f64", "f64", "list", "f32"])),
        "x": draw(st.lists(ivec if x_form == "int" else vec,
                           min_size=n, max_size=n)),
        "xa": draw(st.lists(ivec if x_form == "int" else vec,
                            min_size=n, max_size=n)),
        "ey": draw(st.lists(ivec if ey_form == "int" else vec,
                            min_size=m, max_size=m)),
        "x_form": x_form,
        "xa_form": draw(st.sampled_from(
            ["same", "list"] if x_form != "int" else ["same"])),
        "ey_form": ey_form,
    }


def in_form(values, form, shape):
    a = np.array(values, dtype=float).reshape(shape)
    if form == "f32":
        return a.astype(np.float32)
    if form == "int":
        return a.astype(np.int64)
    if form == "list":
        return a.tolist()
    return a


def check_dtypes(case, ctx):
    n, m = case["n"], case["m"]
    tK = np.array(case["K"], dtype=float).reshape(m, n).astype(
        case["K_type"])
    args = {
        "K": tK,
        "Sa": in_form(case["Sa"], case["Sa_form"], (n, n)),
        "Sy": in_form(case["Sy"], case["Sy_form"], (m, m)),
        "x": in_form(case["x"], case["x_form"], (n,)),
        "ey": in_form(case["ey"], case["ey_form"], (m,)),
    }
    args["xa"] = in_form(case["xa"], case["x_form"] if case["xa_form"] ==
                         "same" else "list", (n,))
    ctx.label("K-" + case["K_kind"], "K-dtype-" + case["K_type"],
              "Sa-given-as-" + case["Sa_form"],
              "Sy-given-as-" + case["Sy_form"],
              "x-given-as-" + case["x_form"], "ey-given-as-" + case["ey_form"])
    if case["xa_form"] == "list":
        ctx.label("xa-given-as-list")
    if tK.dtype.kind in "biu":
        ctx.label("K-integer-or-bool")
    # the references are computed in float64 from the values handed over
    num = {k: np.asarray(v, dtype=float) for k, v in args.items()}
    f32cov = "f32" in (case["Sa_form"], case["Sy_form"])
    if f32cov:
        ctx.label("float32-covariance(single-precision-tolerance)")
    kept = []
    for rep in range(2):
        tol, _ = identities(
            ctx, num["K"], num["Sa"], num["Sy"], num["x"], num["xa"],
            num["ey"], "@dtypes", args=args,
            prec=2.0 ** 29 if f32cov else 1.0, kept=kept)
    if tol is not None:
        ctx.nontrivial = True


def suites(tier):
    return [
        Suite("identities", check_oem, strategy=oem_cases(),
              examples={"quick": 1500, "thorough": 10000}),
        Suite("history", check_history, strategy=history_cases(),
              examples={"quick": 300, "thorough": 3000}),
        Suite("dtypes", check_dtypes, strategy=dtype_cases(),
              examples={"quick": 250, "thorough": 2500}),
    ]
