"""C01 - FileSet.find returns exactly the files that overlap the period.

Oracle: brute force over the list of files the harness created.
"""
import datetime as dt
import re

from hypothesis import strategies as st

from vp.gen import filesets as G
from vp.runner import Suite

PROP_ID = "C01"
LEVEL = "exploration"
QUICK_SHARDS = 4
RULE = (
    "Hypothesis draws a path template from a grammar (0-4 directory levels: "
    "year|year2 / month / day / doy / hour, literal and user-placeholder "
    "levels; file pattern with start fields down to day..millisecond, "
    "optional full or partial end fields, user placeholders with default / "
    "custom regex / value list, wildcard, dotted literals), a population of "
    "0-25 files around day/month/year ends (each in the directory of its "
    "start, not longer than one period of the finest directory level), "
    "distractor files/directories, local or zip file system, exclude lists "
    "(names, periods), and 3-6 queries with start/end on file boundaries "
    "(+-1 us, +-1 unit), open ends, far away, end <= start; options sort, "
    "bundle (int / frequency), only_path, filters (white, '!'-black; value, "
    "list, regex), no_files_error; plus `t in fileset` and len().  Oracle = "
    "brute-force filter over the harness' own file list.  Non-trivial = some "
    "query has a non-empty answer and a created file that must be omitted.  "
    "Distinct = distinct case hash."
)
ASSUMPTIONS = [
    "placeholder values are alphanumeric and separated from neighbouring "
    "fields by a literal, so the template is unambiguous",
    "each file sits in the directory of its start time and lasts at most one "
    "period of the finest directory level (28 d for month, 365 d for year)",
    "exclude periods are (datetime, datetime) tuples; zip is the only "
    "non-local file system exercised",
]

FREQ = {"1h": dt.timedelta(hours=1), "6h": dt.timedelta(hours=6),
        "1D": dt.timedelta(days=1), "15min": dt.timedelta(minutes=15)}


def floor_bin(t, freq):
    day = t.replace(hour=0, minute=0, second=0, microsecond=0)
    n = (t - day) // freq
    return day + n * freq


def white_ok(value, allowed):
    """white-list: the placeholder must match one of the allowed regexes"""
    if isinstance(allowed, (list, tuple)):
        return any(re.fullmatch(a, value) for a in allowed)
    return re.fullmatch(allowed, value) is not None


def expected_files(pop, excl_paths, excl_periods, start, end, filters):
    out = []
    for f in pop.files:
        if not G.in_period(f, start, end):
            continue
        if f.path in excl_paths:
            continue
        if any(f.t0 <= p1 and f.t1 >= p0 for p0, p1 in excl_periods):
            continue
        ok = True
        for key, allowed in (filters or {}).items():
            if key.startswith("!"):
                if key[1:] in f.attrs and white_ok(f.attrs[key[1:]], allowed):
                    ok = False
            elif not white_ok(f.attrs[key], allowed):
                ok = False
        if ok:
            out.append(f)
    return out


def build_fileset(case, box, ctx):
    from typhon.files import FileSet
    tpl = case["template"]
    root = box.mkdir("tree")
    pop = G.make_population(root, tpl, case["files"], case["distractors"])
    fs = None
    if case["fs"] == "zip":
        fs, pop = G.zip_population(box, pop)
        ctx.label("zip")
    excl_paths = set()
    by_index = pop.files
    for i in case["exclude_files"]:
        if by_index:
            excl_paths.add(by_index[i % len(by_index)].path)
    excl_periods = [tuple(p) for p in case["exclude_periods"]]
    exclude = sorted(excl_paths) + excl_periods
    cov = tpl["coverage_s"]
    if cov is None:
        tc = None
    elif case["coverage_as"] == "str" and float(cov).is_integer():
        tc = "%d s" % cov
    else:
        tc = dt.timedelta(seconds=cov)
    late = case.get("coverage_late")
    fileset = FileSet(pop.path, name="fs",
                      time_coverage=tc if late is None else (
                          None if late == 0 else dt.timedelta(seconds=late)),
                      exclude=exclude or None,
                      placeholder=G.user_placeholder_arg(tpl), fs=fs)
    if late is not None:
        # history: the fileset is used (its info cache is filled) with another
        # time_coverage before the final one is assigned
        ctx.label("coverage-assigned-late")
        list(fileset.find(no_files_error=False))
        fileset.time_coverage = tc
    return fileset, pop, excl_paths, excl_periods


def flatten(result, bundle):
    if bundle is None:
        return list(result)
    return [f for b in result for f in b]


def check_find(case, ctx):
    from typhon.files.fileset import NoFilesError
    from typhon.files import FileInfo
    tpl = case["template"]
    names = set(G.placeholders_of(tpl))
    ctx.label("dirs-%d" % len(tpl["dirs"]), "end-" + G.end_style(tpl),
              "res-" + G.resolution_of(tpl))
    if names & {"doy", "end_doy"}:
        ctx.label("doy")
    if names & {"year2", "end_year2"}:
        ctx.label("year2")
    if any(t[0] == "wild" for t in tpl["file"]):
        ctx.label("wildcard")
    if any(all(t[0] == "lit" for t in c) for c in tpl["dirs"]):
        ctx.label("literal-dir")
    with G.Sandbox() as box:
        fileset, pop, excl_paths, excl_periods = build_fileset(case, box, ctx)
        truth = pop.by_path()
        if excl_paths:
            ctx.label("exclude-name")
        if excl_periods:
            ctx.label("exclude-period")
        starts = [f.t0 for f in pop.files]
        if len(set(starts)) < len(starts):
            ctx.label("dup-start")
        if any(f.t0.year != f.t1.year for f in pop.files):
            ctx.label("cross-year")
        period = G.dir_period(tpl)

        shared_filters = {}       # one dict object per distinct filter spec
        for q in case["queries"]:
            start, end = q["start"], q["end"]
            if q.get("reexclude") is not None:
                # history: the exclusion lists of the one object are replaced
                # (or withdrawn) between two searches
                ctx.label("exclusion-replaced")
                rx = q["reexclude"]
                excl_paths = set()
                for i in rx["files"]:
                    if pop.files:
                        excl_paths.add(pop.files[i % len(pop.files)].path)
                excl_periods = [tuple(p) for p in rx["periods"]]
                fileset.exclude_files(sorted(excl_paths))
                if not excl_periods:
                    ctx.label("excluded-periods-withdrawn")
                fileset.exclude_times(
                    excl_periods if excl_periods or rx["empty_as_list"]
                    else None)
            filters_arg = None
            if q["filters"] is not None:
                # the caller's filters dictionary is reused for every query
                # with the same specification and must never be modified
                key = repr(sorted(q["filters"].items()))
                if key in shared_filters:
                    ctx.label("filters-dict-reused")
                filters_arg = shared_filters.setdefault(
                    key, dict(q["filters"]))
                ctx.check(filters_arg == q["filters"],
                          "find/callers-filters-dict-modified", lambda: (
                              "filters given as %r are now %r" % (
                                  q["filters"], filters_arg)))
            kwargs = {"sort": q["sort"], "only_path": q["only_path"],
                      "bundle": q["bundle"], "filters": filters_arg,
                      "no_files_error": q["no_files_error"]}
            lo = dt.datetime.min if start is None else start
            hi = dt.datetime.max if end is None else end
            where = lambda: ("template=%r coverage=%r fs=%s exclude=%r/%r "
                             "query=%r files=%r" % (
                                 pop.path, tpl["coverage_s"], case["fs"],
                                 sorted(excl_paths), excl_periods, q,
                                 pop.files))
            if hi <= lo:
                ctx.label("end<=start")
                try:
                    got = list(fileset.find(start, end, **kwargs))
                except ValueError:
                    continue
                ctx.fail("find/no-ValueError-for-end<=start",
                         "got %r; %s" % (got, where()))
                continue
            exp = expected_files(pop, excl_paths, excl_periods, lo, hi,
                                 q["filters"])
            try:
                raw = list(fileset.find(start, end, **kwargs))
            except NoFilesError:
                ctx.check(not exp and q["no_files_error"],
                          "find/unexpected-NoFilesError", lambda: (
                              "expected %r; %s" % (exp, where())))
                ctx.label("empty")
                continue
            if not exp:
                ctx.label("empty")
                ctx.check(not q["no_files_error"], "find/no-NoFilesError",
                          lambda: "got %r; %s" % (raw, where()))
            bundle = q["bundle"]
            if bundle is not None:
                ctx.check(all(isinstance(b, list) for b in raw),
                          "find/bundle-not-a-list", where)
            got = flatten(raw, bundle)
            if q["only_path"]:
                ctx.label("only-path")
                ctx.check(all(isinstance(g, str) for g in got),
                          "find/only_path-yields-non-str", lambda: (
                              "types %r; %s" % ({type(g).__name__
                                                 for g in got}, where())))
                paths = [g if isinstance(g, str) else g.path for g in got]
            else:
                ctx.check(all(isinstance(g, FileInfo) for g in got),
                          "find/yields-non-FileInfo", where)
                paths = [g.path for g in got]
            ctx.check(sorted(paths) == sorted(f.path for f in exp),
                      "find/wrong-files", lambda: (
                          "expected=%r\ngot=%r\n%s" % (
                              sorted(f.rel for f in exp), sorted(paths),
                              where())))
            if sorted(paths) != sorted(f.path for f in exp):
                continue
            if not q["only_path"]:
                for g in got:
                    f = truth[g.path]
                    ctx.check(list(g.times) == [f.t0, f.t1],
                              "find/wrong-times", lambda: (
                                  "%s: expected %s..%s got %r; %s" % (
                                      f.rel, f.t0, f.t1, g.times, where())))
                    ctx.check(dict(g.attr) == f.attrs, "find/wrong-attr",
                              lambda: "%s: expected %r got %r; %s" % (
                                  f.rel, f.attrs, g.attr, where()))
            keys = [(truth[p].t0, truth[p].t1) for p in paths]
            if not q["sort"] and keys != sorted(keys):
                ctx.label("dir-order!=time-order")
                if bundle is not None:
                    ctx.label("bundle-needs-sorting")
            if q["sort"] or bundle is not None:
                ctx.check(keys == sorted(keys), "find/not-sorted", lambda: (
                    "order %r; %s" % (paths, where())))
            if isinstance(bundle, int):
                ctx.label("bundle-int")
                sizes = [len(b) for b in raw]
                ctx.check(all(s == bundle for s in sizes[:-1])
                          and (not sizes or 1 <= sizes[-1] <= bundle),
                          "find/bundle-sizes", lambda: (
                              "sizes %r; %s" % (sizes, where())))
            elif isinstance(bundle, str):
                ctx.label("bundle-freq")
                freq = FREQ[bundle]
                bins = []
                for b in raw:
                    ctx.check(len(b) > 0, "find/empty-bundle", where)
                    bb = {floor_bin(truth[g if isinstance(g, str)
                                          else g.path].t0, freq) for g in b}
                    ctx.check(len(bb) == 1, "find/bundle-spans-bins",
                              lambda: "bins %r; %s" % (bb, where()))
                    bins.append(min(bb))
                ctx.check(all(a < b for a, b in zip(bins, bins[1:])),
                          "find/bundle-bins-not-increasing", lambda: (
                              "bins %r; %s" % (bins, where())))
            # labels and non-triviality
            if exp and len(exp) < len(pop.files):
                ctx.nontrivial = True
            if q["filters"]:
                for key in q["filters"]:
                    ctx.label("black" if key.startswith("!") else "white")
            for f in exp:
                if start is not None and f.t1 == start:
                    ctx.label("touch-start")
                if start is not None and period is not None \
                        and f.t0 < start and G.format_path(
                            tpl, f.s, f.e, f.attrs, f.wild).rsplit("/", 1)[0] \
                        != G.format_path(tpl, G.truncate(
                            start, G.resolution_of(tpl)), f.e, f.attrs,
                            f.wild).rsplit("/", 1)[0]:
                    ctx.label("lookback")
                if end is not None and f.t0 == end - G.US:
                    ctx.label("touch-end")
            if end is not None and any(f.t0 == end for f in pop.files):
                ctx.label("t0==end-omitted")

        # membership and len (no filters)
        for t in case["contains"]:
            exp = any(f.t0 <= t <= f.t1 for f in expected_files(
                pop, excl_paths, excl_periods, dt.datetime.min,
                dt.datetime.max, None))
            got = t in fileset
            ctx.check(got == exp, "contains/wrong-answer", lambda: (
                "t=%s expected %r got %r; template=%r files=%r exclude=%r/%r"
                % (t, exp, got, pop.path, pop.files, sorted(excl_paths),
                   excl_periods)))
        n_exp = len(expected_files(pop, excl_paths, excl_periods,
                                   dt.datetime.min, dt.datetime.max, None))
        try:
            n_got = len(fileset)
        except NoFilesError:
            n_got = 0
        ctx.check(n_got == n_exp, "len/wrong-count", lambda: (
            "expected %d got %d; template=%r files=%r" % (
                n_exp, n_got, pop.path, pop.files)))


def check_single(case, ctx):
    """single-file filesets (no placeholder in the path)"""
    import os
    from typhon.files import FileSet
    from typhon.files.fileset import NoFilesError
    ctx.label("single-file")
    with G.Sandbox() as box:
        path = os.path.join(box.root, case["name"])
        if case["exists"]:
            with open(path, "wb"):
                pass
        cov = case["coverage"]
        fileset = FileSet(path, name="single",
                          time_coverage=None if cov is None else tuple(cov))
        t0, t1 = (dt.datetime.min, dt.datetime.max) if cov is None else cov
        for q in case["queries"]:
            start, end = q["start"], q["end"]
            lo = dt.datetime.min if start is None else start
            hi = dt.datetime.max if end is None else end
            if hi <= lo:
                try:
                    list(fileset.find(start, end))
                except ValueError:
                    continue
                ctx.fail("single/no-ValueError-for-end<=start", repr(q))
                continue
            if not case["exists"]:
                ctx.label("missing")
                try:
                    got = list(fileset.find(
                        start, end, no_files_error=q["no_files_error"]))
                except ValueError:
                    continue
                ctx.fail("single/missing-file-no-ValueError", repr(got))
                continue
            hit = t0 < hi and t1 >= lo
            try:
                got = list(fileset.find(
                    start, end, no_files_error=q["no_files_error"]))
            except NoFilesError:
                ctx.check(not hit and q["no_files_error"],
                          "single/unexpected-NoFilesError", repr((case, q)))
                continue
            ctx.check([g.path for g in got] == ([path] if hit else []),
                      "single/wrong-answer", lambda: repr((case, q, got)))
            ctx.check(hit or not q["no_files_error"],
                      "single/no-NoFilesError", repr((case, q)))
            for g in got:
                ctx.check(list(g.times) == [t0, t1], "single/wrong-times",
                          lambda: repr((case, g.times)))
            ctx.nontrivial = ctx.nontrivial or cov is not None


class HandlerFailure(Exception):
    pass


def check_handler_faults(case, ctx):
    """find() with info_via='both'/'handler': the coverage comes from the file
    handler; a handler that fails for one file during one search must not
    change the answers of later searches (fault sequence + history)."""
    from typhon.files import FileHandler, FileInfo, FileSet
    from typhon.files.fileset import NoFilesError
    tpl = case["template"]
    via = case["info_via"]
    ctx.label("via-" + via)
    with G.Sandbox() as box:
        root = box.mkdir("tree")
        pop = G.make_population(root, tpl, case["files"])
        if not pop.files:
            return
        extra = case["end_extra_s"]
        truth = {}
        for i, f in enumerate(pop.files):
            add = extra[i % len(extra)]
            t1 = f.t1 if add is None else f.t1 + dt.timedelta(seconds=add)
            truth[f.path] = (f.t0, t1, add is not None)
        failing = set()
        calls = {}

        def info(file_info):
            path = file_info.path
            calls[path] = calls.get(path, 0) + 1
            if path in failing:
                raise HandlerFailure(path)
            t0, t1, overridden = truth[path]
            if via == "handler":
                return FileInfo(path, [t0, t1], {})
            return FileInfo(path, [None, t1 if overridden else None], {})

        cov = tpl["coverage_s"]
        fileset = FileSet(
            pop.path, name="c01h", handler=FileHandler(info=info),
            info_via=via, placeholder=G.user_placeholder_arg(tpl),
            time_coverage=None if cov is None else dt.timedelta(seconds=cov))
        failed_once = False
        for op in case["ops"]:
            start, end = op["start"], op["end"]
            lo = dt.datetime.min if start is None else start
            hi = dt.datetime.max if end is None else end
            if hi <= lo:
                continue
            exp = sorted((p, t[0], t[1]) for p, t in truth.items()
                         if t[0] < hi and t[1] >= lo)
            failing.clear()
            if op["fail"] is not None:
                failing.add(pop.files[op["fail"] % len(pop.files)].path)
            where = lambda: ("op=%r via=%s template=%r failing=%r\ntruth=%r"
                             % (op, via, pop.path, sorted(failing), truth))
            try:
                got = list(fileset.find(start, end, no_files_error=False))
            except HandlerFailure:
                ctx.check(bool(failing), "handler/unexpected-failure", where)
                failed_once = True
                ctx.label("handler-failed-during-find")
                continue
            got_t = sorted((g.path, g.times[0], g.times[1]) for g in got)
            ctx.check(got_t == exp, "handler/wrong-files-or-times", lambda: (
                "expected=%r\ngot=%r\n%s%s" % (
                    exp, got_t, where(),
                    "\n(after an earlier search in which the handler "
                    "failed)" if failed_once else "")))
            if exp and len(exp) < len(truth):
                ctx.nontrivial = True
            if failed_once and exp:
                ctx.label("search-after-handler-failure")
        if any(t[2] for t in truth.values()):
            ctx.label("handler-overrides-end")


# --------------------------------------------------------------------------
# strategies
# --------------------------------------------------------------------------
@st.composite
def boundary_instant(draw, bounds, unit):
    if not bounds or draw(st.integers(0, 5)) == 0:
        return draw(G.instants("second"))
    b = draw(st.sampled_from(bounds))
    off = draw(st.sampled_from([
        dt.timedelta(0), dt.timedelta(0), G.US, -G.US, unit, -unit,
        dt.timedelta(days=1), -dt.timedelta(days=1), dt.timedelta(days=400),
        -dt.timedelta(days=400)]))
    return b + off


@st.composite
def filters_for(draw, tpl):
    user = tpl["user"]
    if not user or draw(st.integers(0, 2)) == 0:
        return None
    out = {}
    for name, spec in sorted(user.items()):
        mode = draw(st.sampled_from(["none", "white", "black", "white",
                                     "black"]))
        if mode == "none":
            continue
        shape = draw(st.sampled_from(["value", "list", "regex"]))
        vals = spec["values"] + ["A", "AB"]
        if shape == "value":
            v = draw(st.sampled_from(vals))
        elif shape == "list":
            v = draw(st.lists(st.sampled_from(vals), min_size=1, max_size=3,
                              unique=True))
        else:
            v = draw(st.sampled_from(["A.*", "[AB]", ".*1", "[A-Z]+", r"\d+",
                                      "A|B", ".", "(AB)?C?"]))
            if "|" in v and mode == "white":
                v = "(%s)" % v
        out[("!" if mode == "black" else "") + name] = v
    return out or None


@st.composite
def find_cases(draw):
    tpl = draw(G.templates())
    files = draw(G.populations(tpl))
    planned = G.plan_population(tpl, files, "")
    distract = G.distractors_for(tpl, files, draw)
    unit = G.RES_DELTA[G.resolution_of(tpl)]
    bounds = sorted({f.t0 for f in planned} | {f.t1 for f in planned})
    span = (max(f.t0 for f in planned) - min(f.t0 for f in planned)) \
        if planned else dt.timedelta(0)
    n_q = draw(st.integers(3, 6))
    queries = []
    for _ in range(n_q):
        start = draw(st.one_of(st.none(), boundary_instant(bounds, unit),
                               boundary_instant(bounds, unit)))
        end = draw(st.one_of(st.none(), boundary_instant(bounds, unit),
                             boundary_instant(bounds, unit)))
        if start is not None and end is not None and end <= start \
                and draw(st.integers(0, 3)) > 0:
            start, end = end, start + unit
        # typhon walks through every (also empty) frequency bin between the
        # first and the last file: keep the number of bins moderate
        freqs = [k for k, v in sorted(FREQ.items()) if span / v <= 3000]
        bundle = draw(st.one_of(
            st.none(), st.none(), st.integers(1, 5),
            st.sampled_from(freqs) if freqs else st.integers(1, 5)))
        rx = None
        if queries and draw(st.integers(0, 6)) == 0:
            periods = []
            for _ in range(draw(st.integers(0, 2))):
                a = draw(boundary_instant(bounds, unit))
                periods.append([a, a + draw(st.sampled_from([
                    dt.timedelta(0), unit, dt.timedelta(hours=1),
                    dt.timedelta(days=1)]))])
            rx = {"files": draw(st.lists(st.integers(0, 30), max_size=2)),
                  "periods": periods, "empty_as_list": draw(st.booleans())}
        queries.append({
            "start": start, "end": end, "reexclude": rx,
            "sort": draw(st.booleans()),
            "only_path": draw(st.integers(0, 3)) == 0,
            "bundle": bundle,
            "filters": (queries[0]["filters"]
                        if queries and queries[0]["filters"] is not None
                        and draw(st.booleans())
                        else draw(filters_for(tpl))),
            "no_files_error": draw(st.booleans()),
        })
    excl_files = draw(st.lists(st.integers(0, 30), max_size=2)) \
        if draw(st.integers(0, 2)) == 0 else []
    excl_periods = []
    if draw(st.integers(0, 2)) == 0:
        for _ in range(draw(st.integers(1, 3))):
            a = draw(boundary_instant(bounds, unit))
            b = a + draw(st.sampled_from([
                dt.timedelta(0), unit, dt.timedelta(hours=1),
                dt.timedelta(days=1), dt.timedelta(days=45)]))
            excl_periods.append([a, b])
    contains = draw(st.lists(boundary_instant(bounds, unit), min_size=1,
                             max_size=4))
    return {"template": tpl, "files": files, "distractors": distract,
            "fs": draw(st.sampled_from(["local", "local", "local", "zip"])),
            "coverage_as": draw(st.sampled_from(["td", "str"])),
            "coverage_late": draw(st.sampled_from([None, None, None, 0, 1,
                                                   7200])),
            "exclude_files": excl_files, "exclude_periods": excl_periods,
            "queries": queries, "contains": contains}


@st.composite
def single_cases(draw):
    t0 = draw(G.instants("second"))
    cov = draw(st.one_of(st.none(), st.just([
        t0, t0 + dt.timedelta(seconds=draw(st.sampled_from(
            [0, 1, 3600, 86400 * 13])))])))
    bounds = [] if cov is None else cov
    queries = []
    for _ in range(draw(st.integers(1, 4))):
        queries.append({
            "start": draw(st.one_of(st.none(), boundary_instant(
                bounds, dt.timedelta(seconds=1)))),
            "end": draw(st.one_of(st.none(), boundary_instant(
                bounds, dt.timedelta(seconds=1)))),
            "no_files_error": draw(st.booleans())})
    return {"name": draw(st.sampled_from(["single.nc", "a.b.txt", "data"])),
            "exists": draw(st.integers(0, 4)) > 0, "coverage": cov,
            "queries": queries}


@st.composite
def handler_fault_cases(draw):
    tpl = draw(G.templates(max_dirs=3, allow_wild=False, allow_ms=False))
    last = tpl["file"][-1]
    if last[0] == "lit" and last[1].endswith(".gz"):
        last[1] = last[1][:-3]     # the stub handler never opens the file
    files = draw(G.populations(tpl, min_files=1, max_files=10))
    planned = G.plan_population(tpl, files, "")
    unit = G.RES_DELTA[G.resolution_of(tpl)]
    limit = G.dir_period(tpl)
    # handler end = nominal end + extra, still within one directory period
    extras = []
    for f in planned:
        room = None if limit is None else \
            int((limit - (f.t1 - f.t0)).total_seconds())
        choices = [None, None, 1, 35 * 60, 3600]
        choices = [c for c in choices
                   if c is None or room is None or c <= room]
        extras.append(draw(st.sampled_from(choices)))
    bounds = sorted({f.t0 for f in planned} | {f.t1 for f in planned}
                    | {f.t1 + dt.timedelta(seconds=e or 0)
                       for f, e in zip(planned, extras)})
    ops = []
    for _ in range(draw(st.integers(2, 6))):
        ops.append({
            "start": draw(st.one_of(st.none(),
                                    boundary_instant(bounds, unit))),
            "end": draw(st.one_of(st.none(), boundary_instant(bounds, unit))),
            "fail": draw(st.one_of(st.none(), st.integers(0, 20)))})
    return {"template": tpl, "files": files, "end_extra_s": extras or [None],
            "info_via": draw(st.sampled_from(["both", "both", "handler"])),
            "ops": ops}


def suites(tier):
    return [
        Suite("find", check_find, strategy=find_cases(),
              examples={"quick": 250, "thorough": 2500}),
        Suite("single-file", check_single, strategy=single_cases(),
              examples={"quick": 40, "thorough": 400}),
        Suite("handler-faults", check_handler_faults,
              strategy=handler_fault_cases(),
              examples={"quick": 100, "thorough": 1000}),
    ]
