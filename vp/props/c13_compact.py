"""C13 - compact collocation data stay consistent under expand, collapse and
concat_collocations.

Oracle: plain Python loops over the pair list (vp/oracle/c13_compact.py).
Sources of compact data: data sets built by the harness in the layout of
Collocator._create_return, and real results of Collocator.collocate on
clustered point sets whose pairs are known by construction.
"""
import numpy as np

from vp.runner import Suite
from vp.gen import c13_compact as G
from vp.oracle import c13_compact as O

PROP_ID = "C13"
LEVEL = "exploration"
QUICK_SHARDS = 4
RULE = (
    "Hypothesis draws compact collocation data sets in the layout returned by "
    "Collocator.collocate: 1-1 500 distinct pairs over 1-50 primary and 1-80 "
    "secondary stored points (every point used; pair sets from explicit lists "
    "or per-primary bit masks; pair order as drawn, p-major, s-major, reversed "
    "or scrambled; >= 1000 pairs as an own class), payload variables of dtype "
    "f8/f4/i8/i4 with 0-2 extra dimensions and the collocation dimension at "
    "any position, NaNs, variables without the collocation dimension, 1-4 "
    "data sets per case for concat_collocations; reference = default / "
    "primary / secondary / unknown name; custom collapsers max, median.  All "
    "pair sets over <= 3 x 3 points are enumerated (<= 4 pairs: in every "
    "order).  Second source: Collocator.collocate on clustered points whose "
    "pair set is known by construction.  Oracle = Python loops over the pair "
    "list.  Non-trivial = some reference point has >= 2 partners and some "
    "partner is shared by >= 2 reference points.  Distinct = distinct case "
    "hash."
)
ASSUMPTIONS = [
    "payload values are finite with |x| <= 1e6, NaN, +inf or -inf (mean/std "
    "compared with |diff| <= 1e-12 * max|finite partner value|; infinite "
    "partner values count in <var>_number, make the mean +-inf or NaN and "
    "the std NaN)",
    "pairs are distinct; all data sets of one concat list have the same "
    "groups, variables, extra dimension sizes and coordinate labels",
    "inputs are deep-copied before every typhon call (concat_collocations "
    "shifts Collocations/pairs of its inputs in place; the property does not "
    "speak about that)",
    "collocator source: unique labels on the shared dimension, unique times, "
    "no NaN positions, at least two expected pairs (the only-pair-(0,0) class "
    "of D11 belongs to C04)",
    "the position (root or group path) of the reference group's variables in "
    "collapse() and what collapse() does with variables that have no "
    "collocation dimension are not part of the property; the check looks the "
    "reference variables up under either name",
]


# --------------------------------------------------------------------------
# comparing typhon's answers with the reference model
# --------------------------------------------------------------------------
def _as_spec_vars(ds):
    return {str(n): (tuple(str(d) for d in ds.variables[n].dims),
                     np.asarray(ds.variables[n].values))
            for n in ds.variables}


def check_expand(ctx, spec, expanded, what, sig0="expand"):
    exp = O.expand_expected(spec)
    got = _as_spec_vars(expanded)
    npairs = spec["pairs"].shape[1]
    ctx.check(expanded.sizes.get("collocation") == npairs,
              sig0 + "/row-count", lambda: (
                  "%s: %d pairs but %r rows" % (
                      what, npairs, dict(expanded.sizes))))
    left = [d for d in expanded.sizes if str(d).endswith("/collocation")]
    ctx.check(not left, sig0 + "/row-count", lambda: (
        "%s: expanded data still have the dimensions %r" % (what, left)))
    for name, (dims, vals) in exp.items():
        if name not in got:
            ctx.fail(sig0 + "/variable-missing", "%s: %s" % (what, name))
            continue
        gdims, gvals = got[name]
        if sorted(gdims) != sorted(dims):
            ctx.fail(sig0 + "/wrong-dims", "%s: %s has dims %r, expected %r"
                     % (what, name, gdims, dims))
            continue
        gvals = O.to_order(gdims, gvals, dims)
        grp = O.group_of(name)
        sig = sig0 + "/wrong-values"
        if grp == "Collocations":
            sig = sig0 + "/wrong-meta-values"
        elif "collocation" not in dims:
            sig = sig0 + "/non-collocation-var-changed"
        ctx.check(O.same_values(gvals, vals) and (
            gvals.dtype == vals.dtype
            or (gvals.dtype.kind in "OU" and vals.dtype.kind in "OU")),
                  sig, lambda: (
                      "%s: variable %s %r\npairs=%r\nstored=%r\nexpected=%r\n"
                      "got=%r (dtype %s)" % (
                          what, name, dims, spec["pairs"].tolist(),
                          spec["vars"][name][1].tolist(), vals.tolist(),
                          gvals.tolist(), gvals.dtype)))


KINDS = {
    "mean": lambda m, a: np.nanmean(m, axis=a),
    "std": lambda m, a: np.nanstd(m, axis=a),
    "max": lambda m, a: np.nanmax(m, axis=a),
    "median": lambda m, a: np.nanmedian(m, axis=a),
    # collapsers that hand back a part (a view) of the bin matrix: the first
    # partner in pair order, and the last of the slots
    "first": lambda m, a: m[0],
    "last": lambda m, a: m[-1],
    # number of rows of the bin matrix ("N(max. number of secondaries per
    # primary) x N(unique primaries)")
    "slots": lambda m, a: np.full(m.shape[:a] + m.shape[a + 1:], m.shape[a]),
}


def _parse_custom(custom):
    """["max", "mean=median"] -> {"max": "max", "mean": "median"}:
    name of the collapser -> kind of function behind it.  "a=b" replaces the
    standard collapser a (mean / std / number) by the function b."""
    out = {}
    for item in custom:
        name, _, kind = item.partition("=")
        out[name] = kind or name
    return out


def _collapsers(custom):
    """the dictionary handed to collapse(); all functions ignore the NaN
    padding of the bin matrix"""
    return {name: KINDS[kind] for name, kind in _parse_custom(custom).items()}


def _expected_collapse(spec, reference):
    cache = spec.setdefault("_collapse", {})
    if reference not in cache:
        cache[reference] = O.collapse_expected(spec, reference)
    return cache[reference]


def check_collapse(ctx, spec, collapsed, reference, custom, what):
    """collapsed = collapse(data of spec, reference, collapser of `custom`):
    exactly the variables <var>_<name> for name in mean, std, number and the
    custom names, each equal to the loop oracle of the function behind it"""
    ref_vars, exp = _expected_collapse(spec, reference)
    got = _as_spec_vars(collapsed)
    n_ref = spec["n"][spec["names"].index(reference)]
    other = spec["names"][1 - spec["names"].index(reference)]
    ctx.check(collapsed.sizes.get("collocation") == n_ref,
              "collapse/row-count", lambda: (
                  "%s: %d stored reference points (%s) but sizes %r" % (
                      what, n_ref, reference, dict(collapsed.sizes))))
    # the reference group's own values, row r = reference point r
    for local, (dims, vals) in ref_vars.items():
        for cand in (reference + "/" + local, local):
            if cand in got and sorted(got[cand][0]) == sorted(dims):
                gvals = O.to_order(got[cand][0], got[cand][1], dims)
                ctx.check(O.same_values(gvals, vals),
                          "collapse/reference-values", lambda: (
                              "%s: %s expected=%r got=%r" % (
                                  what, cand, vals.tolist(), gvals.tolist())))
                break
        else:
            ctx.fail("collapse/reference-variable-missing",
                     "%s: %s/%s; variables: %r" % (what, reference, local,
                                                   sorted(got)))
    funcs = {"mean": "mean", "std": "std", "number": "number"}
    funcs.update(_parse_custom(custom))
    if hasattr(ctx, "label") and {"first", "last"} & set(funcs.values()):
        ctx.label("custom-returns-view")
        shapes = [r["mean"].shape for r in exp.values()]
        if len(shapes) > len(set(shapes)):
            ctx.label("custom-returns-view+same-shape-variables")
    # no other collapsed variable than the ones asked for in THIS call
    wanted = {"%s_%s" % (name, func) for name in exp for func in funcs}
    unexpected = sorted(
        k for k, (dims, _) in got.items()
        if O.group_of(k) == other and "collocation" in dims
        and k not in wanted)
    ctx.check(not unexpected, "collapse/unexpected-variable", lambda: (
        "%s: collapse(reference=%s, collapser names %r) returned the "
        "variables %r in addition to %r" % (
            what, reference, sorted(_parse_custom(custom)), unexpected,
            sorted(wanted))))
    for name, res in exp.items():
        for func, kind in funcs.items():
            key = "%s_%s" % (name, func)
            if key not in got:
                ctx.fail("collapse/variable-missing", "%s: %s; variables: %r"
                         % (what, key, sorted(got)))
                continue
            gdims, gvals = got[key]
            if sorted(gdims) != sorted(res["dims"]):
                ctx.fail("collapse/wrong-dims", "%s: %s has dims %r, expected "
                         "%r" % (what, key, gdims, res["dims"]))
                continue
            gvals = O.to_order(gdims, gvals, res["dims"])
            if func == kind and func in ("mean", "std", "number"):
                sig = "collapse/wrong-" + func
            elif func == kind:
                sig = "collapse/custom/wrong-" + func
            else:
                sig = "collapse/custom/wrong-%s-replaced-by-%s" % (func, kind)
            if kind == "slots":
                ctx.check(np.all(gvals == res["most"]),
                          "collapse/custom/bin-matrix-rows", lambda: (
                              "%s: the bin matrix handed to the custom "
                              "collapser %r has %r rows, the largest number "
                              "of partners is %d" % (what, func, gvals.tolist(),
                                                     res["most"])))
                continue

            def detail(key=key, kind=kind, gvals=gvals, res=res, name=name):
                return ("%s: %s = %s over the partners (reference %s, "
                        "collapser names %r)\npairs=%r\nstored %s=%r\n"
                        "expected=%r\ngot=%r" % (
                            what, key, kind, reference,
                            sorted(_parse_custom(custom)),
                            spec["pairs"].tolist(),
                            name, spec["vars"][name][1].tolist(),
                            res[kind].tolist(), gvals.tolist()))
            if kind == "number":
                ctx.check(gvals.shape == res[kind].shape
                          and gvals.dtype.kind in "iu"
                          and np.array_equal(gvals, res[kind]), sig, detail)
            elif kind in ("first", "last"):
                ctx.check(O.same_values(
                    np.asarray(gvals, dtype=float), res[kind]), sig, detail)
            elif kind in ("max", "median"):
                ctx.check(O.close_values(gvals, res[kind], res["scale"],
                                         rtol=1e-15), sig, detail)
            else:
                ctx.check(O.close_values(gvals, res[kind], res["scale"]),
                          sig, detail)


def _api():
    """(collapse, expand, concat_collocations, Collocator) of the currently
    loaded typhon modules (they are reloaded by _first_plain_collapse when an
    earlier case left state behind)"""
    import typhon.collocations.collocator as collocator
    import typhon.collocations.common as common
    return (common.collapse, common.expand, collocator.concat_collocations,
            collocator.Collocator)


class _Collect:
    """stand-in for ctx that collects failures instead of raising"""

    def __init__(self):
        self.failures = []

    def fail(self, signature, detail=""):
        self.failures.append((signature, detail))

    def check(self, cond, signature, detail=""):
        if not cond:
            self.fail(signature, detail() if callable(detail) else detail)


_STATE = {"failed": False}


def _first_plain_collapse(ctx, ds, spec, what):
    """The first call of every case is a plain collapse that must return
    exactly the standard variables with the standard values.

    The verdict of a case must depend on the case only.  If the plain collapse
    is wrong although nothing has been called in this case yet, typhon's
    collocation modules are reloaded; if it is right then, an EARLIER case of
    this process left state behind in typhon.  Every case checks that itself
    (plain collapse after its calls with a collapser, histories), so normally
    that earlier case has been reported already and this one is a shrink
    candidate of it: the case goes on with the fresh modules.  Only if no case
    of this process failed before, the leak is reported here (that report
    cannot be replayed from this case alone)."""
    import importlib
    import typhon.collocations.collocator as collocator
    import typhon.collocations.common as common
    probe = _Collect()
    check_collapse(probe, spec, _api()[0](ds.copy(deep=True)),
                   spec["names"][0], [], what)
    if not probe.failures:
        return
    importlib.reload(collocator)
    importlib.reload(common)
    again = _Collect()
    check_collapse(again, spec, _api()[0](ds.copy(deep=True)),
                   spec["names"][0], [], what)
    if again.failures:          # wrong in freshly loaded modules as well
        ctx.fail(*again.failures[0])
        return
    ctx.label("state-left-by-earlier-case")
    if not _STATE["failed"]:
        ctx.fail("collapse/state-left-by-earlier-case",
                 "%s is wrong before anything else was called in this case "
                 "and right after reloading typhon.collocations: calls of an "
                 "earlier case changed the behaviour of later calls (this "
                 "report cannot be replayed from this case alone).  First "
                 "difference: %s: %s" % ((what,) + probe.failures[0]))


def _tracked(check):
    def wrapper(case, ctx):
        try:
            check(case, ctx)
        except BaseException:
            _STATE["failed"] = True
            raise
    wrapper.__name__ = check.__name__
    return wrapper


def classify(ctx, case, spec):
    pairs = spec["pairs"]
    k = pairs.shape[1]
    p, s = pairs[0].tolist(), pairs[1].tolist()
    cp = {}
    cs = {}
    for a, b in zip(p, s):
        cp[a] = cp.get(a, 0) + 1
        cs[b] = cs.get(b, 0) + 1
    one_to_many = any(v >= 2 for v in cp.values())
    many_to_one = any(v >= 2 for v in cs.values())
    most = max(max(cp.values()), max(cs.values()))
    ctx.label("one-point-with->=128-partners" if most >= 128 else None,
              "one-point-with->256-partners" if most > 256 else None,
              "one-point-with->=1000-partners" if most >= 1000 else None)
    ctx.label(">=1000 pairs" if k >= 1000 else None,
              "single-pair" if k == 1 else None,
              "one-to-many" if one_to_many else None,
              "many-to-one" if many_to_one else None,
              "one-to-one" if not one_to_many and not many_to_one else None)
    a, b = spec["names"]
    if a.startswith(b) or b.startswith(a):
        ctx.label("group-name-begins-other")
    if p != sorted(p):
        ctx.label("unsorted-primary-indices")
    if list(zip(p, s)) != sorted(zip(p, s)) and \
            list(zip(s, p)) != sorted(zip(s, p)):
        ctx.label("unsorted")
    for name, (dims, vals) in spec["vars"].items():
        grp = O.group_of(name)
        if grp in spec["names"]:
            cdim = grp + "/collocation"
            local = name.split("/", 1)[1]
            if cdim in dims and len(dims) > 1:
                ctx.label("extra-dims")
                if len(dims) > 2:
                    ctx.label("extra-dims-2")
                if dims[0] != cdim:
                    ctx.label("collocation-dim-not-first")
            if cdim in dims and vals.dtype.kind == "f" and \
                    local not in O.SKIP_LOCAL and np.isnan(vals).any():
                ctx.label("nan")
            if cdim in dims and vals.dtype.kind == "f" and \
                    local not in O.SKIP_LOCAL and np.isinf(vals).any():
                ctx.label("inf")
            if cdim in dims and vals.dtype.kind == "i" and local != "idx":
                ctx.label("int-payload")
            if cdim in dims and vals.dtype == np.float32:
                ctx.label("f4-payload")
            if cdim not in dims and not (len(dims) == 1 and dims[0] == name):
                ctx.label("var-without-collocation-dim")
            if len(dims) == 1 and dims[0] == name:
                ctx.label("extra-dim-with-labels")
    return one_to_many and many_to_one


def run_checks(ctx, case, datasets, tag):
    """datasets: compact xr.Datasets (one per part); the whole property"""
    names = None
    specs = []
    nontrivial = False
    for ds in datasets:
        spec = O.snapshot(ds)
        specs.append(spec)
        names = spec["names"]
        nontrivial |= classify(ctx, case, spec)
    ctx.nontrivial = nontrivial
    ref_kind = case["reference"]
    reference = {"default": None, "primary": names[0],
                 "secondary": names[1], "unknown": "no_such_group"}[ref_kind]
    ctx.label("ref-" + ref_kind)
    custom = list(case["custom"])
    if custom:
        ctx.label("custom")

    kwargs = {}
    if custom:
        kwargs["collapser"] = _collapsers(custom)
    ref_name = names[1] if ref_kind == "secondary" else names[0]
    _first_plain_collapse(ctx, datasets[0], specs[0], tag + " part 0, first "
                          "(plain) collapse of the case")
    collapse, expand, concat_collocations, _ = _api()
    for i, (ds, spec) in enumerate(zip(datasets, specs)):
        what = "%s part %d" % (tag, i)
        expanded = expand(ds.copy(deep=True))
        check_expand(ctx, spec, expanded, what)
        arg = ds.copy(deep=True)
        if ref_kind == "unknown":
            try:
                res = collapse(arg, reference, **kwargs)
            except ValueError:
                continue
            ctx.fail("collapse/unknown-reference-accepted",
                     "%s: collapse(reference=%r) returned %r"
                     % (what, reference, res))
            continue
        if reference is None and i % 2:
            collapsed = collapse(arg, **kwargs)
        else:
            collapsed = collapse(arg, reference, **kwargs)
        check_collapse(ctx, spec, collapsed, ref_name, custom, what)

    if custom and ref_kind != "unknown":
        # ... and a call without collapser after the calls with one is again
        # a plain one (the collapser belongs to the call it was given to)
        ctx.label("custom-then-plain")
        check_collapse(ctx, specs[-1],
                       collapse(datasets[-1].copy(deep=True), reference),
                       ref_name, [], "%s part %d, plain collapse after "
                       "collapse(collapser=%r)" % (tag, len(datasets) - 1,
                                                   custom))
    if len(datasets) < 2:
        return
    ctx.label("concat", "concat-3" if len(datasets) >= 3 else None)
    inputs = [ds.copy(deep=True) for ds in datasets]
    order = list(range(len(inputs)))
    if case.get("alias"):
        # the same data set object twice in the list
        order.append(0)
        ctx.label("concat-same-object-twice")
    merged = concat_collocations([inputs[i] for i in order])
    # the right-hand side of the property, evaluated after the left-hand one
    # on the very objects that were handed to concat_collocations
    for i, ds in enumerate(inputs):
        now = np.asarray(ds["Collocations/pairs"].values)
        ctx.check(np.array_equal(now, specs[i]["pairs"]),
                  "concat/input-pairs-changed", lambda: (
                      "%s: concat_collocations of %d data sets%s changed "
                      "Collocations/pairs of its input %d from %r to %r, "
                      "expand(input %d) is no longer what it was" % (
                          tag, len(order), " (input 0 given twice)"
                          if case.get("alias") else "", i,
                          specs[i]["pairs"].tolist(), now.tolist(), i)))
        check_expand(ctx, specs[i], expand(ds),
                     "%s part %d after concat_collocations" % (tag, i),
                     "concat/expand-of-input-afterwards")
    datasets = [datasets[i] for i in order]
    specs = [specs[i] for i in order]
    mspec = O.snapshot(merged)
    problems = O.validity_problems(mspec)
    ctx.check(not problems, "concat/invalid-pairs", lambda: (
        "%s: %s\npairs of the parts: %r\npairs of the result: %r" % (
            tag, "; ".join(problems), [s["pairs"].tolist() for s in specs],
            mspec["pairs"].tolist())))
    for g in range(2):
        total = sum(s["n"][g] for s in specs)
        ctx.check(mspec["n"][g] == total, "concat/stored-point-count",
                  "%s: %d stored points of %s, the parts have %d"
                  % (tag, mspec["n"][g], names[g], total))
    expanded = expand(merged.copy(deep=True))
    got = _as_spec_vars(expanded)
    parts = [O.expand_expected(s) for s in specs]
    counts = [s["pairs"].shape[1] for s in specs]
    ctx.check(expanded.sizes.get("collocation") == sum(counts),
              "concat/row-count", lambda: (
                  "%s: parts have %r pairs, expand(concat) has sizes %r"
                  % (tag, counts, dict(expanded.sizes))))
    for name, (dims, _) in parts[0].items():
        if len(dims) == 1 and dims[0] == name:
            continue        # labels of an extra dimension
        if name not in got:
            ctx.fail("concat/variable-missing", "%s: %s" % (tag, name))
            continue
        gdims, gvals = got[name]
        if "collocation" in dims:
            axis = dims.index("collocation")
            want = np.concatenate([p[name][1] for p in parts], axis=axis)
            wdims = dims
        elif "collocation" in gdims:
            # a variable without the collocation dimension: every row carries
            # the value of the data set it comes from
            wdims = ("collocation",) + dims
            want = np.concatenate([
                np.broadcast_to(p[name][1], (c,) + p[name][1].shape)
                for p, c in zip(parts, counts)], axis=0)
        else:
            wdims = dims
            want = parts[0][name][1]
            same = all(O.same_values(p[name][1], want) for p in parts)
            ctx.check(same, "concat/non-collocation-var-lost", lambda: (
                "%s: %s differs between the parts (%r) but the result has "
                "only one value %r" % (tag, name,
                                       [p[name][1].tolist() for p in parts],
                                       gvals.tolist())))
        if sorted(gdims) != sorted(wdims):
            ctx.fail("concat/wrong-dims", "%s: %s has dims %r, expected %r"
                     % (tag, name, gdims, wdims))
            continue
        gvals = O.to_order(gdims, gvals, wdims)
        ctx.check(O.same_values(gvals, want), "concat/wrong-rows", lambda: (
            "%s: expand(concat(parts))[%s] is not the concatenation of the "
            "expanded parts\npairs of the parts=%r\npairs of concat=%r\n"
            "expected=%r\ngot=%r" % (
                tag, name, [s["pairs"].tolist() for s in specs],
                mspec["pairs"].tolist(), want.tolist(), gvals.tolist())))
    # the concatenation is itself a compact data set: collapse it as well
    if not problems and ref_kind != "unknown":
        collapsed = collapse(merged.copy(deep=True), reference, **kwargs)
        check_collapse(ctx, mspec, collapsed, ref_name, custom,
                       tag + " concat")


# --------------------------------------------------------------------------
# suite 1: harness-built compact data
# --------------------------------------------------------------------------
def check_built(case, ctx):
    datasets = [G.build_compact(case, part) for part in case["parts"]]
    if case.get("mandatory_only"):
        ctx.label("mandatory-fields-only")
    for i, ds in enumerate(datasets):
        problems = O.validity_problems(O.snapshot(ds))
        if problems:       # generator bug, not a finding
            raise AssertionError("generated data set %d is invalid: %s"
                                 % (i, problems))
    run_checks(ctx, case, datasets, "built")


# --------------------------------------------------------------------------
# suite: histories - a sequence of calls inside one case
# --------------------------------------------------------------------------
def check_history(case, ctx):
    """Every call of the sequence is compared with the loop oracle for ITS
    arguments, whatever was called before (also with other collapsers, other
    references, other data sets)."""
    pool = [G.build_compact(case, part) for part in case["parts"]]
    nparts = len(pool)
    specs = [O.snapshot(ds) for ds in pool]
    for spec in specs:
        if O.validity_problems(spec):
            raise AssertionError("generated data set is invalid")
        ctx.nontrivial |= classify(ctx, case, spec)
    names = specs[0]["names"]
    ctx.label("history")
    _first_plain_collapse(ctx, pool[0], specs[0],
                          "history, first (plain) collapse of the case")
    collapse, expand, concat_collocations, _ = _api()
    last_custom = None          # collapser names of the latest collapse call
    ever_custom = False
    for k, step in enumerate(case["steps"]):
        op = step["op"]
        what = "history step %d/%d (%s) after %r" % (
            k + 1, len(case["steps"]), op,
            [(s_["op"], s_.get("custom")) for s_ in case["steps"][:k]])
        if op == "concat":
            order = [i % nparts for i in step["ds"]]
            inputs = [pool[i].copy(deep=True) for i in sorted(set(order))]
            lookup = dict(zip(sorted(set(order)), inputs))
            merged = concat_collocations([lookup[i] for i in order])
            mspec = O.snapshot(merged)
            problems = O.validity_problems(mspec)
            ctx.check(not problems, "concat/invalid-pairs", lambda: (
                "%s: %s\npairs of the parts: %r\npairs of the result: %r" % (
                    what, "; ".join(problems),
                    [specs[i]["pairs"].tolist() for i in order],
                    mspec["pairs"].tolist())))
            if problems:
                continue
            want = np.concatenate([
                O.expand_expected(specs[i])[names[0] + "/idx"][1]
                for i in order])
            got = expand(merged.copy(deep=True))[names[0] + "/idx"].values
            ctx.check(O.same_values(got, want), "concat/wrong-rows", lambda: (
                "%s: %s/idx of expand(concat) expected=%r got=%r" % (
                    what, names[0], want.tolist(), got.tolist())))
            pool.append(merged)
            specs.append(mspec)
            ctx.label("history-concat")
            continue
        i = step["ds"] % len(pool)
        if i >= nparts:
            ctx.label("history-call-on-concat-result")
        if op == "expand":
            check_expand(ctx, specs[i], expand(pool[i].copy(deep=True)), what)
            continue
        custom = list(step["custom"])
        ref_kind = step["reference"]
        reference = {"default": None, "primary": names[0],
                     "secondary": names[1],
                     "unknown": "no_such_group"}[ref_kind]
        kwargs = {"collapser": _collapsers(custom)} if custom else {}
        if custom:
            ctx.label("custom")
            if any("=" in c for c in custom):
                ctx.label("custom-replaces-standard")
        if last_custom is not None and \
                sorted(last_custom) != sorted(_parse_custom(custom)):
            ctx.label("history-other-collapser-after-custom")
            if not custom:
                ctx.label("custom-then-plain")
        if ref_kind == "unknown":
            try:
                res = collapse(pool[i].copy(deep=True), reference, **kwargs)
            except ValueError:
                continue
            ctx.fail("collapse/unknown-reference-accepted",
                     "%s: collapse(reference=%r) returned %r"
                     % (what, reference, res))
            continue
        ctx.label("ref-" + ref_kind)
        collapsed = collapse(pool[i].copy(deep=True), reference, **kwargs)
        check_collapse(ctx, specs[i], collapsed,
                       names[1] if ref_kind == "secondary" else names[0],
                       custom, what)
        if custom:
            last_custom = list(_parse_custom(custom))
            ever_custom = True
    if ever_custom:
        check_collapse(ctx, specs[0], collapse(pool[0].copy(deep=True)),
                       names[0], [], "history, closing plain collapse after "
                       "%r" % [(s_["op"], s_.get("custom"))
                               for s_ in case["steps"]])


# --------------------------------------------------------------------------
# suite: stored compact data read through Collocations (FileSet subclass)
# --------------------------------------------------------------------------
READ_MODES = [None, "collapse", "expand", "compact"]


def check_files(case, ctx):
    """The compact data set is written to a NetCDF file and read back through
    Collocations(path, reference=..., collapser=..., read_mode=...) in every
    read mode; each answer is compared with the oracle for collapse / expand
    of the stored compact data (read_mode None = "collapse")."""
    import os
    import shutil
    import tempfile
    import typhon.collocations.common as common

    ds = G.build_compact(case, case["parts"][0])
    spec = O.snapshot(ds)
    if O.validity_problems(spec):
        raise AssertionError("generated data set is invalid")
    ctx.nontrivial = classify(ctx, case, spec)
    ctx.label("from-file")
    names = spec["names"]
    _first_plain_collapse(ctx, ds, spec, "files, first (plain) collapse of "
                          "the case")
    ref_kind = case["reference"]
    reference = {"default": None, "primary": names[0],
                 "secondary": names[1], "unknown": "no_such_group"}[ref_kind]
    ref_name = names[1] if ref_kind == "secondary" else names[0]
    custom = list(case["custom"])
    ctx.label("ref-" + ref_kind, "custom" if custom else None)
    tmp = tempfile.mkdtemp(prefix="vp-c13-")
    try:
        path = os.path.join(
            tmp, "{year}{month}{day}-{hour}{minute}{second}.nc")
        filename = os.path.join(tmp, "20180301-000000.nc")
        common.Collocations(path=path).write(ds.copy(deep=True), filename)
        for mode in case["modes"]:
            what = "Collocations(reference=%r, collapser names %r, " \
                "read_mode=%r).read(file)" % (
                    reference, sorted(_parse_custom(custom)), mode)
            kwargs = {"path": path}
            if mode is not None or case["explicit_none"]:
                kwargs["read_mode"] = mode
            if reference is not None:
                kwargs["reference"] = reference
            if custom:
                kwargs["collapser"] = _collapsers(custom)
            fileset = common.Collocations(**kwargs)
            ctx.label("read_mode-%s" % mode)
            collapsing = mode in (None, "collapse")
            if collapsing and ref_kind == "unknown":
                try:
                    res = fileset.read(filename)
                except ValueError:
                    continue
                ctx.fail("collapse/unknown-reference-accepted",
                         "%s returned %r" % (what, res))
                continue
            data = fileset.read(filename)
            if collapsing:
                check_collapse(ctx, spec, data, ref_name, custom, what)
            elif mode == "expand":
                check_expand(ctx, spec, data, what)
            else:
                got = _as_spec_vars(data)
                for name, (dims, vals) in spec["vars"].items():
                    ok = name in got and got[name][0] == dims and \
                        O.same_values(got[name][1], vals)
                    ctx.check(ok, "files/compact-data-changed", lambda: (
                        "%s: %s stored as %r %r, read as %r" % (
                            what, name, dims, vals.tolist(),
                            got.get(name, (None, None)))))
        if custom:
            ctx.label("custom-then-plain")
            check_collapse(ctx, spec, common.collapse(ds.copy(deep=True)),
                           names[0], [], "files, plain collapse after " + what)
    finally:
        shutil.rmtree(tmp, ignore_errors=True)


# --------------------------------------------------------------------------
# suite 2: results of Collocator.collocate
# --------------------------------------------------------------------------
def check_collocator(case, ctx):
    Collocator = _api()[3]
    ctx.label("from-collocator")
    names = case["names"]
    out_names = names or ["primary", "secondary"]
    mi = case["max_interval"]
    ctx.label("spatial-only" if mi is None else "spatial+temporal")
    results = []
    for i, part in enumerate(case["parts"]):
        what = "collocate part %d" % i
        inputs, ids, secs = [], [], []
        for g in range(2):
            ds, id_, sec = G.build_points(case, part, g)
            inputs.append(ds)
            ids.append(id_)
            secs.append(sec)
        expected = set()
        for a, pa in enumerate(part["points"][0]):
            for b, pb in enumerate(part["points"][1]):
                if pa[0] != pb[0] or pa[4] < 0 or pb[4] < 0:
                    continue
                if mi is not None and abs(secs[0][a] - secs[1][b]) >= 3600:
                    continue
                expected.add((ids[0][a], ids[1][b]))
        assert len(expected) >= 2
        if any(p[4] < 0 for g in range(2) for p in part["points"][g]):
            ctx.label("nan-positions")
        originals = [{k: (v.dims, np.array(v.values))
                      for k, v in ds.variables.items()} for ds in inputs]
        args = [ds.copy(deep=True) for ds in inputs]
        if names is not None:
            args = [(names[0], args[0]), (names[1], args[1])]
        kwargs = {"max_distance": case["max_distance"]}
        if mi is not None:
            kwargs["max_interval"] = mi
        result = Collocator().collocate(args[0], args[1], **kwargs)
        if result is None:
            ctx.fail("collocator/no-result", "%s: %d pairs expected, collocate"
                     " returned None" % (what, len(expected)))
            return
        spec = O.snapshot(result)
        ctx.check(spec["names"] == out_names, "collocator/group-names",
                  "%s: %r" % (what, spec["names"]))
        problems = O.validity_problems(spec)
        ctx.check(not problems, "collocator/invalid-pairs", lambda: (
            "%s: %s\npairs=%r" % (what, "; ".join(problems),
                                  spec["pairs"].tolist())))
        if problems:
            return
        # the stored points are the original points (compaction)
        stored_ids = []
        for g, grp in enumerate(out_names):
            sid = spec["vars"][grp + "/idx"][1].tolist()
            stored_ids.append(sid)
            ctx.check(len(set(sid)) == len(sid) and set(sid) <= set(ids[g]),
                      "collocator/stored-points", lambda: (
                          "%s: stored %s/idx = %r" % (what, grp, sid)))
            if len(sid) < len(ids[g]):
                ctx.label("points-without-partner")
            dim = case["schema"][g]["dim"]
            for vname, (dims, vals) in originals[g].items():
                if dim not in dims or vname == dim:
                    continue
                sdims, svals = spec["vars"][grp + "/" + vname]
                axis = dims.index(dim)
                want = np.stack([np.take(vals, ids[g].index(j), axis=axis)
                                 for j in sid], axis=axis)
                ctx.check(O.same_values(svals, want)
                          and sdims[axis] == grp + "/collocation",
                          "collocator/stored-values", lambda: (
                              "%s: %s/%s %r expected=%r got=%r" % (
                                  what, grp, vname, sdims, want.tolist(),
                                  svals.tolist())))
        found = [(stored_ids[0][int(p)], stored_ids[1][int(s)])
                 for p, s in zip(spec["pairs"][0], spec["pairs"][1])]
        ctx.check(len(found) == len(set(found)) and set(found) == expected,
                  "collocator/wrong-pairs", lambda: (
                      "%s: expected (by ids) %r, got %r" % (
                          what, sorted(expected), found)))
        results.append(result)
    run_checks(ctx, case, results, "collocator")


def suites(tier):
    return [
        Suite("built", _tracked(check_built), strategy=G.built_cases(),
              examples={"quick": 180, "thorough": 4000},
              essential_labels=(">=1000 pairs", "extra-dims", "nan",
                                "ref-secondary", "custom", "concat-3")),
        Suite("histories", _tracked(check_history), strategy=G.history_cases(),
              examples={"quick": 100, "thorough": 2000},
              essential_labels=("custom-then-plain",
                                "custom-replaces-standard")),
        Suite("files", _tracked(check_files), strategy=G.file_cases(),
              examples={"quick": 40, "thorough": 600},
              essential_labels=("read_mode-None", "ref-secondary")),
        Suite("small-patterns-exhaustive", _tracked(check_built),
              cases=G.small_pattern_cases, exhaustive=True),
        Suite("collocator", _tracked(check_collocator), strategy=G.collocator_cases(),
              examples={"quick": 80, "thorough": 1000},
              essential_labels=("from-collocator",)),
    ]
