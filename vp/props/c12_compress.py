"""C12 - compress / decompress round-trip any content and never leave debris.

One case = one file name, one content, one compress block and one decompress
block, each with at most one injected fault.  Oracles: the bytes read back,
the standard library opening the stored archive, and directory listings of
harness-owned directories (temp dir passed as ``tmpdir=``, temp dir installed
as ``tempfile.tempdir``, target directory, directory of the explicit
decompress target).
"""
import bz2
import gzip
import hashlib
import lzma
import os
import shutil
import tempfile
import zipfile
import zlib

from hypothesis import strategies as st

from vp.runner import Suite

PROP_ID = "C12"
LEVEL = "exploration"
QUICK_SHARDS = 4
RULE = (
    "Hypothesis draws a file name (1-3 inner extensions incl. compression "
    "suffixes in the middle, spaces, unicode, hidden files), a format (gz, "
    "bz2, zip, xz by suffix or by fmt=, or a name without compression suffix), "
    "a content (empty, 1 byte, literal bytes, 0-256 KiB of incompressible / "
    "highly compressible / already compressed bytes expanded from a key), how "
    "the temp dir is given (tmpdir= or tempfile.tempdir; in a quarter of the "
    "cases the temp dirs and the explicit decompress target lie on another "
    "filesystem than the target, if one is writable), names that coincide "
    "with typhon's own scratch names ('temp'), an optional "
    "pre-existing compress target (arbitrary bytes or a longer genuine older "
    "archive), an optional explicit decompress target that may already exist "
    "with other content (empty / shorter / longer), and independently one fault for the compress block "
    "(exception in the body before / in the middle of / after writing, "
    "copyfileobj raising after k bytes, compressor constructor raising) and "
    "one for the decompress block (body exception, copy fault after k bytes, "
    "constructor raising, archive truncated at byte k, bit flipped, archive of "
    "another format); Exception and BaseException flavours.  Non-trivial = "
    "content >= 2 bytes and (a fault was injected or the name/fmt selects a "
    "compression format) / two or more blocks open at once (suite nested: "
    "2-3 compress / decompress blocks for equally named files in different "
    "directories, left in LIFO or another order, with unrelated files in the "
    "temp dirs and next to the archives whose bytes must not change).  "
    "Distinct = distinct case hash.  Thorough adds one "
    "content of 100 MiB + 1 byte per format (crosses the copy chunk)."
)
ASSUMPTIONS = [
    "file names are str, contain no '/', NUL or surrogates and at least one "
    "alphanumeric character; directories given as tmpdir exist",
    "the clause 'creates no target file / leaves an existing one as it was' is "
    "taken to apply to exceptions raised by the caller inside the compress "
    "block; for faults injected into compress_as itself (copy, constructor) "
    "only the absence of temporary debris is demanded",
    "a corrupt / truncated / foreign archive may make decompress raise any "
    "Exception or (where the format cannot notice, e.g. an empty .gz) succeed; "
    "only the absence of debris is demanded",
    "open descriptors are left to the garbage collector (file-system listings "
    "only)",
]

FORMATS = ("gz", "bz2", "zip", "xz")
MAGIC = {"gz": b"\x1f\x8b", "bz2": b"BZh", "zip": b"PK",
         "xz": b"\xfd7zXZ\x00"}
BIG = 100 * 1024 * 1024 + 1


class InjectedError(Exception):
    pass


class InjectedBase(BaseException):
    pass


def make_exc(flavour, what):
    return (InjectedBase if flavour == "base" else InjectedError)(what)


# --------------------------------------------------------------------------
# content
# --------------------------------------------------------------------------
def expand(spec):
    if spec["kind"] == "literal":
        return spec["data"]
    if spec["kind"] == "magic":
        # content that is itself an archive of one of the formats, or merely
        # starts with its magic number
        inner = hashlib.shake_256(b"c12m-%d" % spec["key"]).digest(
            spec["size"])
        if spec["full"]:
            return stdlib_archive(spec["fmt"], "inner.bin", inner)
        return {"gz": b"\x1f\x8b\x08", "bz2": b"BZh", "zip": b"PK\x03\x04",
                "xz": b"\xfd7zXZ\x00"}[spec["fmt"]] + inner
    size, key = spec["size"], spec["key"]
    seed = b"c12-%d" % key
    if spec["mode"] == "random":
        return hashlib.shake_256(seed).digest(size)
    if spec["mode"] == "compressible":
        pat = hashlib.shake_256(seed).digest(1 + key % 7)
        return (pat * (size // len(pat) + 1))[:size]
    if spec["mode"] == "precompressed":
        raw = hashlib.shake_256(seed).digest(size // 2) + b"A" * (size // 2)
        return zlib.compress(raw, 6)
    raise ValueError(spec)


def stdlib_archive(fmt, member, data):
    """an archive of `data` made without typhon"""
    import io
    if fmt == "gz":
        return gzip.compress(data, mtime=0)
    if fmt == "bz2":
        return bz2.compress(data)
    if fmt == "xz":
        return lzma.compress(data, format=lzma.FORMAT_XZ)
    buf = io.BytesIO()
    with zipfile.ZipFile(buf, "w", zipfile.ZIP_DEFLATED) as zf:
        zf.writestr(zipfile.ZipInfo(member, (1980, 1, 1, 0, 0, 0)), data)
    return buf.getvalue()


def stdlib_read(fmt, path):
    """-> (bytes, problem or None); opens the archive with the stdlib only"""
    with open(path, "rb") as fh:
        head = fh.read(8)
    if not head.startswith(MAGIC[fmt]):
        return None, "file does not start with the %s magic: %r" % (fmt, head)
    try:
        if fmt == "gz":
            with gzip.open(path, "rb") as fh:
                return fh.read(), None
        if fmt == "bz2":
            with bz2.open(path, "rb") as fh:
                return fh.read(), None
        if fmt == "xz":
            with lzma.open(path, "rb", format=lzma.FORMAT_XZ) as fh:
                return fh.read(), None
        with zipfile.ZipFile(path) as zf:
            names = zf.namelist()
            if len(names) != 1:
                return None, "zip has members %r" % (names,)
            bad = zf.testzip()
            if bad is not None:
                return None, "zip member %r fails its CRC" % bad
            return zf.read(names[0]), None
    except (OSError, EOFError, zipfile.BadZipFile, lzma.LZMAError,
            zlib.error) as exc:
        return None, "stdlib cannot open it: %r" % (exc,)


def listing(path):
    return sorted(os.listdir(path))


def read_bytes(path):
    with open(path, "rb") as fh:
        return fh.read()


def under(path, directory):
    path = os.path.realpath(path)
    directory = os.path.realpath(directory)
    return path.startswith(directory + os.sep)


# --------------------------------------------------------------------------
# fault injection (module-level names of typhon.files.utils, restored always)
# --------------------------------------------------------------------------
class ShutilProxy:
    """stands in for the name ``shutil`` inside typhon.files.utils"""

    def __init__(self, real, k, exc, state):
        self._real = real
        self._k = k
        self._exc = exc
        self._state = state

    def copyfileobj(self, fsrc, fdst, length=0):
        self._state["fired"] = True
        if self._k > 0:
            fdst.write(fsrc.read(self._k))
        raise self._exc

    def __getattr__(self, name):
        return getattr(self._real, name)


class Patch:
    """context manager installing one fault into typhon.files.utils"""

    def __init__(self, U, fault, fmt, nbytes, state):
        self.U, self.fault, self.fmt = U, fault, fmt
        self.nbytes, self.state = nbytes, state
        self.saved_shutil = None
        self.saved_entry = None

    def __enter__(self):
        U, fault, fmt, state = self.U, self.fault, self.fmt, self.state
        if fault is None or fault["kind"] not in ("copy", "open", "zipcopy"):
            return self
        exc = make_exc(fault["exc"], "injected " + fault["kind"])
        state["exc"] = exc
        if fault["kind"] == "copy":
            k = fault["k"] % (self.nbytes + 1)
            self.saved_shutil = U.shutil
            U.shutil = ShutilProxy(self.saved_shutil, k, exc, state)
        elif fault["kind"] == "zipcopy":
            k = fault["k"] % (self.nbytes + 1)
            self.saved_entry = U._known_compressions[fmt]

            class FaultyZip(zipfile.ZipFile):
                def write(self, filename, arcname=None, **kwargs):
                    state["fired"] = True
                    with open(filename, "rb") as fh:
                        self.writestr(arcname or "x", fh.read(k))
                    raise exc
            U._known_compressions[fmt] = FaultyZip
        else:
            self.saved_entry = U._known_compressions[fmt]

            class Unopenable:
                def __init__(self, *args, **kwargs):
                    state["fired"] = True
                    raise exc
            U._known_compressions[fmt] = Unopenable
        return self

    def __exit__(self, *exc_info):
        if self.saved_shutil is not None:
            self.U.shutil = self.saved_shutil
        if self.saved_entry is not None:
            self.U._known_compressions[self.fmt] = self.saved_entry
        return False


# --------------------------------------------------------------------------
# the check
# --------------------------------------------------------------------------
def build_name(case):
    n = case["name"]
    return n["prefix"] + n["core"] + "".join(n["inner"]) + n["suffix"]


def check_case(case, ctx):
    import typhon.files.utils as U
    from typhon.files import compress, decompress

    fmt = case["fmt"]                    # None = name without compression suffix
    # suffix | fmt-arg (suffix says the same) | fmt-arg-plain (no compression
    # suffix) | fmt-arg-other (suffix of another format, fmt= decides)
    via = case["via"]
    name = build_name(case)
    content = expand(case["content"])
    cf, df = case["cfault"], case["dfault"]

    ctx.label("fmt-" + fmt if fmt else "passthrough")
    if via != "suffix":
        ctx.label("fmt-arg", via)
    if name.count(".") >= 2:
        ctx.label("multi-dot")
    if any(ord(c) > 127 for c in name):
        ctx.label("unicode")
    if " " in name:
        ctx.label("space")
    if case["name"]["core"] in SCRATCH_NAMES:
        ctx.label("scratch-name")
        if name == "temp":
            ctx.label("scratch-name-exact")
    ctx.label({0: "empty", 1: "one-byte"}.get(len(content)))
    if len(content) > 64 * 1024:
        ctx.label("large")
    if case["content"]["kind"] == "expand":
        ctx.label("content-" + case["content"]["mode"])
    if case["content"]["kind"] == "magic":
        ctx.label("content-is-an-archive" if case["content"]["full"]
                  else "content-starts-with-a-magic-number")
        if case["content"]["fmt"] == fmt:
            ctx.label("content-looks-like-the-requested-format")
    ctx.nontrivial = len(content) >= 2 and bool(
        fmt or cf is not None or df is not None)

    root = tempfile.mkdtemp(prefix="vp-c12-")
    saved_tempdir = tempfile.tempdir
    root2 = None
    try:
        side = root
        if case.get("xdev"):
            # temp dirs and the explicit decompress target on another
            # filesystem than the target directory (no rename possible)
            other = other_filesystem(root)
            if other is None:
                ctx.label("xdev-unavailable")
            else:
                root2 = side = tempfile.mkdtemp(prefix="vp-c12-", dir=other)
                ctx.label("xdev")
        T = os.path.join(side, "tmp-arg")       # passed as tmpdir=
        D = os.path.join(side, "tmp-default")   # installed as tempfile.tempdir
        W = os.path.join(root, "work")          # where the target lives
        X = os.path.join(side, "xtarget")       # explicit decompress target
        for d in (T, D, W, X):
            os.mkdir(d)
        tempfile.tempdir = D
        target = os.path.join(W, name)
        world = {"T": T, "D": D, "W": W, "X": X, "U": U, "by": {T: {}, D: {}},
                 "compress": compress, "decompress": decompress}
        if case.get("bystanders"):
            # unrelated files that live in the temp dirs already, called like
            # the names involved: they are neither debris nor typhon's to touch
            ctx.label("bystanders")
            stems = {name, name + "." + (fmt or "gz"), "temp",
                     os.path.splitext(name)[0] or "x"}
            for d in (T, D):
                for n in sorted(stems):
                    data = ("bystander %s" % n).encode("utf-8")
                    with open(os.path.join(d, n), "wb") as fh:
                        fh.write(data)
                    world["by"][d][n] = data
        ok = run_compress(case, ctx, world, name, target, fmt, via, content)
        run_decompress(case, ctx, world, name, target, fmt, via, content, ok)
    finally:
        tempfile.tempdir = saved_tempdir
        shutil.rmtree(root, ignore_errors=True)
        if root2 is not None:
            shutil.rmtree(root2, ignore_errors=True)


def other_filesystem(reference):
    """a writable directory on another device than `reference`, or None"""
    dev = os.stat(reference).st_dev
    for cand in ("/dev/shm", "/run/shm", "/var/tmp"):
        try:
            if os.path.isdir(cand) and os.access(cand, os.W_OK | os.X_OK) \
                    and os.stat(cand).st_dev != dev:
                return cand
        except OSError:
            pass
    return None


def temp_dirs_clean(world):
    return all(listing(world[k]) == sorted(world["by"][world[k]])
               for k in ("T", "D"))


def no_debris(ctx, world, phase, extra=""):
    for key in ("T", "D"):
        d = world[key]
        how = "tmpdir=" if key == "T" else "tempfile.tempdir"
        mine = world["by"][d]
        left = [n for n in listing(d) if n not in mine]
        ctx.check(not left, "%s/temp-debris" % phase, lambda: (
            "%s left in the temp dir given as %s after the block%s"
            % (left, how, extra)))
        hurt = [n for n, data in sorted(mine.items())
                if not os.path.isfile(os.path.join(d, n))
                or read_bytes(os.path.join(d, n)) != data]
        ctx.check(not hurt, "%s/bystander-touched" % phase, lambda: (
            "unrelated files %r in the temp dir given as %s were changed or "
            "removed%s" % (hurt, how, extra)))


def run_compress(case, ctx, world, name, target, fmt, via, content):
    """-> True if `target` now holds a typhon-made archive of `content`"""
    U, T, D, W = world["U"], world["T"], world["D"], world["W"]
    cf = case["cfault"]
    pre = case["pre"] if fmt else None
    if isinstance(pre, dict):
        # a genuine older archive of the same format that is longer than the
        # new one can become (incompressible payload, longer than the content)
        old_payload = hashlib.shake_256(b"c12-old").digest(
            len(content) + 200 + pre["old_archive"])
        pre = stdlib_archive(fmt, "older-member", old_payload)
        ctx.label("pre-existing-longer-archive")
    if pre is not None:
        ctx.label("pre-existing")
        with open(target, "wb") as fh:
            fh.write(pre)
    kwargs = {}
    if via != "suffix":
        kwargs["fmt"] = fmt
    if case["tmp"] == "arg":
        kwargs["tmpdir"] = T
        ctx.label("tmpdir-arg")
    expect_dir = T if case["tmp"] == "arg" else D
    chunks = max(1, case["chunks"])
    state = {"fired": False, "exc": None}
    if cf is not None:
        ctx.label("fault-" + {"zipcopy": "copy"}.get(cf["kind"], cf["kind"]),
                  "exc-" + cf["exc"])
    if cf is not None and cf["kind"] == "noinput":
        return run_compress_noinput(case, ctx, world, name, target, fmt,
                                    kwargs, pre, content)
    body_exc = None
    raised = None
    yielded = None
    try:
        with Patch(U, cf, fmt, len(content), state):
            with world["compress"](target, **kwargs) as path:
                if fmt is None:
                    ctx.check(path is target, "compress/passthrough-not-same",
                              lambda: "compress(%r) yielded %r" % (target, path))
                    ctx.check(temp_dirs_clean(world),
                              "compress/passthrough-tempfile",
                              lambda: "temp entries for a plain name: %r %r"
                              % (listing(T), listing(D)))
                else:
                    yielded = path
                if cf is not None and cf["kind"] == "body":
                    body_exc = make_exc(cf["exc"], "injected body")
                    if cf["at"] == "before":
                        raise body_exc
                with open(path, "wb") as fh:
                    step = -(-len(content) // chunks) or 1
                    pieces = [content[i:i + step]
                              for i in range(0, len(content), step)] or [b""]
                    for i, piece in enumerate(pieces):
                        if body_exc is not None and cf["at"] == "mid" \
                                and i == len(pieces) // 2:
                            fh.flush()
                            raise body_exc
                        fh.write(piece)
                if body_exc is not None:
                    raise body_exc
    except InjectedError as exc:
        raised = exc
    except InjectedBase as exc:
        raised = exc

    expected_exc = body_exc if body_exc is not None else (
        state["exc"] if state["fired"] else None)
    if raised is not None:
        ctx.check(raised is expected_exc, "compress/other-exception", lambda: (
            "expected %r to leave the block, got %r" % (expected_exc, raised)))
    elif expected_exc is not None:
        ctx.fail("compress/exception-swallowed",
                 "%r was raised %s but the with statement ended normally"
                 % (expected_exc, "in the body" if body_exc else "in compress_as"))
        return False
    if cf is not None and cf["kind"] != "body" and not state["fired"]:
        ctx.label("fault-not-reached")

    no_debris(ctx, world, "compress", " (fault=%r, name=%r, fmt=%r)"
              % (cf, name, fmt))

    def temp_location():
        ctx.check(
            yielded is None
            or (isinstance(yielded, str) and under(yielded, expect_dir)),
            "compress/tempfile-outside-tmpdir", lambda: (
                "compress(%r, %r) yielded %r which is not inside %r"
                % (name, kwargs, yielded, expect_dir)))

    if fmt is None:
        # plain name: the caller wrote directly to the file
        if raised is None:
            ctx.check(listing(W) == [name] and read_bytes(target) == content,
                      "compress/passthrough-content", lambda: (
                          "plain name %r: directory %r, %d bytes expected"
                          % (name, listing(W), len(content))))
        return False

    if body_exc is not None:
        # exception inside the block: no target / old target untouched
        if pre is None:
            ctx.check(listing(W) == [], "compress/target-after-body-exception",
                      lambda: "body raised (%s) but the target directory "
                      "holds %r" % (cf["at"], listing(W)))
        else:
            ctx.check(listing(W) == [name] and read_bytes(target) == pre,
                      "compress/existing-target-changed", lambda: (
                          "body raised (%s); directory %r; existing target "
                          "had %d bytes, now %s" % (
                              cf["at"], listing(W), len(pre),
                              len(read_bytes(target))
                              if os.path.exists(target) else "missing")))
        temp_location()
        return False
    if raised is not None:
        # fault inside compress_as: state of the target is not part of the
        # statement (see ASSUMPTIONS); remove whatever is there
        others = [n for n in listing(W) if n != name]
        ctx.check(not others, "compress/stray-files", lambda: repr(others))
        if os.path.exists(target):
            ctx.label("partial-target-after-compress_as-fault")
            os.unlink(target)
        return False

    # success path
    ctx.check(listing(W) == [name], "compress/target-directory", lambda: (
        "after compress(%r, %r) the directory holds %r"
        % (name, kwargs, listing(W))))
    got, problem = stdlib_read(fmt, target)
    ctx.check(problem is None, "compress/not-a-genuine-archive", lambda: (
        "compress(%r, %r), %d bytes written: %s"
        % (name, kwargs, len(content), problem)))
    if problem is None:
        ctx.check(got == content, "compress/archive-content", lambda: (
            "compress(%r, %r): the %s archive yields %d bytes, %d were "
            "written (first difference at %s)" % (
                name, kwargs, fmt, len(got), len(content),
                next((i for i, (a, b) in enumerate(zip(got, content))
                      if a != b), min(len(got), len(content))))))
    temp_location()
    return problem is None and got == content


def run_compress_noinput(case, ctx, world, name, target, fmt, kwargs, pre,
                         content):
    """the block ends normally but left nothing to compress at the yielded
    path (never written / removed again / a directory): there is no content,
    so no target may appear and an existing one must stay as it was"""
    how = case["cfault"]["how"]
    W = world["W"]
    ctx.label("noinput-" + how)
    error = None
    try:
        with world["compress"](target, **kwargs) as path:
            if how == "removed":
                with open(path, "wb") as fh:
                    fh.write(content)
                os.unlink(path)
            elif how == "directory":
                os.mkdir(path)
    except OSError as exc:              # FileNotFoundError, IsADirectoryError
        error = exc
    ctx.label("noinput-raises" if error is not None else "noinput-silent")
    detail = " (block left %s at the temp path, compress(%r, %r)%s)" % (
        {"nothing": "no file", "removed": "no file",
         "directory": "a directory"}[how], name, kwargs,
        ", raised %r" % (error,) if error is not None else "")
    no_debris(ctx, world, "compress", detail)
    sig = "compress/target-after-missing-input"
    if pre is None:
        ctx.check(listing(W) == [], sig, lambda: (
            "a target appeared although there was nothing to compress: %r%s"
            % (listing(W), detail)))
    else:
        ctx.check(listing(W) == [name] and read_bytes(target) == pre, sig,
                  lambda: "the existing target (%d bytes) is now %s%s" % (
                      len(pre), "%d bytes" % len(read_bytes(target))
                      if os.path.isfile(target) else "gone", detail))
    for n in listing(W):
        os.unlink(os.path.join(W, n))
    return False


def run_decompress(case, ctx, world, name, target, fmt, via, content,
                   have_typhon_archive):
    U, T, D, W, X = (world[k] for k in "UTDWX")
    df = case["dfault"]
    if fmt is None:
        arch_name, arch = name, target
        if not os.path.exists(arch):
            with open(arch, "wb") as fh:
                fh.write(content)
        arch_bytes = read_bytes(arch)
    else:
        if via in ("fmt-arg-plain", "fmt-arg-other"):
            # decompress has no fmt=: it can only see a suffix
            if os.path.exists(target):
                os.unlink(target)
            arch_name = name + "." + fmt
        else:
            arch_name = name
        arch = os.path.join(W, arch_name)
        member = arch_name[:-(len(fmt) + 1)]
        if not (have_typhon_archive and arch == target
                and case["darchive"] == "typhon"):
            with open(arch, "wb") as fh:
                fh.write(stdlib_archive(fmt, member, content))
            ctx.label("archive-stdlib")
        else:
            ctx.label("archive-typhon")
        arch_bytes = read_bytes(arch)
        corrupt = None
        if df is not None and df["kind"] == "truncate":
            corrupt = arch_bytes[:df["k"] % len(arch_bytes)]
            ctx.label("truncated", "corrupt")
        elif df is not None and df["kind"] == "bitflip":
            pos = df["pos"] % len(arch_bytes)
            corrupt = (arch_bytes[:pos]
                       + bytes([arch_bytes[pos] ^ (1 << df["bit"])])
                       + arch_bytes[pos + 1:])
            ctx.label("bitflip", "corrupt")
        elif df is not None and df["kind"] == "other-format":
            other = df["as"]
            corrupt = (content if other == "plain"
                       else stdlib_archive(other, member, content))
            if other == fmt:
                corrupt = b""
            ctx.label("other-format", "corrupt")
        if corrupt is not None:
            with open(arch, "wb") as fh:
                fh.write(corrupt)
            arch_bytes = corrupt
    before_W = listing(W)

    kwargs = {}
    if case["dtmp"] == "arg":
        kwargs["tmpdir"] = T
    expect_dir = T if case["dtmp"] == "arg" else D
    xtarget = None
    if case["dtarget"]:
        xtarget = os.path.join(X, "unpacked.bin")
        kwargs["target"] = xtarget
        ctx.label("target-arg")
        dpre = case.get("dpre")
        if dpre is not None and fmt is not None:
            # the explicit target exists already with other content
            # (documented: "will be overwritten ... and deleted")
            size = {"empty": 0, "shorter": len(content) // 2,
                    "longer": len(content) + 1 + dpre["n"]}[dpre["kind"]]
            with open(xtarget, "wb") as fh:
                fh.write((b"OLD-target-bytes/" * (size // 17 + 1))[:size])
            ctx.label("target-exists", "target-exists-" + dpre["kind"])
    is_corrupt = fmt is not None and df is not None and df["kind"] in (
        "truncate", "bitflip", "other-format")
    inj = df if (df is not None and not is_corrupt) else None
    if inj is not None and fmt is None and inj["kind"] != "body":
        inj = None                      # nothing to patch for a plain name
    if inj is not None:
        ctx.label("fault-" + inj["kind"], "exc-" + inj["exc"], "fault-decompress")
    state = {"fired": False, "exc": None}
    body_exc = raised = None
    corrupt_exc = None
    seen = {"path": None, "data": None}
    try:
        with Patch(U, inj, fmt, len(content), state):
            with world["decompress"](arch, **kwargs) as path:
                seen["path"] = path
                if inj is not None and inj["kind"] == "body" \
                        and inj["at"] == "before":
                    body_exc = make_exc(inj["exc"], "injected body")
                    raise body_exc
                seen["data"] = read_bytes(path)
                if inj is not None and inj["kind"] == "body":
                    body_exc = make_exc(inj["exc"], "injected body")
                    raise body_exc
    except InjectedError as exc:
        raised = exc
    except InjectedBase as exc:
        raised = exc
    except Exception as exc:  # noqa - corrupt archives may raise anything
        if not is_corrupt:
            raise
        corrupt_exc = exc
        ctx.label("corrupt-raises")

    detail = " (decompress(%r, %r), fault=%r)" % (arch_name, kwargs, df)
    expected_exc = body_exc if body_exc is not None else (
        state["exc"] if state["fired"] else None)
    if raised is not None:
        ctx.check(raised is expected_exc, "decompress/other-exception",
                  lambda: "expected %r, got %r%s"
                  % (expected_exc, raised, detail))
    elif expected_exc is not None:
        ctx.fail("decompress/exception-swallowed",
                 "%r was raised but the with statement ended normally%s"
                 % (expected_exc, detail))
    if inj is not None and inj["kind"] != "body" and not state["fired"]:
        ctx.label("fault-not-reached")

    path = seen["path"]
    if fmt is None:
        if path is not None:
            ctx.check(path is arch, "decompress/passthrough-not-same",
                      lambda: "decompress(%r) yielded %r" % (arch, path))
        ctx.check(os.path.exists(arch) and read_bytes(arch) == arch_bytes,
                  "decompress/passthrough-file-touched", lambda: (
                      "plain file %r after the block: %s" % (
                          arch_name, "exists" if os.path.exists(arch)
                          else "deleted")))
        ctx.check(listing(X) == [], "decompress/passthrough-target-created",
                  lambda: repr(listing(X)))
    elif path is not None:
        if xtarget is None:
            ctx.check(isinstance(path, str) and under(path, expect_dir),
                      "decompress/tempfile-outside-tmpdir", lambda: (
                          "yielded %r, not inside %r%s"
                          % (path, expect_dir, detail)))
        else:
            ctx.check(path == xtarget, "decompress/target-ignored", lambda: (
                "yielded %r instead of target %r" % (path, xtarget)))
        ctx.check(path != arch, "decompress/yielded-the-archive", lambda: (
            "decompress(%r) handed out the archive itself" % arch_name))
        ctx.check(not os.path.exists(path) or path == arch,
                  "decompress/copy-not-removed", lambda: (
                      "the decompressed copy %r still exists%s"
                      % (path, detail)))
        if seen["data"] is not None and not is_corrupt:
            got = seen["data"]
            ctx.check(got == content, "decompress/roundtrip-content", lambda: (
                "%d bytes read back, %d written (first difference at %s)%s" % (
                    len(got), len(content),
                    next((i for i, (a, b) in enumerate(zip(got, content))
                          if a != b), min(len(got), len(content))), detail)))
        if is_corrupt and corrupt_exc is None:
            ctx.label("corrupt-silent")
    elif not is_corrupt and raised is None:
        ctx.fail("decompress/block-not-entered", "no path was yielded" + detail)
    elif fmt is not None and inj is not None and inj["kind"] == "body":
        ctx.fail("decompress/block-not-entered", "no path was yielded" + detail)

    no_debris(ctx, world, "decompress", detail)
    ctx.check(listing(X) == [], "decompress/target-not-removed", lambda: (
        "explicit target directory holds %r%s" % (listing(X), detail)))
    ctx.check(listing(W) == before_W and read_bytes(arch) == arch_bytes,
              "decompress/archive-touched", lambda: (
                  "directory %r -> %r%s" % (before_W, listing(W), detail)))


# --------------------------------------------------------------------------
# several blocks open at the same time
# --------------------------------------------------------------------------
def check_nested(case, ctx):
    """2-3 compress / decompress blocks for files with the same base name in
    different directories are open at once and left in a generated order"""
    from typhon.files import compress, decompress
    slots = case["slots"]
    order = [i for i in case["exit_order"] if i < len(slots)]
    order += [i for i in reversed(range(len(slots))) if i not in order]
    lifo = order == list(reversed(range(len(slots))))
    ctx.label("nested-%d" % len(slots), "exit-lifo" if lifo else "exit-other")
    ctx.nontrivial = len(slots) >= 2
    root = tempfile.mkdtemp(prefix="vp-c12-")
    saved_tempdir = tempfile.tempdir
    try:
        T = os.path.join(root, "tmp-arg")
        D = os.path.join(root, "tmp-default")
        os.mkdir(T)
        os.mkdir(D)
        tempfile.tempdir = D
        by = {T: {}, D: {}}
        open_blocks = []
        for i, slot in enumerate(slots):
            fmt = slot["fmt"]
            name = case["stem"] + "." + fmt
            W = os.path.join(root, "dir%d" % i)
            os.mkdir(W)
            by[W] = {}
            content = b"slot %d: " % i + slot["data"]
            path = os.path.join(W, name)
            if slot["kind"] == "decompress":
                with open(path, "wb") as fh:
                    fh.write(stdlib_archive(fmt, case["stem"], content))
                by[W][name] = read_bytes(path)
            if slot["sibling"]:
                # an unrelated uncompressed file next to the archive
                sib = os.path.join(W, case["stem"])
                with open(sib, "wb") as fh:
                    fh.write(b"sibling %d" % i)
                by[W][case["stem"]] = b"sibling %d" % i
            tmpdir = {"arg": T, "default": None, "own": W}[slot["tmp"]]
            ctx.label("nested-" + slot["kind"], "nested-tmp-" + slot["tmp"])
            if case["bystanders"]:
                for d in (T, D):
                    for n in (case["stem"], name, "temp"):
                        with open(os.path.join(d, n), "wb") as fh:
                            fh.write(b"bystander " + n.encode())
                        by[d][n] = b"bystander " + n.encode()
            kwargs = {} if tmpdir is None else {"tmpdir": tmpdir}
            cm = (decompress if slot["kind"] == "decompress" else compress)(
                path, **kwargs)
            open_blocks.append({"i": i, "cm": cm, "slot": slot, "path": path,
                                "content": content, "W": W, "open": False,
                                "kwargs": kwargs})
        if case["bystanders"]:
            ctx.label("bystanders")

        def describe():
            return " (blocks: %s; exit order %r)" % (", ".join(
                "%s(dir%d/%s.%s, %r)" % (b["slot"]["kind"], b["i"],
                                         case["stem"], b["slot"]["fmt"],
                                         b["slot"]["tmp"])
                for b in open_blocks), order)

        def verify_open(when):
            paths = [b["yielded"] for b in open_blocks if b["open"]]
            ctx.check(len(set(paths)) == len(paths), "nested/shared-temp-path",
                      lambda: "two open blocks were given the same path: %r%s"
                      % (paths, describe()))
            for b in open_blocks:
                if not b["open"]:
                    continue
                ok = os.path.isfile(b["yielded"]) and read_bytes(
                    b["yielded"]) == b["content"]
                ctx.check(ok, "nested/open-block-disturbed", lambda b=b: (
                    "%s: the temp file of the open %s block %d %s%s" % (
                        when, b["slot"]["kind"], b["i"],
                        "is gone" if not os.path.isfile(b["yielded"])
                        else "holds other bytes", describe())))

        def verify_dirs(when):
            for d, mine in sorted(by.items()):
                hurt = [n for n, data in sorted(mine.items())
                        if not os.path.isfile(os.path.join(d, n))
                        or read_bytes(os.path.join(d, n)) != data]
                ctx.check(not hurt, "nested/bystander-touched", lambda: (
                    "%s: files %r in %s were changed or removed%s"
                    % (when, hurt, os.path.basename(d), describe())))

        for b in open_blocks:
            b["yielded"] = b["cm"].__enter__()
            b["open"] = True
            if b["slot"]["kind"] == "compress":
                with open(b["yielded"], "wb") as fh:
                    fh.write(b["content"])
            verify_open("after entering block %d" % b["i"])
        verify_dirs("with all blocks open")
        for i in order:
            b = open_blocks[i]
            b["cm"].__exit__(None, None, None)
            b["open"] = False
            when = "after leaving block %d" % i
            ctx.check(not os.path.exists(b["yielded"]), "nested/copy-not-removed",
                      lambda: "%s its temp file %r still exists%s"
                      % (when, b["yielded"], describe()))
            if b["slot"]["kind"] == "compress":
                got, problem = stdlib_read(b["slot"]["fmt"], b["path"]) \
                    if os.path.isfile(b["path"]) else (None, "no target")
                ctx.check(problem is None and got == b["content"],
                          "nested/archive-content", lambda: (
                              "%s: target %s%s" % (
                                  when, problem or "holds other content",
                                  describe())))
                if os.path.isfile(b["path"]):
                    by[b["W"]][os.path.basename(b["path"])] = read_bytes(
                        b["path"])
            verify_open(when)
            verify_dirs(when)
        for d, mine in sorted(by.items()):
            ctx.check(listing(d) == sorted(mine), "nested/debris", lambda: (
                "%s holds %r, expected %r%s" % (
                    os.path.basename(d), listing(d), sorted(mine), describe())))
    finally:
        tempfile.tempdir = saved_tempdir
        shutil.rmtree(root, ignore_errors=True)


# --------------------------------------------------------------------------
# strategies
# --------------------------------------------------------------------------
ALNUM = "abcxyzABCXYZ0123456789"
EXTRA = ALNUM + "_-   äöüéß雪λ"
INNER = [".tar", ".nc", ".v1", ".2018", ".gz", ".zip", ".bz2", ".xz", ".",
         ".h5", ". x"]
PLAIN_SUFFIX = ["", ".dat", ".nc", ".GZ", ".gzip", ".tgz", ".z", ".xz2",
                ".bz", ".7z", ".Zip", ".txt", ".lzma"]
SCRATCH_NAMES = ["temp", "temp", "temp", "tmp", "unpacked.bin"]
SPECIAL_PLAIN = ["gz", "zip", "xz", "bz2", ".gz", ".xz", ".zip", ".bz2"]


@st.composite
def names(draw, fmt, via):
    if fmt is None and draw(st.integers(0, 7)) == 0:
        return {"prefix": "", "core": draw(st.sampled_from(SPECIAL_PLAIN)),
                "inner": [], "suffix": ""}
    scratch = draw(st.integers(0, 11 if via != "fmt-arg-plain" else 4)) == 0
    if scratch:
        # the names typhon itself uses inside its temporary directory
        # (compress: "<tdir>/temp"), bare and with suffixes
        prefix = ""
        core = draw(st.sampled_from(SCRATCH_NAMES))
        inner = draw(st.sampled_from([[], [], [".nc"]]))
    else:
        prefix = draw(st.sampled_from(["", "", "", "."]))
        core = draw(st.sampled_from(ALNUM)) + draw(st.text(EXTRA, max_size=6))
        inner = draw(st.lists(st.sampled_from(INNER), max_size=3))
    if via == "fmt-arg-other":
        suffix = "." + draw(st.sampled_from([f for f in FORMATS if f != fmt]))
    elif fmt is None or via == "fmt-arg-plain":
        suffix = draw(st.sampled_from(
            ["", ""] + PLAIN_SUFFIX if scratch else PLAIN_SUFFIX))
        if suffix == "" and inner and inner[-1].lstrip(".") in FORMATS:
            suffix = ".dat"
    else:
        suffix = "." + fmt
    return {"prefix": prefix, "core": core, "inner": inner, "suffix": suffix}


@st.composite
def contents(draw):
    which = draw(st.sampled_from(
        ["small", "small", "small", "empty", "one", "medium", "medium",
         "expand", "expand", "expand", "expand", "large", "magic",
         "magic"]))
    if which == "magic":
        return {"kind": "magic", "fmt": draw(st.sampled_from(FORMATS)),
                "full": draw(st.booleans()),
                "size": draw(st.integers(0, 300)),
                "key": draw(st.integers(0, 2**32))}
    if which == "empty":
        return {"kind": "literal", "data": b""}
    if which == "one":
        return {"kind": "literal", "data": draw(st.binary(min_size=1,
                                                          max_size=1))}
    if which == "small":
        return {"kind": "literal", "data": draw(st.binary(min_size=2,
                                                          max_size=64))}
    if which == "medium":
        return {"kind": "literal", "data": draw(st.binary(min_size=65,
                                                          max_size=2048))}
    size = (draw(st.integers(64 * 1024 + 1, 256 * 1024)) if which == "large"
            else draw(st.one_of(st.integers(2, 5000),
                                st.integers(60000, 70000))))
    return {"kind": "expand",
            "mode": draw(st.sampled_from(["random", "compressible",
                                          "precompressed"])),
            "size": size, "key": draw(st.integers(0, 2**32))}


EXC = st.sampled_from(["exception", "exception", "base"])


@st.composite
def compress_faults(draw, fmt):
    if fmt is None:
        kinds = ["none", "none", "body"]
    else:
        kinds = ["none", "none", "none", "body", "body", "copy", "open",
                 "noinput"]
    kind = draw(st.sampled_from(kinds))
    if kind == "none":
        return None
    if kind == "noinput":
        return {"kind": "noinput", "exc": "exception",
                "how": draw(st.sampled_from(["nothing", "removed",
                                             "directory"]))}
    if kind == "body":
        return {"kind": "body", "exc": draw(EXC),
                "at": draw(st.sampled_from(["before", "mid", "after"]))}
    if kind == "copy":
        return {"kind": "zipcopy" if fmt == "zip" else "copy",
                "exc": draw(EXC), "k": draw(st.integers(0, 2**20))}
    return {"kind": "open", "exc": draw(EXC)}


@st.composite
def decompress_faults(draw, fmt):
    if fmt is None:
        kinds = ["none", "none", "body"]
    else:
        kinds = ["none", "none", "none", "body", "body", "copy", "open",
                 "truncate", "truncate", "bitflip", "other-format"]
    kind = draw(st.sampled_from(kinds))
    if kind == "none":
        return None
    if kind == "body":
        return {"kind": "body", "exc": draw(EXC),
                "at": draw(st.sampled_from(["before", "after"]))}
    if kind == "copy":
        return {"kind": "copy", "exc": draw(EXC),
                "k": draw(st.integers(0, 2**20))}
    if kind == "open":
        return {"kind": "open", "exc": draw(EXC)}
    if kind == "truncate":
        return {"kind": "truncate", "k": draw(st.one_of(
            st.integers(0, 40), st.integers(0, 2**20)))}
    if kind == "bitflip":
        return {"kind": "bitflip", "pos": draw(st.one_of(
            st.integers(0, 40), st.integers(0, 2**20))),
            "bit": draw(st.integers(0, 7))}
    return {"kind": "other-format",
            "as": draw(st.sampled_from(list(FORMATS) + ["plain"]))}


@st.composite
def cases(draw):
    fmt = draw(st.sampled_from(list(FORMATS) * 2 + [None, None]))
    if fmt is None:
        via = "suffix"
    else:
        via = draw(st.sampled_from(["suffix", "suffix", "suffix", "fmt-arg",
                                    "fmt-arg-plain", "fmt-arg-plain",
                                    "fmt-arg-other"]))
    return {
        "fmt": fmt, "via": via,
        "name": draw(names(fmt, via)),
        "content": draw(contents()),
        "chunks": draw(st.integers(1, 4)),
        "xdev": draw(st.sampled_from([False, False, False, True])),
        "bystanders": draw(st.sampled_from([False, False, True])),
        "tmp": draw(st.sampled_from(["arg", "default"])),
        "dtmp": draw(st.sampled_from(["arg", "default"])),
        "dtarget": draw(st.sampled_from([False, False, False, True, True])),
        "dpre": draw(st.one_of(st.none(), st.fixed_dictionaries({
            "kind": st.sampled_from(["longer", "shorter", "longer", "empty"]),
            "n": st.integers(0, 300)}))),
        "darchive": draw(st.sampled_from(["typhon", "typhon", "stdlib"])),
        "pre": draw(st.one_of(
            st.none(), st.none(), st.binary(min_size=0, max_size=40),
            st.fixed_dictionaries({"old_archive": st.integers(0, 300)}))),
        "cfault": draw(compress_faults(fmt)),
        "dfault": draw(decompress_faults(fmt)),
    }


@st.composite
def nested_cases(draw):
    n = draw(st.sampled_from([2, 2, 3]))
    same_fmt = draw(st.sampled_from(list(FORMATS)))
    slots = []
    for _ in range(n):
        slots.append({
            "kind": draw(st.sampled_from(["decompress", "decompress",
                                          "compress"])),
            "fmt": draw(st.sampled_from([same_fmt, same_fmt] + list(FORMATS))),
            "data": draw(st.binary(min_size=0, max_size=200)),
            "tmp": draw(st.sampled_from(["arg", "arg", "default", "own"])),
            "sibling": draw(st.booleans()),
        })
    return {
        "stem": draw(st.sampled_from(["orbit.v2.nc", "temp", "a", "d ä.dat",
                                      "x.tar"])),
        "slots": slots,
        "exit_order": draw(st.permutations(list(range(3)))),
        "bystanders": draw(st.sampled_from([False, True])),
    }


def chunk_boundary_cases():
    for fmt in FORMATS:
        yield {
            "fmt": fmt, "via": "suffix",
            "name": {"prefix": "", "core": "big", "inner": [".bin"],
                     "suffix": "." + fmt},
            "content": {"kind": "expand", "mode": "compressible",
                        "size": BIG, "key": 5},
            "chunks": 3, "tmp": "arg", "dtmp": "default", "dtarget": False,
            "dpre": None, "darchive": "typhon", "pre": None, "cfault": None, "dfault": None,
        }


def suites(tier):
    return [
        Suite("blocks", check_case, strategy=cases(),
              examples={"quick": 400, "thorough": 6000}),
        Suite("nested", check_nested, strategy=nested_cases(),
              examples={"quick": 150, "thorough": 2500}),
        Suite("chunk-boundary", check_case, cases=chunk_boundary_cases,
              exhaustive=False, shards=4, tiers=("thorough",)),
    ]
