"""C02 - file names generated from a template parse back to the same times and
attributes.

Oracle: the harness' own formatter / coverage model (vp/gen/filesets.py),
built on datetime arithmetic only.
"""
import datetime as dt

from hypothesis import strategies as st

from vp.gen import filesets as G
from vp.runner import Suite

PROP_ID = "C02"
LEVEL = "exploration"
QUICK_SHARDS = 4
RULE = (
    "Hypothesis draws a path template from the grammar of vp/gen/filesets.py "
    "(year|year2, month+day|doy, hour..millisecond in directory and file "
    "part, repeated placeholders, full / partial / no end fields, user "
    "placeholders with default regex, fixed-width regex or value list, "
    "wildcard-free for the negative tests, literals with . - _ ~ = , @ % #) "
    "and 1-5 periods s <= e at the template's resolution (years 1000-9999 "
    "resp. 1965-2064 for year2; leap days, doy 366, day/month/year "
    "roll-overs), info_via in {filename, handler, both} with a stub handler. "
    "Oracle = harness formatter and coverage model: get_filename equals the "
    "harness name, parse_filename returns the formatted fields, get_info "
    "returns the modelled times and attributes; mutated names must raise "
    "ValueError; unknown / unfilled placeholders raise their errors.  "
    "Non-trivial = template with >= 2 temporal fields and (s != e or an end "
    "model applies).  Distinct = distinct case hash."
)
ASSUMPTIONS = [
    "placeholder values are alphanumeric and separated from neighbouring "
    "fields by a literal (ambiguous templates are not a defect)",
    "partial ends start at end_hour, end_minute or end_second (ends given "
    "only as end_day / end_month / end_doy / end_millisecond are not claimed)",
]

EXTRA_DATES = [(1000, 1, 1), (1582, 10, 15), (1899, 12, 31), (1900, 2, 28),
               (1900, 3, 1), (2100, 2, 28), (2400, 2, 29), (9999, 12, 30),
               (1964, 12, 31), (2065, 1, 1), (1965, 1, 1), (2064, 12, 31)]


def make_fileset(tpl, info_via, handler_plan, late=None):
    fileset = _make_fileset(tpl, info_via, handler_plan, late)
    if late is not None and G.end_style(tpl) == "none":
        # history: the name is parsed (and its information cached) under
        # another time_coverage before the final one is assigned
        cov = tpl["coverage_s"]
        fileset.time_coverage = dt.timedelta(seconds=5400) if cov is None \
            else None
        try:
            fileset.get_info(late)
        except ValueError:
            pass
        fileset.time_coverage = None if cov is None \
            else dt.timedelta(seconds=cov)
    return fileset


def _make_fileset(tpl, info_via, handler_plan, late=None):
    from typhon.files import FileHandler, FileInfo, FileSet
    cov = tpl["coverage_s"]
    kwargs = {}
    arg = G.user_placeholder_arg(tpl)
    if late is not None and arg:
        # history: the fileset parses a name with the default placeholders
        # first, the user's regexes / value lists are set afterwards
        fileset = _make_fileset(dict(tpl, user={
            k: {"kind": "default", "regex": None, "values": v["values"]}
            for k, v in tpl["user"].items()}), info_via, handler_plan)
        try:
            fileset.parse_filename(late)
        except ValueError:
            pass
        fileset.set_placeholders(**arg)
        return fileset
    if info_via != "filename":
        def info(file_info):
            plan = handler_plan
            return FileInfo(file_info.path, [plan["t0"], plan["t1"]],
                            dict(plan["attrs"]))
        kwargs["handler"] = FileHandler(info=info)
        kwargs["info_via"] = info_via
    return FileSet(
        G.template_str(tpl, "/data/vp"), name="c02",
        time_coverage=None if cov is None else dt.timedelta(seconds=cov),
        placeholder=G.user_placeholder_arg(tpl), **kwargs)


def name_model(tpl, s, e):
    """(start, end or None) as parsed from the file name alone"""
    style = G.end_style(tpl)
    if style == "none":
        return s, None
    return G.model_times(tpl, s, e)


def check_names(case, ctx):
    from typhon.files.fileset import (UnfilledPlaceholderError,
                                      UnknownPlaceholderError)
    tpl = case["template"]
    names = G.placeholders_of(tpl)
    temporal = [n for n in names if n not in tpl["user"]]
    style = G.end_style(tpl)
    res = G.resolution_of(tpl)
    info_via = case["info_via"]
    ctx.label("end-" + style, "res-" + res, "via-" + info_via)
    if len(set(names)) < len(names):
        ctx.label("dup-placeholder")
    if any(t[0] == "ph" and t[1] not in tpl["user"]
           for c in tpl["dirs"] for t in c):
        ctx.label("dir-fields")
    if "millisecond" in names:
        ctx.label("ms")
    if style == "partial" and G.RES_ORDER.index(res) > max(
            G.RES_ORDER.index(f) for f in G.end_fields_of(tpl)):
        ctx.label("end-coarser-than-start")
    cov = tpl["coverage_s"]

    for per in case["periods"]:
        s, e, attrs = per["s"], per["e"], per["attrs"]
        plan = per["handler"]
        expected_name = G.format_path(tpl, s, e, attrs, "", "/data/vp")
        fileset = make_fileset(tpl, info_via, plan,
                               expected_name if per.get("late") else None)
        if per.get("late") and tpl["user"]:
            ctx.label("placeholders-set-late")
        if per.get("late") and style == "none":
            ctx.label("coverage-assigned-late")
        where = lambda: "template=%r s=%s e=%s attrs=%r coverage=%r via=%s " \
            "handler=%r" % (fileset.path, s, e, attrs, cov, info_via, plan)
        times_arg = s if (s == e and per["single"]) else (s, e)
        name = fileset.get_filename(times_arg, fill=attrs or None)
        ctx.check(name == expected_name, "get_filename/wrong-name", lambda: (
            "expected %r got %r; %s" % (expected_name, name, where())))
        if name != expected_name:
            continue
        fields = fileset.parse_filename(name)
        exp_fields = G.field_strings(tpl, s, e, attrs)
        ctx.check(fields == exp_fields, "parse_filename/wrong-fields",
                  lambda: "expected %r got %r; %s" % (exp_fields, fields,
                                                      where()))
        # ---- get_info ---------------------------------------------------
        n0, n1 = name_model(tpl, s, e)
        if info_via == "filename":
            m0, m1, mattr = n0, n1, dict(attrs)
        elif info_via == "both":
            m0 = plan["t0"] if plan["t0"] is not None else n0
            m1 = plan["t1"] if plan["t1"] is not None else n1
            mattr = {**attrs, **plan["attrs"]}
            if plan["t0"] is not None or plan["t1"] is not None \
                    or plan["attrs"]:
                ctx.label("handler-wins")
        else:
            m0, m1, mattr = plan["t0"], plan["t1"], dict(plan["attrs"])
        expect_error = False
        if m0 is None and m1 is None:
            m0, m1 = dt.datetime.min, dt.datetime.max
            ctx.label("no-times")
        elif m0 is None:
            expect_error = True
        elif m1 is None:
            m1 = m0 if cov is None else m0 + dt.timedelta(seconds=cov)
        if expect_error:
            ctx.label("handler-end-without-start")
            try:
                info = fileset.get_info(name)
            except ValueError:
                info = None
            else:
                ctx.fail("get_info/end-without-start-accepted",
                         "got %r; %s" % (info.times, where()))
        else:
            info = fileset.get_info(name)
            ctx.check(list(info.times) == [m0, m1], "get_info/wrong-times",
                      lambda: "expected %s .. %s got %r; %s" % (
                          m0, m1, info.times, where()))
            ctx.check(dict(info.attr) == mattr, "get_info/wrong-attr",
                      lambda: "expected %r got %r; %s" % (mattr, info.attr,
                                                          where()))
            ctx.check(info.path == name, "get_info/wrong-path", where)
        # labels
        if style == "partial" and G.model_times(tpl, s, e)[1] != \
                s.replace(**{("microsecond" if f == "millisecond" else f): (
                    e.microsecond // 1000 * 1000 if f == "millisecond"
                    else getattr(e, f)) for f in G.end_fields_of(tpl)}):
            sup = G.partial_superior(tpl)
            ctx.label("rollover-" + {86400.0: "day", 3600.0: "hour",
                                     60.0: "minute"}.get(
                                         sup.total_seconds(), "other"))
        if style == "full":
            ctx.label("full-end")
        if "doy" in names and s.month == 12 and s.day == 31 \
                and G.doy_of(s) == 366:
            ctx.label("doy-366")
        if ("year2" in names or "end_year2" in names) \
                and {s.year, e.year} & {1965, 2064, 1999, 2000}:
            ctx.label("year2-edge")
        if s.date() != e.date():
            ctx.label("spans-days")
        if len(set(temporal)) >= 2 and (s != e or style != "full"):
            ctx.nontrivial = True

        # ---- negative: a name that cannot match -------------------------
        for mut in per["mutations"]:
            bad = mutate_name(tpl, name, s, e, attrs, mut)
            if bad is None:
                continue
            ctx.label("negative")
            for meth in ("parse_filename", "get_info"):
                if meth == "get_info" and info_via != "filename":
                    continue
                try:
                    got = getattr(fileset, meth)(bad)
                except ValueError:
                    continue
                ctx.fail("negative/%s-accepts-non-matching-name" % meth,
                         "name %r (from %r, mutation %r) gave %r; %s" % (
                             bad, name, mut, got, where()))
    # ---- unknown / unfilled placeholders ----------------------------------
    per = case["periods"][0]
    fileset = make_fileset(tpl, "filename", None)
    try:
        got = fileset.get_filename(
            (per["s"], per["e"]), fill=per["attrs"] or None,
            template=fileset.path + "_{undefined_vp}")
    except UnknownPlaceholderError:
        pass
    else:
        ctx.fail("get_filename/unknown-placeholder-accepted", repr(got))
    special = set("{*[<(?!|\\")
    for name_, spec in sorted(tpl["user"].items()):
        default = {"default": ".+?", "regex": spec["regex"],
                   "list": "|".join(spec["values"])}[spec["kind"]]
        if not (set(default) & special):
            continue
        fill = {k: v for k, v in per["attrs"].items() if k != name_}
        ctx.label("unfilled")
        try:
            got = fileset.get_filename((per["s"], per["e"]),
                                       fill=fill or None)
        except UnfilledPlaceholderError:
            continue
        ctx.fail("get_filename/unfilled-placeholder-accepted",
                 "placeholder %s; got %r" % (name_, got))


def token_spans(tpl, s, e, attrs):
    """[(token, start, end)] of the formatted *relative* path"""
    spans, pos = [], 0
    chunks = list(tpl["dirs"]) + [tpl["file"]]
    for ci, chunk in enumerate(chunks):
        for tok in chunk:
            text = G.format_chunk([tok], s, e, attrs, "")
            spans.append((tok, pos, pos + len(text)))
            pos += len(text)
        if ci < len(chunks) - 1:
            spans.append((["sep"], pos, pos + 1))
            pos += 1
    return spans


def mutate_name(tpl, name, s, e, attrs, mut):
    """a name that cannot match the template, or None if not applicable.
    Only used for templates without wildcard and without free-text user
    placeholders."""
    if any(t[0] == "wild" for t in tpl["file"]):
        return None
    if any(spec["kind"] == "default" or spec["regex"] == r"[A-Za-z0-9]+"
           for spec in tpl["user"].values()):
        return None
    prefix = "/data/vp/"
    rel = name[len(prefix):]
    spans = token_spans(tpl, s, e, attrs)
    temporal = [(tok, a, b) for tok, a, b in spans
                if tok[0] == "ph" and tok[1] not in tpl["user"] and b > a]
    kind = mut["kind"]
    if kind == "junk-after":
        return name + mut["text"]
    if kind == "junk-before":
        return "x" + name
    if kind == "bad-user-value":
        strict = [(tok, a, b) for tok, a, b in spans
                  if tok[0] == "ph" and tok[1] in tpl["user"]]
        if not strict:
            return None
        tok, a, b = strict[mut["index"] % len(strict)]
        spec = tpl["user"][tok[1]]
        if spec["kind"] == "list":
            bad = "Zq9"
            if bad in spec["values"]:
                return None
        else:
            bad = {r"\d{5}": "1234x", r"[A-Z]{2}": "a1",
                   r"[a-z]\d": "Q7", r"\d\d\d\d\d": "1234x",
                   r"\w\d": "a-"}.get(spec["regex"])
            if bad is None:
                return None
        return prefix + rel[:a] + bad + rel[b:]
    if kind == "dot-to-char":
        dots = [a + i for tok, a, b in spans if tok[0] == "lit"
                for i, ch in enumerate(tok[1]) if ch == "."]
        if not dots:
            return None
        i = dots[mut["index"] % len(dots)]
        return prefix + rel[:i] + "x" + rel[i + 1:]
    if not temporal:
        return None
    tok, a, b = temporal[mut["index"] % len(temporal)]
    if kind == "digit-to-letter":
        i = a + mut["offset"] % (b - a)
        return prefix + rel[:i] + "x" + rel[i + 1:]
    if kind == "drop-digit":
        # removing a digit shortens the whole name by one character; since
        # every field has a fixed width and literals contain no digit at the
        # boundaries that could be taken over, the name can only still match
        # if a neighbouring literal starts/ends with a digit - skip those.
        lits = "".join(t[1] for c in list(tpl["dirs"]) + [tpl["file"]]
                       for t in c if t[0] == "lit")
        if any(ch.isdigit() for ch in lits):
            return None
        if any(spec["kind"] != "list" or any(
                ch.isdigit() for v in spec["values"] for ch in v)
               for spec in tpl["user"].values()):
            return None
        return prefix + rel[:a] + rel[a + 1:]
    return None


# --------------------------------------------------------------------------
# strategies
# --------------------------------------------------------------------------
@st.composite
def wide_instant(draw, tpl, res):
    if draw(st.integers(0, 3)) == 0:
        y, m, d = draw(st.sampled_from(EXTRA_DATES))
        t = dt.datetime(y, m, d) + dt.timedelta(
            seconds=draw(st.sampled_from([0, 1, 86399, 43200, 3600, 3599])),
            milliseconds=draw(st.sampled_from([0, 1, 999])))
        t = G.truncate(t, res)
    elif draw(st.integers(0, 5)) == 0:
        t = G.truncate(draw(st.datetimes(
            dt.datetime(1000, 1, 1), dt.datetime(9999, 12, 30))), res)
    else:
        t = draw(G.instants(res))
    if not G.year_ok(tpl, t.year):
        t = t.replace(year=draw(st.sampled_from([1965, 1999, 2000, 2018,
                                                 2064])), day=min(t.day, 28))
    return t


@st.composite
def name_cases(draw):
    tpl = draw(G.templates(allow_wild=False, coarse_end=True))
    res = G.resolution_of(tpl)
    style = G.end_style(tpl)
    unit = G.RES_DELTA[res]
    info_via = draw(st.sampled_from(["filename", "filename", "both",
                                     "handler"]))
    if info_via != "filename":
        # the handler stub never opens the file; avoid compression suffixes,
        # which would make typhon try to decompress the (non-existing) file
        last = tpl["file"][-1]
        if last[0] == "lit" and last[1].endswith(".gz"):
            last[1] = last[1][:-3]
    periods = []
    for _ in range(draw(st.integers(1, 5))):
        s = draw(wide_instant(tpl, res))
        if style == "none":
            e = s
        elif style == "partial":
            sup = G.partial_superior(tpl)
            n_max = int((sup - unit) / unit)
            n = draw(st.one_of(st.sampled_from([0, 1, n_max]),
                               st.integers(0, n_max)))
            e = s + n * unit
        else:
            n = draw(st.one_of(
                st.sampled_from([0, 1, 2]), st.integers(0, 5000),
                st.integers(0, 400).map(lambda d: int(
                    dt.timedelta(days=d) / unit))))
            try:
                e = s + n * unit
            except OverflowError:
                e = s
        if not G.year_ok(tpl, e.year) or e.year > 9999:
            e = s
        attrs = {name: draw(st.sampled_from(spec["values"]))
                 for name, spec in sorted(tpl["user"].items())}
        hplan = None
        if info_via != "filename":
            ht = draw(st.sampled_from(["none", "both", "start", "end"]))
            h0 = draw(wide_instant(tpl, "millisecond")) \
                if ht in ("both", "start") else None
            h1 = None
            if ht in ("both", "end"):
                base = h0 if h0 is not None else s
                if base.year >= 9999:
                    base = base.replace(year=9998)
                h1 = base + dt.timedelta(seconds=draw(st.integers(0, 10**6)))
            hattrs = draw(st.dictionaries(
                st.sampled_from(sorted(tpl["user"]) + ["extra", "orbit"]),
                st.sampled_from(["H1", "H2", "7"]), max_size=2))
            hplan = {"t0": h0, "t1": h1, "attrs": hattrs}
        muts = draw(st.lists(st.fixed_dictionaries({
            "kind": st.sampled_from(["digit-to-letter", "drop-digit",
                                     "junk-after", "junk-before",
                                     "dot-to-char", "bad-user-value"]),
            "index": st.integers(0, 20), "offset": st.integers(0, 8),
            "text": st.sampled_from(["~", ".bak", "0", "x", ".gz", ".zip",
                                     ".bz2", ".xz"])}), max_size=2))
        periods.append({"s": s, "e": e, "attrs": attrs, "handler": hplan,
                        "single": draw(st.booleans()), "mutations": muts,
                        "late": draw(st.integers(0, 3)) == 0})
    return {"template": tpl, "info_via": info_via, "periods": periods}


def suites(tier):
    return [Suite("names", check_names, strategy=name_cases(),
                  examples={"quick": 1200, "thorough": 30000})]
